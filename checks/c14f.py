"""C14F -- property C14 on a FOLLOWER aggregator (certificate chain synchronised from a leader, then own certification).

Follower.tla (MC: faithful design with the two listed findings excused + the repaired design with no excuse; paced
simulation that prints behaviours), behaviours replayed on a real leader + a real follower runtime (c14_follower), every
observation of the follower's store validated against the contract FollowerTrace.tla.

`stage(c, tier, seed)` adds these stages to an existing Check (called by checks/c14.py after the leader stages);
`run(tier, seed)` runs them alone (`bin/check C14F`)."""
import json
import os
import subprocess
import time

import followsched
import vlib
from checks.common import Check

KNOWN_PROP = "C14"      # the findings of the follower part are listed under the property they belong to

ASSUMPTIONS = [
    "follower part: a real leader and a real follower runtime (the repository's RuntimeTester twice) run in one process on a "
    "current-thread runtime; the follower reaches the leader over HTTP (the routes of the repository's "
    "tests/test_extensions/leader_aggregator_http_server.rs, served from the leader's real message service); sqlite on disk",
    "follower part: the leader is environment -- it is driven to certify / expire a round / be re-bootstrapped with a new "
    "genesis certificate / turn an epoch by harness macros; 'leader unreachable' = every route answers 503; a follower "
    "restart only happens while the leader is reachable (the real start-up reads the network configuration from the leader "
    "and fails otherwise)",
    "follower part: a process stop inside the synchroniser = the named database write fails (sqlite trigger raising ABORT, "
    "armed for one cycle; the repository's cursor panics on it: the panic is caught), then every in-memory object of the "
    "follower is rebuilt from the database",
]


def _run_harness(args, timeout=3000):
    """c14_follower logs heavily on stdout (the repository's test logger): stdout is discarded, the summary comes on stderr."""
    cmd = [os.environ.get("VERIF_C14F_BIN") or vlib.harness_bin("c14_follower")] + [str(a) for a in args]   # (override: self-test)
    env = dict(os.environ)
    env["RUST_BACKTRACE"] = "0"
    t = time.time()
    p = subprocess.run(cmd, env=env, stdout=subprocess.DEVNULL, stderr=subprocess.PIPE, text=True, timeout=timeout)
    if p.returncode != 0:
        print(p.stderr[-3000:])
        raise vlib.ToolError(f"c14_follower exited {p.returncode}")
    summary = {}
    for line in p.stderr.splitlines():
        if line.startswith("{"):
            try:
                summary = json.loads(line)
            except Exception:
                pass
    summary["wall_s"] = round(time.time() - t, 1)
    return summary


MINE = {"stop": "C14-follower-double-certification-after-stop-in-sync", "nonmsd": "C14-follower-synced-epoch-master-not-msd"}


def _open_findings():
    """Which of the two findings of the follower part are still listed as known (not fixed in /repo)."""
    ids = {r["id"] for r in vlib.known_findings(KNOWN_PROP)}
    assumed_fixed = set(filter(None, os.environ.get("VERIF_C14F_ASSUME_FIXED", "").split(",")))   # (self-test of this check)
    return {k for k, v in MINE.items() if v in ids and k not in assumed_fixed}


def _cfg(work, name, open_):
    """The model of the CURRENT code: the static cfg files describe the code with both findings open; once a finding is
    marked fixed in KNOWN_FINDINGS.jsonl (the repair of work/proposed/C14_follower_sync_open_message.diff applied) the
    corresponding switch of Follower.tla is flipped and its excuse withdrawn."""
    text = open(os.path.join(vlib.SPEC, "aggregator", name)).read()
    new = text
    if "stop" not in open_:
        new = new.replace("OpenFirst = FALSE", "OpenFirst = TRUE").replace("ExcuseStop = TRUE", "ExcuseStop = FALSE")
    if "nonmsd" not in open_:
        new = new.replace("MarkEntity = FALSE", "MarkEntity = TRUE").replace("ExcuseNonMsd = TRUE", "ExcuseNonMsd = FALSE")
    if new == text:
        return name
    path = os.path.join(work, name)
    with open(path, "w") as f:
        f.write(new)
    return path


def _per_schedule(recs):
    """Split a trace at its Start events."""
    runs = []
    for r in recs:
        if r["ev"] == "Start":
            runs.append([])
        runs[-1].append(r)
    return runs


def stage(c, tier, seed):
    th = tier == "thorough"
    work = os.path.join(c.work, "follower")
    os.makedirs(work, exist_ok=True)
    c.assumptions += [a for a in ASSUMPTIONS if a not in c.assumptions]
    for t in ("axum-test HTTP transport (the leader's face)", "sqlite trigger as stop point"):
        if t not in c.cov["trusted_base"]:
            c.cov["trusted_base"].append(t)

    # ---- MC: every branch of the follower's idle cycle + own sealing + stop inside the synchroniser reached
    open_ = _open_findings()
    c.cov.setdefault("follower", {})["findings_modelled_as_open"] = sorted(MINE[k] for k in open_)
    branches = ["FIdleStall", "FIdleSkipSync", "FIdleSyncGap", "FIdleSyncFirst", "FIdleSyncForced", "FIdleSyncRegenesis",
                "FSeal", "FRestart", "LRegenesis", "LExpire", "LToggle"]
    branches += ["FSyncOpen", "FStopInSync"] if "stop" in open_ else ["FSyncStore", "FStopInSyncOpenFirst"]
    c.mc("aggregator", "MC_Follower", _cfg(work, "MC_Follower_quick.cfg", open_), name="follower", workers=12, timeout=900,
         vacuity=branches)
    # the design with the two listed findings repaired (certificates + open message in one step; the open message marked
    # certified is the one of the last synchronised certificate's own entity) satisfies every invariant with NO excuse
    r1 = c.mc("aggregator", "MC_Follower", "MC_Follower_repaired.cfg" if th else "MC_Follower_repaired_quick.cfg",
              name="follower repaired-design (one transaction)", workers=12, timeout=1500, coverage=False)
    # ... and so does the smaller repair proposed in work/proposed/: the same two writes in the opposite order (a stop in
    # between leaves the condition that triggered the synchronisation in place, so it is simply run again)
    r2 = c.mc("aggregator", "MC_Follower", "MC_Follower_repaired2.cfg" if th else "MC_Follower_repaired2_quick.cfg",
              name="follower repaired-design (open message first)", workers=12, timeout=1500, vacuity=["FStopInSyncOpenFirst", "FSyncStore"])
    for r, what in ((r1, "one transaction"), (r2, "reordered writes")):
        if r.violated:
            raise vlib.ToolError(f"the repaired design ({what}) violates {r.violated}")
    if th:
        c.mc("aggregator", "MC_Follower", _cfg(work, "MC_Follower_thorough.cfg", open_), name="follower thorough", workers=14,
             timeout=3000, heap="24g", coverage=False)
        c.mc("aggregator", "MC_Follower", _cfg(work, "MC_Follower_thorough_cold.cfg", open_), name="follower thorough cold start",
             workers=14, timeout=3000, heap="24g", coverage=False)

    # ---- GEN: paced simulation, warm and cold follower
    behaviours = []
    for cfg, depth in (("MC_FollowerGen_warm.cfg", 60), ("MC_FollowerGen_cold.cfg", 70)):
        g = c.mc("aggregator", "MC_FollowerGen", _cfg(work, cfg, open_), name="follower SIM+GEN " + cfg[15:-4], workers=1, timeout=1500,
                 coverage=False, simulate=800 if not th else 8000, depth=depth, seed=seed)
        if g.violated:
            raise vlib.ToolError(f"simulation found a model counterexample to {g.violated} that is not a listed finding")
        behaviours += vlib.printed_json(g, "SCHED")
    behaviours = followsched.drop_prefixes(behaviours)
    if len(behaviours) < 300:
        raise vlib.ToolError("follower GEN produced too few behaviours")
    # ---- directed GEN: a shortest behaviour of the unpaced model to each listed finding (breadth-first search that stops
    # at the first state exhibiting it and prints the way there)
    witnesses = []
    for wname in sorted(open_):
        log = vlib.log
        log(f"[{c.prop}] MC aggregator/MC_FollowerGen (MC_FollowerWitness_{wname}.cfg): shortest behaviour to the finding")
        res = vlib.tlc("aggregator", "MC_FollowerGen", _cfg(work, f"MC_FollowerWitness_{wname}.cfg", open_), workers=1, timeout=900,
                       coverage=False, metaname=f"{c.prop}_witness_{wname}")
        found = vlib.printed_json(res, "SCHED")
        c.cov["stages"]["MC:follower witness " + wname] = {"generated": res.generated, "distinct": res.distinct,
                                                            "wall_s": round(res.wall, 1), "witness_steps": len(found[0]["steps"]) if found else 0}
        c.cov["states"] += res.distinct
        c.cov["transitions"] += res.generated
        if res.error or not found:
            print(res.out[-2000:])
            raise vlib.ToolError(f"follower witness search '{wname}' found nothing: the model no longer reaches the listed finding")
        witnesses.append(found[0])
    covering, missed = followsched.cover(behaviours, 10 if not th else 40)
    rich = sorted(behaviours, key=lambda b: (-(b["nown"] + 2 * b["nsync"]), len(b["steps"])))
    chosen = witnesses + covering + [b for b in rich[: (6 if not th else 60)] if b not in covering]
    st = c.cov["stages"]["MC:follower SIM+GEN warm"]
    st["behaviours"] = len(behaviours)
    st["behaviours_replayed"] = len(chosen)
    st["features_covered"] = sorted({"/".join(str(x) for x in f) for b in chosen for f in followsched.features(b)})
    st["features_not_replayed"] = sorted("/".join(str(x) for x in f) for f in missed)
    sched = os.path.join(work, "schedules.ndjson")
    with open(sched, "w") as f:
        for i, b in enumerate(chosen):
            f.write(json.dumps({"id": i, "warm": b["warm"], "steps": followsched.convert(b["steps"]),
                                "model": {k: b[k] for k in ("nf", "nown", "nsync", "nl", "dup")}}) + "\n")

    # ---- RUN + VAL
    c.build("vh-aggregator", ["c14_follower"])
    known = os.path.join(work, "known.ndjson")
    vlib.write_known_for_tlc(KNOWN_PROP, known)
    events = 0
    distinct = set()
    totals = {}
    for name, args in (("follower_tlc_schedules", ["--schedules", sched]),
                       ("follower_seeded_driver", ["--seed", seed, "--runs", 6 if not th else 60, "--rounds", 7])):
        t = os.path.join(work, f"{name}.trace.ndjson")
        s = _run_harness(["--out", t, "--work", os.path.join(work, "run_" + name)] + args)
        c.cov["stages"]["RUN:" + name] = s
        recs = vlib.read_ndjson(t)
        events += len(recs)
        for k, v in s.get("store_changes", {}).items():
            totals[k] = totals.get(k, 0) + v
        for r in recs:
            if r["ev"] == "Obs":
                o = r["obs"]
                distinct.add(json.dumps([r["action"], o["state"], [x["id"] for x in o["certs"]], len(o["open"]),
                                         r["leader"]["up"], len(r["leader"]["certs"])], sort_keys=True))
        obs = [r for r in recs if r["ev"] == "Obs" and any(x["origin"] == "own" for x in r["obs"]["certs"])
               and len({x["origin"] for x in r["obs"]["certs"]}) == 2]
        if obs:
            o = obs[-1]
            c.sample({"action": o["action"], "result": o["result"],
                      "follower_store": {k: o["obs"][k] for k in ("state", "epoch", "certs", "open")},
                      "leader": o["leader"]})
        if name == "follower_tlc_schedules":
            # prediction of the implementation-shaped model vs the real follower, per replayed behaviour
            agree = 0
            runs = _per_schedule(recs)
            macro = {"ok": 0, "failed": 0}
            compared = 0
            for b, run in zip(chosen, runs):
                last = run[-1]["obs"]["certs"]
                real = {"nf": len(last), "nown": sum(1 for x in last if x["origin"] == "own")}
                if followsched.ends_inside_sync(b["steps"]):
                    pass
                elif real["nf"] == b["nf"] and real["nown"] == b["nown"]:
                    agree += 1
                    compared += 1
                else:
                    compared += 1
                    c.drift.append({"stage": "follower", "model": {"nf": b["nf"], "nown": b["nown"]}, "real": real,
                                    "schedule": run[0].get("schedule")})
                for r in run[1:]:
                    if r["action"]["a"] == "LCertify":
                        macro["ok" if r["result"].get("ok") else "failed"] += 1
            s["model_agrees_on_final_store"] = agree
            s["model_compared_on_final_store"] = compared
            s["schedules"] = len(runs)
            s["leader_certify_macro"] = macro
        c.validate("aggregator", "FollowerTrace", "FollowerTrace.cfg", t, name=name, known_path=known)
    # vacuity of the replay (what the real follower did), deferred until after validation
    for keys, what in ((("first_sync",), "no first synchronisation"),
                       (("resync_replace", "resync_replace_with_own_certificates", "resync_same_genesis_append"),
                        "no forced re-synchronisation from the same genesis"),
                       (("resync_new_genesis", "resync_new_genesis_with_own_certificates"), "no re-synchronisation after a re-bootstrap of the leader"),
                       (("resync_replace_with_own_certificates", "resync_new_genesis_with_own_certificates"),
                        "no re-synchronisation of a store that holds certificates sealed by the follower"),
                       (("own_certificates",), "the follower sealed no certificate"),
                       (("stop_sync.after_store", "stop_sync.before_store"), "no stop inside the synchroniser was hit")):
        if sum(totals.get(k, 0) for k in keys) == 0:
            c.defer(f"follower replay vacuous: {what}")
    fo = c.cov["follower"]
    fo["store_changes_on_real_follower"] = totals
    fo["observations"] = events
    fo["distinct_observations"] = len(distinct)
    c.cov["evaluations"] = c.cov.get("evaluations", 0) + events
    c.cov["distinct_nontrivial"] = c.cov.get("distinct_nontrivial", 0) + len(distinct)
    if "rule" not in c.cov:
        c.cov["rule"] = ("one observation of the follower's store per external stimulus (to leader, follower or link); distinct = "
                         "distinct (action, follower state label, certificate ids in store order, #open messages, leader up, "
                         "#leader certificates)")
    else:
        c.cov["rule"] += ("; follower part: one observation of the follower's store per stimulus, distinct = distinct (action, "
                          "state label, certificate ids in store order, #open messages, leader up, #leader certificates)")
    return c


def run(tier, seed):
    c = Check("C14F", tier, seed, "model_checking")
    c.cov["trusted_base"] = ["TLC", "mithril-aggregator tests/test_extensions RuntimeTester (included by path)"]
    stage(c, tier, seed)
    # standalone: the listed findings live under C14
    rc = c.finish()
    vlib.report_known(KNOWN_PROP, c.known_used)
    return rc


def replay(path, seed, prop="C14F"):
    """Re-validate a stored follower trace (replays/<prop>_follower_*): c14.replay can route such paths here with prop="C14"."""
    c = Check(prop, "quick", seed, "model_checking", replay=True)
    known = os.path.join(c.work, "known.ndjson")
    vlib.write_known_for_tlc(KNOWN_PROP, known)
    c.validate("aggregator", "FollowerTrace", "FollowerTrace.cfg", os.path.abspath(path), known_path=known)
    return c.finish()
