"""C14 -- the aggregator only publishes certificates clients can verify to genesis.
Leader stages (Aggregator.tla, checks/agg_common.py) followed by the follower stages (Follower.tla, checks/c14f.py)."""
import os

from checks import agg_common, c14f

PROP = "C14"


def select(behaviours, thorough):
    n = 14 if not thorough else 150
    best = sorted(behaviours, key=lambda b: -b["ncerts"])
    plain = [b for b in best if not any(s["a"] == "Crash" for s in b["steps"])]
    return best[: n // 2] + plain[: n - n // 2]


def run(tier, seed):
    c = agg_common.run(PROP, tier, seed, select)
    c14f.stage(c, tier, seed)
    return c.finish()


def replay(path, seed):
    if "follower" in os.path.basename(path):
        return c14f.replay(path, seed, prop=PROP)
    return agg_common.replay(PROP, path, seed)
