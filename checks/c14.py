"""C14 -- the aggregator only publishes certificates clients can verify to genesis.
Leader stages (Aggregator.tla, checks/agg_common.py) followed by the follower stages (Follower.tla, checks/c14f.py)."""
import os

from checks import agg_common, c14f
from checks import sys as system_loop
from checks.common import Check

PROP = "C14"


def select(behaviours, thorough):
    n = 14 if not thorough else 150
    best = sorted(behaviours, key=lambda b: -b["ncerts"])
    plain = [b for b in best if not any(s["a"] == "Crash" for s in b["steps"])]
    return best[: n // 2] + plain[: n - n // 2]


def run(tier, seed):
    c = agg_common.run(PROP, tier, seed, select)
    c14f.stage(c, tier, seed)
    # the same aggregator runtime fed by REAL signers through its real routes (composed model, spec/system): in the
    # quick tier this stage runs once, as part of C20 (same stage, same traces); here in the thorough tier only
    if tier == "thorough":
        system_loop.stage(c, tier, seed)
    return c.finish()


def replay(path, seed):
    if system_loop.is_sys_trace(path):
        c = Check(PROP, "quick", seed, "model_checking", replay=True)
        system_loop.replay_stage(c, path)
        return c.finish()
    if "follower" in os.path.basename(path):
        return c14f.replay(path, seed, prop=PROP)
    return agg_common.replay(PROP, path, seed)
