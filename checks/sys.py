"""SYS -- the protocol loop: REAL signers against the REAL aggregator (C20 and C14 composed).

MC:  spec/system/Protocol.tla -- a chain, N signer nodes and one aggregator that communicate only through the
     aggregator's interface, each side with ITS OWN epoch-offset constants -- checked exhaustively for small bounds
     against (a) published => accepted and acceptable, (b) certificates valid under the client rule and naming only
     signers that signed, (c) no signature before a recorded key is held, (d) bounded progress (terminal-state
     invariant, counted round-robin rounds, liveness under fairness).  Flipping ONE offset constant on either side
     must violate (a) / (b) / (d): these runs are witness stages ("must be violated").
GEN: paced simulation of the same model prints behaviours; they are replayed as schedules on harness/vh-system
     (sys_loop): one process with the real aggregator runtime + its real HTTP routes and three real signer runtimes
     over loopback HTTP, one shared fake chain, every node ticked separately.
VAL: every observation of the real runs (TLC schedules + seeded driver; before every epoch change and in a fault-free
     epilogue the work of the epoch must get done within a bounded number of round-robin rounds) is validated against
     the contract spec/system/ProtocolTrace.tla.

`stage(c, tier, seed)` adds these stages to the Check of C20 / C14; `run` is the standalone entry (bin/check SYS)."""
import json
import os
import subprocess
import time

import vlib
from checks.common import Check

PROP = "SYS"
SPEC_DIR = "system"

BASE = dict(N=2, Core="{1}", Quorum=1, MaxEpoch=4, MaxImm=1, MaxRestarts=1, MaxOffline=1, MaxFlips=1, MaxLost=1,
            RoundRobin="FALSE", RoundsBound=0,
            S_RecOff=1, S_RetBack=1, S_NextOff=0, S_RegParamsOff=1,
            A_RecOff=1, A_RetBack=1, A_NextOff=0, A_ServeBack=1, A_MsgAvkOff=0)
INVARIANTS = ["TypeOK", "PublishedAccepted", "PublishedValid", "ChainValid", "KeyInForce", "NoEarlySign", "NoStall",
              "RoundsBounded"]

# ONE offset constant flipped, on one side only: what the two real components would disagree about
WITNESSES = [
    ("signer_registers_for_epoch_plus_2", {"S_RecOff": 2}),
    ("signer_signs_with_key_of_epoch_minus_2", {"S_RetBack": 2}),
    ("signer_next_key_from_epoch_plus_1", {"S_NextOff": 1}),
    ("signer_registration_parameters_from_next_aggregation", {"S_RegParamsOff": 0}),
    ("aggregator_round_records_for_epoch_plus_2", {"A_RecOff": 2}),
    ("aggregator_verifies_with_set_of_epoch_minus_2", {"A_RetBack": 2}),
    ("aggregator_next_signers_from_epoch_plus_1", {"A_NextOff": 1}),
    ("aggregator_serves_next_signers_as_current", {"A_ServeBack": 0}),
    ("aggregator_message_next_key_from_epoch_plus_1", {"A_MsgAvkOff": 1}),
]
PROPERTY_CLAUSES = {"PublishedAccepted": "a", "PublishedValid": "a", "ChainValid": "b", "KeyInForce": "b", "SignersSigned": "b",
                    "NoEarlySign": "c", "NoStall": "d", "RoundsBounded": "d", "temporal": "d"}


def write_cfg(path, overrides=None, spec="Spec", invariants=None, properties=("SignersSigned",), extra_constants=None):
    c = dict(BASE)
    c.update(overrides or {})
    c.update(extra_constants or {})
    out = "CONSTANTS\n" + "".join(f"    {k} = {v}\n" for k, v in c.items())
    out += f"SPECIFICATION {spec}\n"
    inv = INVARIANTS if invariants is None else invariants
    if inv:
        out += "INVARIANTS " + " ".join(inv) + "\n"
    if properties:
        out += "PROPERTIES " + " ".join(properties) + "\n"
    out += "CHECK_DEADLOCK FALSE\n"
    with open(path, "w") as f:
        f.write(out)


# the configurations kept in spec/system (regenerated from the table above by `python3 -m checks.sys --write-cfgs`)
def cfg_table():
    t = {
        # exhaustive, quick: 2 signers, 4 epochs, a restart of any node + a parameter change
        "MC_Protocol_quick.cfg": dict(overrides={"MaxOffline": 0, "MaxLost": 0}),
        # exhaustive, quick: every kind of fault once, 3 epochs
        "MC_Protocol_quick_faults.cfg": dict(overrides={"MaxEpoch": 3, "MaxRestarts": 0, "MaxFlips": 0}),
        # exhaustive, quick: immutable files advance (a newer beacon of the same type replaces the open one)
        "MC_Protocol_quick_imm.cfg": dict(overrides={"MaxEpoch": 3, "MaxImm": 2, "MaxRestarts": 0, "MaxOffline": 0, "MaxFlips": 0, "MaxLost": 0}),
        # bounded progress counted in undisturbed round-robin rounds
        "MC_Protocol_rounds.cfg": dict(overrides={"RoundRobin": "TRUE", "RoundsBound": 5, "MaxOffline": 0, "MaxLost": 0}),
        # bounded progress as liveness under fairness
        "MC_Protocol_live.cfg": dict(overrides={"MaxEpoch": 3, "MaxOffline": 0, "MaxLost": 0}, spec="FairSpec",
                                     invariants=["TypeOK"], properties=("Progress",)),
        # thorough
        "MC_Protocol_thorough.cfg": dict(overrides={}),
        "MC_Protocol_thorough3.cfg": dict(overrides={"N": 3, "Core": "{1, 2}", "Quorum": 2, "MaxOffline": 0, "MaxLost": 0}),
        "MC_Protocol_thorough5.cfg": dict(overrides={"MaxEpoch": 5, "MaxOffline": 0, "MaxLost": 0}),
        "MC_Protocol_thorough_imm.cfg": dict(overrides={"MaxImm": 2, "MaxOffline": 0, "MaxLost": 0}),
        # generator
        "MC_ProtocolGen.cfg": dict(overrides={"N": 3, "MaxEpoch": 6, "MaxImm": 3, "MaxRestarts": 4, "MaxOffline": 2, "MaxFlips": 3,
                                              "MaxLost": 2}, spec="SpecH", extra_constants={"GenDepth": 110},
                                   invariants=[i for i in INVARIANTS if i != "RoundsBounded"] + ["GenPrint"], properties=()),
    }
    for name, flip in WITNESSES:
        t[f"MC_Protocol_witness_{name}.cfg"] = dict(overrides=flip)
    return t


def write_cfgs():
    for name, kw in cfg_table().items():
        write_cfg(os.path.join(vlib.SPEC, SPEC_DIR, name), **kw)


# ----------------------------------------------------------------------------------------------------------------
# GEN: behaviours -> schedules
# ----------------------------------------------------------------------------------------------------------------
def convert(steps):
    out = []
    for s in steps:
        a = s["a"]
        if a == "Tick":
            out.append({"a": "Tick", "node": s["node"], "fault": s["fault"]})
        elif a == "Restart":
            out.append({"a": "Restart", "node": s["node"], "flip": bool(s["flip"])})
        elif a in ("Offline", "Online"):
            out.append({"a": a, "node": s["node"]})
        elif a in ("EpochUp", "ImmUp"):
            out.append({"a": a})
        else:
            raise ValueError(f"unknown model action {a}")
    return out


def features(b):
    """what a behaviour exercises (used to pick a diverse subset)"""
    f = set()
    steps = b["steps"]
    seen_epoch = {}          # node -> index of its first tick after the last epoch change
    since_epoch = None
    offline_at = {}
    epoch = 1
    for i, s in enumerate(steps):
        a = s["a"]
        if a == "EpochUp":
            epoch += 1
            since_epoch = i
            seen_epoch = {}
        elif a == "Tick":
            if s["fault"] != "none":
                f.add("lost:" + s["fault"])
            if since_epoch is not None and s["node"] not in seen_epoch:
                seen_epoch[s["node"]] = i
                if len(seen_epoch) == 1:
                    f.add("first_to_observe:" + ("aggregator" if s["node"] == 0 else "signer"))
        elif a == "Restart":
            f.add("restart:" + ("aggregator" if s["node"] == 0 else "signer"))
            if s["flip"]:
                f.add("params_change")
        elif a == "Offline":
            offline_at[s["node"]] = epoch
        elif a == "Online":
            if s["node"] in offline_at and epoch > offline_at[s["node"]]:
                f.add("offline_for_an_epoch")
        elif a == "ImmUp":
            f.add("imm_up")
    gens = dict((r, g) for r, g in b["expect"]["gens"])
    for en in b["expect"]["certs"]:
        e = en[1]
        if en[0] != "GEN" and gens.get(e - 1) == 2:
            f.add("certified_under_changed_params")
        if en[0] != "GEN" and gens.get(e) and gens.get(e - 1) and gens[e] != gens[e - 1]:
            f.add("message_commits_to_changed_params")
    return f


def select(behaviours, n):
    order = sorted(range(len(behaviours)), key=lambda i: (-len(features(behaviours[i])), -len(behaviours[i]["expect"]["certs"]), i))
    chosen, seen = [], {}
    for i in order:
        fs = features(behaviours[i])
        if any(seen.get(f, 0) < max(3, n // 6) for f in fs) or len(chosen) < n // 3:
            chosen.append(i)
            for f in fs:
                seen[f] = seen.get(f, 0) + 1
        if len(chosen) >= n:
            break
    if len(chosen) < n:
        taken = set(chosen)
        chosen += [i for i in order if i not in taken][: n - len(chosen)]
    counts = {}
    for i in chosen:
        for f in features(behaviours[i]):
            counts[f] = counts.get(f, 0) + 1
    return [behaviours[i] for i in chosen], counts


def entity_name(en):
    if en[0] in ("MSD", "GEN"):
        return f"MSD:{en[1]}"
    return "CDB:{epoch:%d,immutable_file_number:%d}" % (en[1], en[2])


STATE = {"init": "Init", "unreg": "Unregistered", "ready": "ReadyToSign", "nosign": "RegisteredNotAbleToSign"}


def expectation(exp):
    """the model's final abstract state in the vocabulary of the harness projection"""
    return {
        "epoch": exp["epoch"], "imm": exp["imm"],
        "certs": sorted(entity_name(e) for e in exp["certs"]),
        "inits": [sorted(x) for x in exp["inits"]],
        "gens": sorted([r, g] for r, g in exp["gens"]),
    }


def projection(obs):
    return {
        "epoch": obs["agg"]["epoch"], "imm": obs["agg"]["imm"],
        "certs": sorted(c["entity"] for c in obs["agg"]["certs"]),
        "inits": [sorted(i["epoch"] for i in s["inits"]) for s in obs["signers"]],
        "gens": sorted([p["epoch"], p["gen"]] for p in obs["agg_params"]),
    }


# ----------------------------------------------------------------------------------------------------------------
# RUN
# ----------------------------------------------------------------------------------------------------------------
def start_harness(args):
    """sys_loop logs heavily on stdout (the repository's test logger): stdout is discarded, the summary comes on stderr"""
    cmd = [vlib.harness_bin("sys_loop")] + [str(a) for a in args]
    env = dict(os.environ)
    env["RUST_BACKTRACE"] = "0"
    return subprocess.Popen(cmd, env=env, stdout=subprocess.DEVNULL, stderr=subprocess.PIPE, text=True)


def finish_harness(p, timeout):
    try:
        _, err = p.communicate(timeout=timeout)
    except subprocess.TimeoutExpired:
        p.kill()
        raise vlib.ToolError("sys_loop timed out")
    if p.returncode != 0:
        print(err[-3000:])
        raise vlib.ToolError(f"sys_loop exited {p.returncode}")
    summary = {}
    for line in err.splitlines():
        if line.startswith("{"):
            try:
                summary = json.loads(line)
            except Exception:
                pass
    return summary


def analyse(c, name, trace_path, expectations, agg):
    recs = vlib.read_ndjson(trace_path)
    obs = [r for r in recs if r["ev"] == "Obs"]
    final, sched = {}, None
    lag = {"signer_waits_for_aggregator": 0, "aggregator_enters_epoch_after_a_signer": 0, "signer_enters_epoch_after_aggregator": 0}
    prev = None
    for r in recs:
        if r["ev"] == "Start":
            sched = r["schedule"]
            prev = r["obs"]
        elif r["ev"] == "Obs":
            o = r["obs"]
            if not r.get("epilogue") and not r.get("pace"):
                final[sched] = o
            a = r["action"]
            if a["a"] == "Tick" and prev is not None:
                chain = o["agg"]["epoch"]
                if a["node"] == 0 and prev["agg_epoch"] < chain <= o["agg_epoch"] and any(
                        s["up"] and s["state_epoch"] == chain for s in prev["signers"]):
                    lag["aggregator_enters_epoch_after_a_signer"] += 1
                if a["node"] > 0:
                    me, was = o["signers"][a["node"] - 1], prev["signers"][a["node"] - 1]
                    if was["up"] and me["up"] and was["state_epoch"] < chain == me["state_epoch"] and prev["agg_epoch"] == chain:
                        lag["signer_enters_epoch_after_aggregator"] += 1
                    if (was["up"] and me["up"] and me["state"] == "Unregistered" and was["state"] == "Unregistered"
                            and me["state_epoch"] == chain and o["agg_epoch"] < chain):
                        lag["signer_waits_for_aggregator"] += 1
            prev = o
    pubs = [x for r in obs for x in r["obs"]["new_pubs"]]
    regs = [x for r in obs for x in r["obs"]["new_regs"]]
    progress = [r for r in recs if r["ev"] == "Progress"]
    by_status = {}
    for x in pubs:
        by_status[str(x["status"])] = by_status.get(str(x["status"]), 0) + 1
    st = c.cov["stages"]["RUN:" + name]
    st.update({
        "observations": len(obs),
        "signatures_posted_by_answer": dict(sorted(by_status.items())),
        "signatures_not_acceptable": sum(1 for x in pubs if not (x["valid"] and x["msg_ok"])),
        "signatures_answer_lost": sum(1 for x in pubs if x["answered"] != x["status"]),
        "registrations_accepted": sum(1 for x in regs if x["status"] == 201),
        "registrations_refused": sum(1 for x in regs if x["status"] != 201),
        "registrations_answer_lost": sum(1 for x in regs if x["answered"] != x["status"]),
        "certificates": sum(len(o["agg"]["certs"]) for o in final.values()),
        "certificates_under_second_parameter_generation": sum(
            1 for o in final.values() for x in o["certx"] if x["pgen"] == 2),
        "progress_events": len(progress), "progress_ok": sum(1 for r in progress if r["certified"] and r["registered"]),
        "max_rounds_needed": max([r["rounds"] for r in progress] or [0]),
        "observation_lag": lag,
    })
    for k, v in lag.items():
        agg["lag"][k] = agg["lag"].get(k, 0) + v
    agg["pubs"] += len(pubs)
    agg["certs"] += st["certificates"]
    agg["gen2_certs"] += st["certificates_under_second_parameter_generation"]
    agg["offline_obs"] += sum(1 for r in obs if any(not s["up"] for s in r["obs"]["signers"]))
    agg["restarts"] += sum(1 for r in obs if r["action"]["a"] == "Restart")
    drift = 0
    if expectations is not None:
        for sid, exp in expectations.items():
            real = final.get(sid)
            if real is None:
                continue
            want, got = expectation(exp), projection(real)
            if want != got:
                drift += 1
                c.drift.append({"schedule": sid, "diff": {k: {"model": want[k], "real": got[k]} for k in want if want[k] != got[k]}})
        st["model_predictions_compared"] = len(expectations)
        st["model_predictions_matched"] = len(expectations) - drift
    sample = next((r for r in reversed(obs) if r["obs"]["new_pubs"]), None)
    if sample:
        o = sample["obs"]
        c.sample({"action": sample["action"], "chain_epoch": o["agg"]["epoch"], "aggregator": o["agg"]["state"], "agg_epoch": o["agg_epoch"],
                  "signers": [[s["state"], s["state_epoch"]] for s in o["signers"]], "new_pubs": o["new_pubs"][-1:],
                  "certs": [x["entity"] for x in o["agg"]["certs"]][-4:]})
    distinct = {json.dumps([r["action"], r["obs"]["agg"]["state"], r["obs"]["agg_epoch"] - r["obs"]["agg"]["epoch"],
                            [[s["state"], s["state_epoch"] - r["obs"]["agg"]["epoch"]] for s in r["obs"]["signers"]],
                            len(r["obs"]["agg"]["certs"]), [x["status"] for x in r["obs"]["new_pubs"]]], sort_keys=True) for r in obs}
    return len(recs), distinct


def known_path_for(c):
    """standalone (property SYS): the listed findings of both composed properties apply"""
    if c.prop != PROP:
        return None
    path = os.path.join(vlib.WORK, "known_SYS.ndjson")
    with open(path, "w") as f:
        f.write(json.dumps({"id": "_none_", "match": {"ev": "_none_"}}) + "\n")
        for p in ("C20", "C14"):
            for rec in vlib.known_findings(p):
                f.write(json.dumps({"id": rec["id"], "match": rec["match"]}) + "\n")
    return path


# ----------------------------------------------------------------------------------------------------------------
def stage(c, tier, seed):
    th = tier == "thorough"
    pre = "" if c.prop == PROP else "SYS:"
    c.assumptions += [
        "SYS: one process holds the real aggregator runtime (the repository's RuntimeTester) with its REAL warp routes, built "
        "from the same dependency builder as the runtime, and three real signer runtimes (the wiring of the repository's "
        "StateMachineTester) with real AggregatorHttpClients over loopback HTTP; an axum front door with a stable address "
        "passes every request through unchanged, records it with the answer, and can lose one answer on the way back",
        "SYS: one fake chain observer / immutable observer / digester shared by all nodes; one stimulus at a time, every node "
        "is ticked separately (which node observes an epoch first is part of the schedule); an epoch turns only once its work is "
        "done (Mithril stake distribution certified, core signer registered for the next epoch): fault-free round-robin "
        "cycles are granted for that before the chain turns, a bounded number of them",
        "SYS: the genesis is produced by the harness (fixture keys recorded for epochs 0 and 1, the matching initializers and "
        "stake distributions seeded into the signers' stores, the genesis certificate); every registration, signature and "
        "certificate after it comes from the code under test; the protocol parameters change by restarting the aggregator "
        "with another configuration (two really different generations)",
        "SYS: acceptability of a published signature is judged by a real mithril-common SignerBuilder / MultiSigner over the "
        "registrations accepted at the front door (protocol offsets as literals in the harness), the stake distribution in "
        "force when they were made and the parameters in the aggregator's epoch_setting table",
    ]
    c.cov["trusted_base"] = sorted(set(c.cov.get("trusted_base", [])) | {
        "TLC", "axum-test / reqwest loopback HTTP, warp::service", "mithril-aggregator tests/test_extensions RuntimeTester (included by path)",
        "the harness' copy of the signer wiring (harness/vh-signer/src/signerkit.rs)", "mithril-common SignerBuilder/MultiSigner (C01, C06)"})
    # ---- MC  (the cfg files in spec/system are generated from cfg_table(): python3 checks/sys.py --write-cfgs)
    # (read from -coverage: an observation of the epoch by a signer before / after the aggregator and vice versa, restarts of
    #  either kind of node with the same and with other protocol parameters, a signer coming back in a later epoch)
    c.mc(SPEC_DIR, "MC_Protocol", "MC_Protocol_quick.cfg", name=pre + "MC_Protocol_quick.cfg", workers=8, timeout=900,
         vacuity=["ATickSeal", "ATickOpen", "ATickInitEpoch", "ATickEpochChangedFirst", "ATickEpochChangedAfterSigner",
                  "STickEpochChangedFirst", "STickEpochChangedAfterAgg", "STickWaitAgg", "STickRegister", "STickSign",
                  "AggRestartSameParameters", "AggRestartOtherParameters", "SignerRestart", "EpochUp"])
    c.mc(SPEC_DIR, "MC_Protocol", "MC_Protocol_quick_faults.cfg", name=pre + "MC_Protocol_quick_faults.cfg", workers=8, timeout=900,
         vacuity=["GoOffline", "ComeBackSameEpoch", "ComeBackLaterEpoch", "STickRegister", "STickSign", "ATickSeal",
                  "STickNoSignWait"])
    c.mc(SPEC_DIR, "MC_Protocol", "MC_Protocol_quick_imm.cfg", name=pre + "MC_Protocol_quick_imm.cfg", workers=8, timeout=900,
         vacuity=["ImmUp", "ATickLeaveOutdated", "ATickSeal"])
    c.mc(SPEC_DIR, "MC_Protocol", "MC_Protocol_rounds.cfg", name=pre + "MC_Protocol_rounds.cfg", workers=8, timeout=900, coverage=False)
    c.mc(SPEC_DIR, "MC_Protocol", "MC_Protocol_live.cfg", name=pre + "MC_Protocol_live.cfg", workers=8, timeout=900, coverage=False)
    if th:
        for cfg in ("MC_Protocol_thorough.cfg", "MC_Protocol_thorough3.cfg", "MC_Protocol_thorough5.cfg", "MC_Protocol_thorough_imm.cfg"):
            c.mc(SPEC_DIR, "MC_Protocol", cfg, name=pre + cfg, workers=12, timeout=3000, heap="16g", coverage=False)
    for key, st in c.cov["stages"].items():
        if key.startswith("MC:" + pre + "MC_Protocol") and st.get("model_counterexample"):
            raise vlib.ToolError(f"{key}: the composed model has a counterexample to {st['model_counterexample']} with the code's offsets")
    # ---- model-level mutation test: each single flipped offset must violate (a), (b) or (d)
    witnesses = {}
    for name, flip in WITNESSES:
        cfg = f"MC_Protocol_witness_{name}.cfg"
        res = vlib.tlc(SPEC_DIR, "MC_Protocol", cfg, workers=8, timeout=600, coverage=False, metaname=f"{c.prop}_witness")
        if res.error:
            print(res.out[-2000:])
            raise vlib.ToolError(f"witness {cfg}: {res.error}")
        clause = PROPERTY_CLAUSES.get(res.violated or "")
        witnesses[name] = {"flipped": flip, "violated": res.violated, "clause": clause, "states": res.distinct, "wall_s": round(res.wall, 1)}
        if clause not in ("a", "b", "d"):
            raise vlib.ToolError(f"witness {cfg}: flipping {flip} must violate clause (a), (b) or (d) of the composed model, got {res.violated}")
    c.cov["stages"]["MC:" + pre + "witnesses(must be violated)"] = witnesses
    # ---- GEN
    nsim = 400 if not th else 4000
    g = c.mc(SPEC_DIR, "MC_ProtocolGen", "MC_ProtocolGen.cfg", name=pre + "SIM+GEN", workers=1, timeout=1500,      # (one worker: reproducible from the seed)
             coverage=False, simulate=nsim, depth=130, seed=seed)
    if g.violated:
        raise vlib.ToolError(f"simulation found a model counterexample to {g.violated}")
    behaviours = vlib.printed_json(g, "SCHED")
    uniq, seen = [], set()
    for b in behaviours:
        k = json.dumps(b["steps"])
        if k not in seen:
            seen.add(k)
            uniq.append(b)
    behaviours = uniq
    if len(behaviours) < 100:
        raise vlib.ToolError("GEN produced too few behaviours")
    chosen, feats = select(behaviours, 36 if not th else 400)
    c.cov["stages"]["MC:" + pre + "SIM+GEN"].update({"behaviours": len(behaviours), "behaviours_replayed": len(chosen),
                                                      "features_in_replayed": dict(sorted(feats.items()))})
    for need in ["first_to_observe:aggregator", "first_to_observe:signer", "restart:aggregator", "restart:signer", "params_change",
                 "offline_for_an_epoch", "lost:reg_lost", "lost:pub_lost", "certified_under_changed_params",
                 "message_commits_to_changed_params", "imm_up"]:
        if feats.get(need, 0) == 0:
            raise vlib.ToolError(f"GEN: vacuity -- no replayed behaviour with {need}")
    # ---- RUN: the TLC schedules in parallel chunks, and the seeded driver
    c.build("vh-system", ["sys_loop"])
    nproc = 6
    jobs = []
    per = (len(chosen) + nproc - 1) // nproc
    for ci in range(nproc):
        part = list(range(ci * per, min(len(chosen), (ci + 1) * per)))
        if not part:
            continue
        path = os.path.join(c.work, f"sys_schedules.{ci}.ndjson")
        with open(path, "w") as f:
            for i in part:
                f.write(json.dumps({"id": i, "steps": convert(chosen[i]["steps"])}) + "\n")
        jobs.append((f"sys_tlc_schedules.{ci}", ["--schedules", path], {i: chosen[i]["expect"] for i in part}))
    nseeded = 2 if not th else 12
    for si in range(nseeded):
        jobs.append((f"sys_seeded_driver.{si}", ["--seed", int(seed) + 7919 * si, "--runs", 4 if not th else 12, "--len", 120], None))
    running = []
    t0 = time.time()
    for name, args, exp in jobs:
        t = os.path.join(c.work, f"{name}.trace.ndjson")
        running.append((name, t, exp, start_harness(["--out", t, "--work", os.path.join(c.work, "w_" + name)] + args), time.time()))
        while sum(1 for r in running if r[3].poll() is None) >= 8:
            time.sleep(0.5)
    agg = {"lag": {}, "pubs": 0, "certs": 0, "gen2_certs": 0, "offline_obs": 0, "restarts": 0}
    total_events, distinct, lost = 0, set(), {}
    for name, t, exp, p, started in running:
        summary = finish_harness(p, 3000)
        summary["wall_s"] = round(time.time() - started, 1)
        c.cov["stages"]["RUN:" + name] = {"summary": summary}
        for k, v in summary.get("totals", {}).items():
            if k.startswith("lost "):
                lost[k[5:]] = lost.get(k[5:], 0) + v
        n, d = analyse(c, name, t, exp, agg)
        total_events += n
        distinct |= d
    c.cov["stages"]["RUN:" + pre + "all"] = {"wall_s": round(time.time() - t0, 1), "processes": len(running)}
    # ---- VAL
    kp = known_path_for(c)
    for name, t, exp, p, started in running:
        kw = {"known_path": kp} if kp else {}
        r = c.validate(SPEC_DIR, "ProtocolTrace", "ProtocolTrace.cfg", t, name=name, timeout=3000, heap="8g", **kw)
        if th and r["accepted"]:
            os.remove(t)
    c.cov[pre + "exploration"] = {"signatures_posted": agg["pubs"], "certificates": agg["certs"],
                                  "certificates_under_second_parameter_generation": agg["gen2_certs"],
                                  "observations_with_a_signer_offline": agg["offline_obs"], "restarts": agg["restarts"],
                                  "answers_lost": lost, "observation_lag": agg["lag"]}
    vacuous = []
    if agg["gen2_certs"] == 0:
        vacuous.append("no certificate under changed protocol parameters")
    if agg["offline_obs"] == 0:
        vacuous.append("no signer was ever offline")
    for k in ("signer_waits_for_aggregator", "aggregator_enters_epoch_after_a_signer", "signer_enters_epoch_after_aggregator"):
        if agg["lag"].get(k, 0) == 0:
            vacuous.append(f"observation lag never exercised: {k}")
    for k in ("reg_lost", "pub_lost"):
        if lost.get(k, 0) == 0:
            vacuous.append(f"no answer lost: {k}")
    if vacuous:
        # (what a RUN of the code under test exercised: a change that empties a counter is a rejected trace first)
        c.defer("SYS vacuity -- " + "; ".join(vacuous))
    if c.prop == PROP:
        c.cov["evaluations"] = total_events
        c.cov["distinct_nontrivial"] = len(distinct)
        c.cov["rule"] = ("one observation per stimulus of the composed system; distinct = distinct (action, aggregator state, "
                         "aggregator epoch - chain epoch, per signer (state, state epoch - chain epoch), #certificates, answers to the "
                         "signatures posted in the step)")
    else:
        c.cov[pre + "evaluations"] = total_events
        c.cov[pre + "distinct_nontrivial"] = len(distinct)
    return c


def run(tier, seed):
    c = Check(PROP, tier, seed, "model_checking")
    stage(c, tier, seed)
    return c.finish()


def is_sys_trace(path):
    """a trace of harness/vh-system (its Start event names the core signers)"""
    try:
        with open(path) as f:
            first = json.loads(f.readline())
        return first.get("ev") == "Start" and "core" in first and "signers" in first.get("obs", {})
    except Exception:
        return False


def replay_stage(c, path):
    kp = known_path_for(c)
    c.validate(SPEC_DIR, "ProtocolTrace", "ProtocolTrace.cfg", os.path.abspath(path), timeout=3000, heap="8g",
               **({"known_path": kp} if kp else {}))


def replay(path, seed):
    c = Check(PROP, "quick", seed, "model_checking", replay=True)
    replay_stage(c, path)
    return c.finish()


if __name__ == "__main__":
    import sys
    if "--write-cfgs" in sys.argv:
        write_cfgs()
        print("written:", ", ".join(sorted(cfg_table())))
