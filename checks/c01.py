"""C01 -- multi-signature soundness (spec/stm: Stm.tla, MC_StmVerify, MC_StmGen, StmTrace)."""
import os
import random

import vlib
from checks.common import Check

PROP = "C01"


def run(tier, seed):
    c = Check(PROP, tier, seed, "model_checking")
    c.assumptions = [
        "BLS unforgeability; the random-coefficient aggregate check passes iff every member signature is valid",
        "hash injectivity (a Merkle batch path proves exactly the committed leaves; the path algorithm is C09's subject)",
        "lottery outcome of a claimed (signature, index, stake) is taken from the public single-signature verifier "
        "run with an unbounded m (the lottery itself is C08's subject)",
        "SNARK / IVC aggregate variants (feature future_snark, off by default) are not modelled",
    ]
    c.cov["trusted_base"] = ["TLC", "SingleSignature::verify as lottery oracle", "serde_json"]
    # MC: every abstract aggregate over the small universe
    c.mc("stm", "MC_StmVerify", "MC_StmVerify_quick.cfg" if tier == "quick" else "MC_StmVerify_thorough.cfg",
         workers=12, timeout=3400, heap="12g")
    # batch verification: a batch is accepted only if each member would be accepted alone
    c.mc("stm", "MC_StmVerify", "MC_StmVerify_batch.cfg", name="batch", workers=12, timeout=3400, heap="12g")
    # GEN: boundary cases with the model's predicted verdict
    g = c.mc("stm", "MC_StmGen", "MC_StmGen.cfg", name="GEN", workers=1, timeout=1200, coverage=False)
    cases = vlib.printed_json(g, "CASE")
    if len(cases) < 1000:
        raise vlib.ToolError("GEN produced too few cases")
    rnd = random.Random(seed)
    acc = [x for x in cases if x["impl"]]
    rest = [x for x in cases if not x["impl"]]
    n_rest = 350 if tier == "quick" else 4000
    sel = acc + rnd.sample(rest, min(n_rest, len(rest)))
    cases_path = os.path.join(c.work, "cases.ndjson")
    vlib.write_ndjson(cases_path, sel)
    c.cov["stages"]["MC:GEN"]["cases_total"] = len(cases)
    c.cov["stages"]["MC:GEN"]["cases_selected"] = len(sel)
    c.cov["stages"]["MC:GEN"]["cases_predicted_accept"] = len(acc)
    c.build("vh-common", ["c01_stm"])
    # spec -> impl
    t1 = os.path.join(c.work, "cases.trace.ndjson")
    s1 = c.run_harness("c01_stm", ["--mode", "cases", "--cases", cases_path, "--out", t1, "--seed", seed],
                       timeout=7000)
    recs = vlib.read_ndjson(t1)
    mism = [r for r in recs if r["accepted"] != r["predicted"]]
    for r in mism[:10]:
        c.drift.append({"case": r["mut"], "predicted": r["predicted"], "real": r["accepted"],
                        "entries": r["entries"]})
    c.cov["stages"]["RUN:c01_stm"]["prediction_mismatches"] = len(mism)
    c.sample(recs[0])
    c.sample([r for r in recs if r["accepted"] is True][0])
    c.validate("stm", "StmTrace", "StmTrace.cfg", t1, name="cases")
    # impl -> spec: mutation classes and stacks over several real worlds
    t2 = os.path.join(c.work, "verify.trace.ndjson")
    s2 = c.run_harness("c01_stm", ["--mode", "verify", "--out", t2, "--seed", seed,
                                    "--worlds", 24 if tier == "quick" else 200,
                                    "--stacks", 20 if tier == "quick" else 60], timeout=7000)
    c.cov["stages"]["RUN:verify"] = s2
    recs2 = vlib.read_ndjson(t2)
    c.sample([r for r in recs2 if r["mut"] == "index_eq_m"][:1])
    c.validate("stm", "StmTrace", "StmTrace.cfg", t2, name="mutations")
    c.cov["evaluations"] = len(recs) + len(recs2)
    c.cov["distinct_nontrivial"] = len({repr((r["entries"], r["m"], r["k"])) for r in recs + recs2})
    c.cov["rule"] = ("Verify/BatchVerify calls of the real verifier on TLC-generated boundary aggregates and on "
                     "JSON-level mutations of honest aggregates (4 wire routes); distinct = distinct abstract projections")
    return c.finish()


def replay(path, seed):
    c = Check(PROP, "quick", seed, "model_checking", replay=True)
    c.validate("stm", "StmTrace", "StmTrace.cfg", os.path.abspath(path))
    return c.finish()
