"""C04 -- certificates are tamper-evident and survive the wire unchanged
(spec/cert: CertHash.tla, MC_CertHash, CertHashTrace).

MC   HashInput transcribed from try_compute_hash and the nested compute_hash / feed_hash functions:
     every single-field change over the value grammars changes the hash input; protocol-message
     digest injective over the honest value grammar; message round trip preserves hash and signed
     message.
GEN  every (shape, field, value) state is realised as two real Certificates; every protocol
     message of the grammar as a real ProtocolMessage.
VAL  changed field => different real hash; round trip through CertificateMessage and re-serialised
     JSON text preserves hash, signed message and the real verifier's verdict.
"""
import os

import vlib
from checks.common import Check

PROP = "C04"
KNOWN_PREFIX = "C04-entity-type-not-hashed"


def _cfg(c, name, entity_known, invariants=None):
    text = open(os.path.join(vlib.SPEC, "cert", name)).read()
    if not entity_known:
        text = text.replace("EntityDiscriminantHashed = FALSE", "EntityDiscriminantHashed = TRUE")
    tag = name[:-4]
    if invariants is not None:
        lines = [l for l in text.splitlines() if not l.startswith("INVARIANTS")]
        lines.insert(len(lines) - 1, "INVARIANTS " + " ".join(invariants))
        text = "\n".join(lines) + "\n"
        tag += "_" + "_".join(invariants)
    path = os.path.join(c.work, tag + ".cfg")
    with open(path, "w") as f:
        f.write(text)
    return path


def _sorted_json(res, tag):
    import json
    out = vlib.printed_json(res, tag)
    out.sort(key=lambda x: json.dumps(x, sort_keys=True))
    return out


def run(tier, seed):
    c = Check(PROP, tier, seed, "model_checking")
    quick = tier == "quick"
    entity_known = any(k["id"].startswith(KNOWN_PREFIX) for k in vlib.known_findings(PROP))
    c.assumptions = [
        "SHA-256 is injective on its input (a hash is its input); what is fed is a flat symbol sequence: strings "
        "character by character, fixed-size items atomically",
        "the field-coverage question is enumerated (every field x small value grammar); universality over the VALUE "
        "space (every u64, every string, every timestamp) is sampled by the seeded random driver",
        "timestamps representable as 64-bit nanoseconds; protocol parameters compared at fixed-point precision (U8F24)",
        "ancillary prover / verifier data: modelled, but not realisable in this build (their types have no variant "
        "without feature future_snark), so only their absence is exercised on real code",
        "JSON re-serialisations: field order (sorted, reversed, shuffled), whitespace, exponent spelling of the "
        "floating-point number; integers are left as written (a re-serialiser that turns 5 into 5.0 changes the value type)",
    ]
    c.cov["trusted_base"] = ["TLC", "serde_json as the JSON parser under test's carrier", "harness field comparison (changed_fields)",
                             "MithrilCertificateVerifier::verify_certificate as verdict oracle (C03's subject)"]
    # ---------------------------------------------------------------- MC + GEN
    g = c.mc("cert", "MC_CertHash", _cfg(c, "MC_CertHash_quick.cfg", entity_known), name="fields",
             workers=6, timeout=1500, coverage=False)
    cases = _sorted_json(g, "CASE")
    if len(cases) < 5000:
        raise vlib.ToolError("GEN (fields) produced too few cases")
    if entity_known:
        w = vlib.tlc("cert", "MC_CertHash", _cfg(c, "MC_CertHash_quick.cfg", entity_known, invariants=["NoEntityConfusion"]),
                     workers=6, timeout=900, coverage=False, metaname="C04_wit")
        if w.error:
            raise vlib.ToolError(f"witness: {w.error}")
        c.cov["stages"]["MC:witness:NoEntityConfusion"] = {"reaches_known_deviation": w.violated == "NoEntityConfusion",
                                                            "wall_s": round(w.wall, 1)}
        if w.violated != "NoEntityConfusion":
            c.cov.setdefault("stale_known_findings_in_model", []).append(KNOWN_PREFIX)
    gm = c.mc("cert", "MC_CertHash", _cfg(c, "MC_CertHash_msg_quick.cfg" if quick else "MC_CertHash_msg_thorough.cfg", entity_known),
              name="messages", workers=8, timeout=3000, coverage=False, heap="8g")
    msgs = _sorted_json(gm, "MSG")
    if len(msgs) < 500:
        raise vlib.ToolError("GEN (messages) produced too few messages")
    # sensitivity of the model: with values outside the honest grammar the digest is NOT injective
    ws = vlib.tlc("cert", "MC_CertHash", _cfg(c, "MC_CertHash_msg_witness.cfg", entity_known), workers=4, timeout=900,
                  coverage=False, metaname="C04_wit_msg")
    if ws.error:
        raise vlib.ToolError(f"witness (messages): {ws.error}")
    c.cov["stages"]["MC:witness:key-like-values"] = {"concatenation_ambiguity_found": ws.violated == "MsgInjectiveInv",
                                                     "wall_s": round(ws.wall, 1)}
    if ws.violated != "MsgInjectiveInv":
        raise vlib.ToolError("vacuity: the message model does not find the concatenation ambiguity outside the honest grammar")
    st = c.cov["stages"]["MC:fields"]
    st.update({"cases_total": len(cases),
               "cases_changed": len([x for x in cases if x["differs"]]),
               "cases_model_same_hash_input": len([x for x in cases if x["differs"] and not x["hashDiffers"]]),
               "fields": sorted({x["f"] for x in cases})})
    c.cov["stages"]["MC:messages"]["messages"] = len(msgs)
    p_cases = os.path.join(c.work, "fields.cases.ndjson")
    p_msgs = os.path.join(c.work, "msgs.cases.ndjson")
    vlib.write_ndjson(p_cases, cases)
    vlib.write_ndjson(p_msgs, msgs)
    # ---------------------------------------------------------------- RUN + VAL
    c.build("vh-common", ["c04_hash"])
    t1 = os.path.join(c.work, "fields.trace.ndjson")
    s1 = c.run_harness("c04_hash", ["--mode", "cases", "--cases", p_cases, "--out", t1, "--seed", seed,
                                    "--roundtrip-every", 2 if quick else 1, "--verdict-every", 4 if quick else 1], timeout=7000)
    recs = vlib.read_ndjson(t1)
    fc = [r for r in recs if r["ev"] == "FieldChange"]
    mism = [r for r in fc if r["predicted_differs"] in (True, False) and r["predicted_differs"] != r["hash_differs"]]
    for r in mism[:10]:
        c.drift.append({"field": r["field"], "changed": r["changed"], "predicted_differs": r["predicted_differs"],
                        "real_differs": r["hash_differs"], "from_kind": r["from_kind"], "to_kind": r["to_kind"]})
    c.cov["stages"]["RUN:fields"] = c.cov["stages"].pop("RUN:c04_hash")
    c.cov["stages"]["RUN:fields"]["prediction_mismatches"] = len(mism)
    c.sample([r for r in fc if r["changed"] == ["sealed_at"]][:1])
    c.sample([r for r in fc if not r["hash_differs"] and r["changed"]][:1])
    c.sample([r for r in recs if r["ev"] == "RoundTrip" and r["variant"] == "all"][:1])
    c.validate("cert", "CertHashTrace", "CertHashTrace.cfg", t1, name="fields")

    t2 = os.path.join(c.work, "msgs.trace.ndjson")
    s2 = c.run_harness("c04_hash", ["--mode", "msgs", "--cases", p_msgs, "--out", t2, "--seed", seed,
                                    "--pairs", 2000 if quick else 50000], timeout=7000)
    c.cov["stages"]["RUN:msgs"] = c.cov["stages"].pop("RUN:c04_hash")
    recs2 = vlib.read_ndjson(t2)
    c.sample([r for r in recs2 if r["ev"] == "MsgDigestSet"][:1])
    c.validate("cert", "CertHashTrace", "CertHashTrace.cfg", t2, name="messages")

    t3 = os.path.join(c.work, "random.trace.ndjson")
    s3 = c.run_harness("c04_hash", ["--mode", "random", "--n", 3000 if quick else 100000, "--out", t3, "--seed", seed], timeout=7000)
    c.cov["stages"]["RUN:random"] = c.cov["stages"].pop("RUN:c04_hash")
    recs3 = vlib.read_ndjson(t3)
    c.validate("cert", "CertHashTrace", "CertHashTrace.cfg", t3, name="random")

    # ---------------------------------------------------------------- vacuity / coverage
    allr = recs + recs2 + recs3
    single = [r for r in allr if r["ev"] == "FieldChange" and len(r["changed"]) == 1]
    by_field = {}
    for r in single:
        by_field[r["changed"][0]] = by_field.get(r["changed"][0], 0) + 1
    need = {"previous_hash", "epoch", "network", "protocol_version", "protocol_parameters", "initiated_at", "sealed_at",
            "signers", "protocol_message", "signed_message", "aggregate_verification_key", "signature", "signed_entity_type"}
    missing = need - set(by_field)
    if missing:
        c.defer(f"vacuity: no single-field change realised for {sorted(missing)}")
    rts = [r for r in allr if r["ev"] == "RoundTrip"]
    ok_verdicts = len([r for r in rts if r["verdict_before"] == "ok"])
    if ok_verdicts == 0:
        c.defer("vacuity: no round trip of a certificate the real verifier accepts")
    c.cov["single_field_changes_by_field"] = by_field
    c.cov["single_field_changes_same_hash"] = len([r for r in single if not r["hash_differs"]])
    c.cov["sub_precision_parameter_changes"] = len([r for r in allr if r["ev"] == "FieldChange" and r["field"] in ("params", "protocol_parameters") and not r["changed"]])
    c.cov["round_trips"] = len(rts)
    c.cov["round_trips_by_variant"] = {v: len([r for r in rts if r["variant"] == v]) for v in sorted({r["variant"] for r in rts})}
    c.cov["round_trips_with_verdict"] = len([r for r in rts if r["verdict_before"] != "-"])
    c.cov["round_trips_of_accepted_certificates"] = ok_verdicts
    c.cov["distinct_verdicts"] = len({r["verdict_before"] for r in rts})
    c.cov["unrealisable_cases_skipped"] = s1.get("skipped_unrealisable", 0)
    c.cov["evaluations"] = len(allr)
    c.cov["distinct_nontrivial"] = len(single) + len(rts)
    c.cov["rule"] = ("FieldChange events whose two real certificates differ in exactly one field, plus round trips; "
                     "TLC-enumerated (shape, field, value) states and seeded random values")
    return c.finish()


def replay(path, seed):
    c = Check(PROP, "quick", seed, "model_checking", replay=True)
    c.validate("cert", "CertHashTrace", "CertHashTrace.cfg", os.path.abspath(path))
    return c.finish()
