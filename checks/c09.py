"""C09 -- Merkle membership proofs (spec/merkle: MerkleBatch.tla, MC_MerkleBatch, MerkleTrace)."""
import os

import vlib
from checks.common import Check

PROP = "C09"


def run(tier, seed):
    c = Check(PROP, tier, seed, "model_checking")
    c.assumptions = [
        "hashes are injective term constructors; a leaf's byte string is never the single byte 0 nor a 64-byte "
        "concatenation of two hashes (true for the 104-byte registration leaves)",
        "the mountain-range tree (ckb_merkle_mountain_range, third party) behind MKTree/MKProof and the nested "
        "MKMapProof are NOT modelled in TLA+: they are exercised by serde-level mutation and judged by the "
        "same contract (accepted against the commitment => only committed leaves vouched)",
    ]
    c.cov["trusted_base"] = ["TLC", "Blake2b-256 term evaluation in the harness"]
    th = tier == "thorough"
    for mode in ("complete", "sound"):
        cfg = f"MC_MerkleBatch_{mode}{'_thorough' if th and mode == 'sound' else ''}.cfg"
        c.mc("merkle", "MC_MerkleBatch", cfg, workers=12, timeout=3400, heap="12g")
    g = c.mc("merkle", "MC_MerkleBatch", "MC_MerkleBatch_gen.cfg", name="GEN", workers=2, timeout=1200,
             coverage=False)
    cases = vlib.printed_json(g, "CASE")
    if len(cases) < 1000:
        raise vlib.ToolError("GEN produced too few cases")
    cp = os.path.join(c.work, "cases.ndjson")
    vlib.write_ndjson(cp, cases)
    c.cov["stages"]["MC:GEN"]["cases"] = len(cases)
    c.cov["stages"]["MC:GEN"]["cases_predicted_accept"] = sum(1 for x in cases if x["impl"])
    c.build("vh-common", ["c09_merkle"])
    total = 0
    distinct = set()
    for mode, extra in (("stm", ["--cases", cp, "--big", 60 if not th else 600]),
                        ("mk", ["--maxn", 7 if not th else 10]),
                        ("mkmap", ["--rounds", 12 if not th else 80])):
        t = os.path.join(c.work, f"{mode}.trace.ndjson")
        s = c.run_harness("c09_merkle", ["--mode", mode, "--out", t, "--seed", seed] + extra, timeout=7000)
        c.cov["stages"]["RUN:" + mode] = s
        if s.get("prediction_mismatch", 0) or s.get("root_mismatch", 0):
            c.drift.append({"mode": mode, "prediction_mismatch": s.get("prediction_mismatch", 0),
                            "root_mismatch": s.get("root_mismatch", 0)})
        recs = vlib.read_ndjson(t)
        total += len(recs)
        for r in recs:
            distinct.add(repr({k: v for k, v in r.items() if k != "seq"}))
        acc = [r for r in recs if r["ev"] != "HonestProof" and r["accepted"] is True]
        c.sample(acc[:1] + [r for r in recs if r["ev"] != "HonestProof" and r["accepted"] is False][:1])
        c.validate("merkle", "MerkleTrace", "MerkleTrace.cfg", t, name=mode)
    c.cov["evaluations"] = total
    c.cov["distinct_nontrivial"] = len(distinct)
    c.cov["rule"] = "proof verifications on real code: TLC-generated term proofs (stm) and serde mutations (mk, mkmap); distinct events"
    return c.finish()


def replay(path, seed):
    c = Check(PROP, "quick", seed, "model_checking", replay=True)
    c.validate("merkle", "MerkleTrace", "MerkleTrace.cfg", os.path.abspath(path))
    return c.finish()
