"""Shared shape of a check: stages, violation reporting, evidence."""
import json
import os
import time

import vlib
from vlib import log


class Check:
    def __init__(self, prop, tier, seed, level, replay=False):
        self.prop, self.tier, self.seed, self.level = prop, tier, seed, level
        self.is_replay = replay      # a replay re-validates a stored trace: it does not rewrite the evidence
        self.t0 = time.time()
        self.cov = {"states": 0, "transitions": 0, "traces_validated_against_impl": 0,
                    "samples": [], "stages": {}, "trusted_base": []}
        self.assumptions = []
        self.violations = []      # (replay_path, description)
        self.deferred = []
        self.known_used = []
        self.drift = []
        self.work = vlib.workdir(prop + ("_replay" if replay else ""))

    # ---- MC ---------------------------------------------------------------------------
    def mc(self, spec_dir, module, cfg, name=None, vacuity=None, **kw):
        name = name or cfg
        log(f"[{self.prop}] MC {spec_dir}/{module} ({cfg})")
        res = vlib.tlc(spec_dir, module, cfg, metaname=f"{self.prop}_{module}", **kw)
        st = {"generated": res.generated, "distinct": res.distinct, "depth": res.depth,
              "wall_s": round(res.wall, 1), "cfg": cfg}
        if res.action_counts:
            st["actions"] = {k: v[1] for k, v in sorted(res.action_counts.items())}
        self.cov["stages"]["MC:" + name] = st
        self.cov["states"] += res.distinct
        self.cov["transitions"] += res.generated
        if res.error:
            print(res.out[-3000:])
            raise vlib.ToolError(f"MC {module}/{cfg}: {res.error}")
        if res.violated:
            # DESIGN 3.6: a counterexample of the implementation-shaped spec alone is not a
            # violation of the code. Every MC invariant already excuses the listed known
            # deviations, so reaching this point means the *model* has an unlisted counterexample:
            # the conformance stages below decide whether the code has it too.
            st["model_counterexample"] = res.violated
            log(f"[{self.prop}] MC counterexample to {res.violated} in the model "
                f"(to be confirmed or refuted on the real code by GEN/VAL)")
            tail = res.out[res.out.find("Error:"):][:3000]
            st["counterexample_text"] = tail
        if vacuity:
            for a in vacuity:
                if res.action_counts.get(a, (0, 0))[1] == 0:
                    raise vlib.ToolError(f"MC {module}: vacuity -- action {a} never taken")
        log(f"[{self.prop}]   {res.generated} states generated, {res.distinct} distinct, "
            f"depth {res.depth}, {res.wall:.1f}s")
        return res

    # ---- BUILD / RUN ------------------------------------------------------------------
    def build(self, package, bins):
        log(f"[{self.prop}] BUILD {package} {bins}")
        w = vlib.cargo_build(package, bins)
        self.cov["stages"]["BUILD:" + package] = {"wall_s": round(w, 1)}

    def run_harness(self, name, args, **kw):
        log(f"[{self.prop}] RUN {name} {' '.join(str(a) for a in args)}")
        t = time.time()
        out = vlib.run_harness(name, args, **kw)
        summary = None
        for line in out.splitlines():
            line = line.strip()
            if line.startswith("{"):
                try:
                    summary = json.loads(line)
                except Exception:
                    pass
        self.cov["stages"]["RUN:" + name] = {"wall_s": round(time.time() - t, 1),
                                              "summary": summary}
        return summary or {}

    # ---- VAL --------------------------------------------------------------------------
    def validate(self, spec_dir, module, cfg, trace_path, name=None, **kw):
        name = name or os.path.basename(trace_path)
        log(f"[{self.prop}] VAL {trace_path} against {spec_dir}/{module}")
        r = vlib.validate_trace(spec_dir, module, cfg, trace_path, self.prop, **kw)
        self.cov["stages"]["VAL:" + name] = {
            "events_total": r["total"], "events_matched": r["matched"],
            "accepted": r["accepted"], "tlc_states": r["states"], "wall_s": round(r["wall"], 1),
            "known_used": r["known_used"]}
        self.cov["traces_validated_against_impl"] += 1
        for k in r["known_used"]:
            if k not in self.known_used:
                self.known_used.append(k)
        for d in vlib.printed_json(_Res(r["tlc_out"]), "DRIFT"):
            self.drift.append(d)
        if not r["accepted"]:
            rp = vlib.save_replay(self.prop, name, src_path=trace_path)
            fu = r["first_unmatched"]
            what = r.get("invariant_violated") or "unexplained event"
            self.violations.append((rp, f"{what}: {json.dumps(fu)[:600]}"))
        log(f"[{self.prop}]   matched {r['matched']}/{r['total']} events, accepted={r['accepted']}, "
            f"{r['wall']:.1f}s")
        return r

    def sample(self, s):
        if len(self.cov["samples"]) < 8:
            self.cov["samples"].append(s)

    # ---- finish -------------------------------------------------------------------------
    def defer(self, msg):
        """A vacuity guard on what a RUN of the code under test exercised: reported as a tool error at the end,
        and only if nothing was rejected -- a change to the code that empties a counter is a rejected trace first."""
        log(f"[{self.prop}] (deferred) {msg}")
        self.deferred.append(msg)

    def finish(self):
        if self.deferred and not self.violations:
            raise vlib.ToolError("; ".join(self.deferred))
        vlib.report_known(self.prop, self.known_used)
        # a listed known finding that no stage needed is reported as stale (informational)
        stale = [k["id"] for k in vlib.known_findings(self.prop) if k["id"] not in self.known_used]
        if stale:
            self.cov["known_findings_not_exercised"] = stale
        self.cov["known_findings_used"] = self.known_used
        if self.drift:
            self.cov["spec_drift"] = self.drift[:20]
            for d in self.drift[:5]:
                log(f"SPEC-DRIFT property={self.prop} {json.dumps(d)[:300]}")
        if not self.cov["samples"]:
            self.cov["samples"].append("see stages")
        wall = time.time() - self.t0
        if not self.is_replay:
            vlib.write_evidence(self.prop, self.tier, self.seed, self.level, self.cov,
                                self.assumptions, wall, len(self.violations))
        if self.violations:
            for rp, what in self.violations:
                log(f"VIOLATION property={self.prop} replay={rp}")
                log(f"  {what}")
            return 1
        return 0


class _Res:
    """adapter so vlib.printed_json can scan raw TLC output"""
    def __init__(self, out):
        self.printed = [l for l in out.splitlines()
                        if l.startswith("<<") or l.startswith('"')]
