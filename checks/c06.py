"""C06 -- same aggregate key from the same registrations (spec/keyreg)."""
import os

import vlib
from checks.common import Check

PROP = "C06"


def run(tier, seed):
    c = Check(PROP, tier, seed, "model_checking")
    c.assumptions = [
        "the Merkle root is an injective function of the ordered leaf sequence (C09)",
        "paths bound: mithril-stm KeyRegistration, mithril-common SignerBuilder, client-style message/JSON round trip "
        "(the aggregator epoch service, the signer's single_signer and mithril-client's MessageBuilder all call "
        "SignerBuilder::new; they are exercised through C14/C20 harnesses when those run)",
    ]
    c.cov["trusted_base"] = ["TLC", "KES-certified MithrilFixture signers"]
    c.mc("keyreg", "MC_KeyReg", "MC_KeyReg_quick.cfg", workers=8, timeout=1200, vacuity=["Register", "Close"])
    g = c.mc("keyreg", "MC_KeyReg", "MC_KeyReg_gen.cfg", name="GEN", workers=2, timeout=1200, coverage=False)
    cases = vlib.printed_json(g, "CASE")
    if len(cases) < 100:
        raise vlib.ToolError("GEN produced too few cases")
    if tier == "quick":
        cases = cases[::2]
    cp = os.path.join(c.work, "cases.ndjson")
    vlib.write_ndjson(cp, cases)
    c.build("vh-common", ["c06_avk"])
    t = os.path.join(c.work, "avk.trace.ndjson")
    c.run_harness("c06_avk", ["--cases", cp, "--out", t, "--seed", seed,
                              "--random", 40 if tier == "quick" else 400], timeout=7000)
    recs = vlib.read_ndjson(t)
    # drift: slots / totals predicted by the model vs the stm path
    pred = {r["set"]: r for r in recs if r["ev"] == "Predicted"}
    for r in recs:
        if r["ev"] == "Avk" and r["path"] == "stm" and r["set"] in pred and pred[r["set"]]["slots"] != r["slots"]:
            c.drift.append({"set": r["set"], "predicted_slots": pred[r["set"]]["slots"], "real_slots": r["slots"]})
    avk = [r for r in recs if r["ev"] == "Avk"]
    c.sample(avk[:2])
    c.cov["evaluations"] = len(avk)
    c.cov["distinct_nontrivial"] = len({r["set"] for r in avk})
    c.cov["rule"] = "AVK computations; distinct = distinct registration sets (each computed over >= 3 paths / orders)"
    c.cov["stages"]["RUN:c06_avk"]["errors"] = sum(1 for r in recs if r["ev"] in ("AvkError", "Panic"))
    c.validate("keyreg", "KeyRegTrace", "KeyRegTrace.cfg", t)
    return c.finish()


def replay(path, seed):
    c = Check(PROP, "quick", seed, "model_checking", replay=True)
    c.validate("keyreg", "KeyRegTrace", "KeyRegTrace.cfg", os.path.abspath(path))
    return c.finish()
