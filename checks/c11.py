"""C11 -- certified transaction, block and stake sets are reported exactly as signed
(spec/proofs: Proofs.tla, MC_ProofsEnc, MC_Proofs, MC_ProofsStake, ProofsTrace)."""
import collections
import json
import os

import vlib
from checks.common import Check

PROP = "C11"
OPS_REQUIRED = ["item_th", "item_bh", "item_bn", "item_slot", "item_move", "item_slash", "item_add_foreign",
                "item_add_unproven", "proof_same_F", "proof_other_W", "proof_flat_W", "sub_detach", "sub_foreign",
                "sub_rekey", "sub_leaf_claim", "sub_swap", "sub_add_foreign", "master_foreign", "root_relabel", "lbn", "off",
                "parts_clear", "part_add_F", "parts_swap_proofs", "leaf_truncate"]


def _must_violate(c, spec, cfg, name, inv, what):
    """a configuration without the excuse of a listed known finding must show the finding (else the excuse is stale)"""
    r = c.mc("proofs", spec, cfg, name=name, workers=6, timeout=900, coverage=False)
    c.cov["stages"]["MC:" + name]["needed"] = (r.violated == inv)
    if r.violated != inv:
        raise vlib.ToolError(f"{spec}/{cfg}: the model no longer shows {what}")
    return r


def _json_key(x):
    return json.dumps(x, sort_keys=True)


def run(tier, seed):
    c = Check(PROP, tier, seed, "model_checking")
    th = tier == "thorough"
    c.assumptions = [
        "blake2s / sha256 are collision free: a node hash determines the byte string hashed (NOT the way that string was "
        "split into left and right operand -- leaves are raw byte strings, that is finding C11-raw-leaf-boundary)",
        "a Merkle (mountain range) proof object verifies only for leaves of the tree its root stands for, up to the "
        "modelled leaf-boundary moves (the proof algorithm itself is C09's subject); MC abstracts a proof to [root, leaves], "
        "the harness realises each abstract proof as ONE real proof object (forged through serde when the model says invalid)",
        "what signers commit are chains whose block / transaction hashes are hex strings (ScannedBlock hex-encodes them): "
        "leaf-encoding injectivity is checked committed-vs-served, served strings are arbitrary (no validation exists)",
        "the certificate the client holds has been verified (chain, multi-signature, signed_message = hash of its "
        "protocol_message): C03 / C04",
        "transaction/block responses of the random stage come from the real MithrilProverService / "
        "LegacyMithrilProverService over a real sqlite repository; the forged material (second chain, detached / foreign "
        "sub-proofs) from in-memory trees built with the same calls and cross-checked against the real prover's output",
        "non_certified_* lists of a response are not judged (the property speaks about what is reported as certified)",
    ]
    c.cov["trusted_base"] = ["TLC", "serde_json", "harness ground truth (field-by-field membership of reported items in "
                             "the chain it generated)"]

    # ---- MC layer 1: leaf encodings ---------------------------------------------------------------------------
    enc = c.mc("proofs", "MC_ProofsEnc", "MC_ProofsEnc_quick.cfg", name="encodings", workers=12, timeout=1200, coverage=False)
    if enc.violated:
        raise vlib.ToolError(f"leaf encodings: {enc.violated} violated in the model (committed-vs-served / message preimage)")
    collisions = vlib.printed_json(enc, "COLLISION")
    collisions.sort(key=_json_key)
    c.cov["stages"]["MC:encodings"]["stake_leaf_collisions_printed"] = len(collisions)
    if len(collisions) < 100:
        raise vlib.ToolError("vacuity: the stake leaf encoding shows too few colliding pairs")
    _must_violate(c, "MC_ProofsEnc", "MC_ProofsEnc_unexcused.cfg", "encodings-known-finding", "InjStake",
                  "the known finding C11-stake-leaf-concatenation")
    r = _must_violate(c, "MC_ProofsEnc", "MC_ProofsEnc_served.cfg", "encodings-served-vs-served", "InjServed",
                      "the '/' collision between two SERVED items")
    c.cov["stages"]["MC:encodings-served-vs-served"]["note"] = (
        "informational: with arbitrary served strings '/' moves characters between the fields of a Tx/Block leaf "
        "(e.g. th='' bh='/' vs th='/' bh=''), but never onto a leaf with hex hashes: InjCommitted holds")
    # ---- MC layers 2-4: responses --------------------------------------------------------------------------------
    acts = ["AlterItem", "AlterProof", "AlterMessage", "MoveLeafBoundary"]
    c.mc("proofs", "MC_Proofs", "MC_Proofs_thorough.cfg" if th else "MC_Proofs_quick.cfg", name="responses",
         workers=12, timeout=3300, heap="12g", vacuity=acts)
    if th:
        # all 1560 chain shapes (<= 6 blocks, <= 2 transactions per block) with every single alteration; three
        # alterations deep on the smallest chains
        c.mc("proofs", "MC_Proofs", "MC_Proofs_thorough_all1.cfg", name="responses-all-shapes", workers=12, timeout=3300,
             heap="12g", coverage=False)
        c.mc("proofs", "MC_Proofs", "MC_Proofs_thorough_deep.cfg", name="responses-depth3", workers=12, timeout=3300,
             heap="12g", coverage=False)
    for st in ("responses", "responses-all-shapes", "responses-depth3"):
        if c.cov["stages"].get("MC:" + st, {}).get("model_counterexample"):
            raise vlib.ToolError(f"MC_Proofs ({st}): unlisted counterexample in the model (see evidence); the model "
                                 "must first be understood")
    _must_violate(c, "MC_Proofs", "MC_Proofs_unexcused.cfg", "responses-known-finding", "ContractInv",
                  "the known finding C11-raw-leaf-boundary-proof")
    _must_violate(c, "MC_Proofs", "MC_Proofs_vacuity.cfg", "responses-vacuity", "NeverAcceptedAltered",
                  "an altered response that is accepted (benign alterations must exist)")
    # ---- MC stake distributions ------------------------------------------------------------------------------------
    c.mc("proofs", "MC_ProofsStake", "MC_ProofsStake_quick.cfg", name="stake", workers=12, timeout=1800, vacuity=["Edit"])
    if c.cov["stages"]["MC:stake"].get("model_counterexample"):
        raise vlib.ToolError("MC_ProofsStake: unlisted counterexample in the model")
    _must_violate(c, "MC_ProofsStake", "MC_ProofsStake_unexcused.cfg", "stake-known-finding", "ContractInv",
                  "the known finding C11-stake-leaf-concatenation")
    _must_violate(c, "MC_ProofsStake", "MC_ProofsStake_unexcused_raw.cfg", "stake-known-finding-raw", "ContractInv",
                  "the known finding C11-raw-leaf-boundary-stake")
    if th:
        # the hypothetical fixes (separator in the stake leaf, leaves hashed before merging) close the models
        for spec, cfg in (("MC_ProofsEnc", "MC_ProofsEnc_fixed.cfg"), ("MC_Proofs", "MC_Proofs_fixed.cfg"),
                          ("MC_ProofsStake", "MC_ProofsStake_fixed.cfg")):
            r = c.mc("proofs", spec, cfg, name="fixed:" + spec, workers=12, timeout=3300, heap="12g", coverage=False)
            if r.violated:
                raise vlib.ToolError(f"{spec}/{cfg}: the model with the hypothetical fixes has a counterexample")

    # ---- GEN ---------------------------------------------------------------------------------------------------------
    g = c.mc("proofs", "MC_Proofs", "MC_Proofs_gen.cfg", name="GEN-responses", workers=4, timeout=1800, coverage=False)
    cases = vlib.printed_json(g, "CASE")
    cases.sort(key=_json_key)
    g2 = c.mc("proofs", "MC_ProofsStake", "MC_ProofsStake_gen.cfg", name="GEN-stake", workers=4, timeout=1800, coverage=False)
    sd_cases = vlib.printed_json(g2, "SDCASE")
    sd_cases.sort(key=_json_key)
    if len(cases) < 10000 or len(sd_cases) < 10000:
        raise vlib.ToolError("GEN produced too few cases")
    # every generated case is realised (the whole pipeline takes seconds); the tiers differ in the MC constants and
    # in the number of random rounds
    cases_sel, sd_sel = cases, sd_cases
    p_cases, p_sd, p_coll = (os.path.join(c.work, n) for n in ("tx_cases.ndjson", "sd_cases.ndjson", "collisions.ndjson"))
    vlib.write_ndjson(p_cases, cases_sel)
    vlib.write_ndjson(p_sd, sd_sel)
    vlib.write_ndjson(p_coll, collisions)
    opc = collections.Counter(o for x in cases_sel for o in x["ops"])
    c.cov["stages"]["MC:GEN-responses"].update({
        "cases_total": len(cases), "cases_selected": len(cases_sel),
        "predicted_accept": sum(1 for x in cases_sel if x["impl"]),
        "predicted_verified_not_matched": sum(1 for x in cases_sel if x["verify"] and not x["impl"]),
        "by_format": dict(collections.Counter(x["fmt"] for x in cases_sel)), "by_alteration": dict(opc)})
    c.cov["stages"]["MC:GEN-stake"].update({
        "cases_total": len(sd_cases), "cases_selected": len(sd_sel), "predicted_accept": sum(1 for x in sd_sel if x["impl"]),
        "by_edit": dict(collections.Counter(o for x in sd_sel for o in x["ops"]))})
    missing = [o for o in OPS_REQUIRED if opc.get(o, 0) == 0]
    if missing:
        raise vlib.ToolError(f"vacuity: GEN has no case with alteration(s) {missing}")

    # ---- BUILD / RUN ------------------------------------------------------------------------------------------------
    c.build("vh-aggregator", ["c11_prover"])
    c.build("vh-common", ["c11_proofs"])
    c.build("vh-client", ["c11_client"])
    honest = os.path.join(c.work, "honest.ndjson")
    s0 = c.run_harness("c11_prover", ["--rounds", 6 if not th else 60, "--seed", seed, "--work", os.path.join(c.work, "db"),
                                      "--out", honest], timeout=3000)
    traces = []
    summaries = {}
    for name, args in (("cases", ["--tx-cases", p_cases, "--sd-cases", p_sd, "--collisions", p_coll]),
                       ("random", ["--honest-from", honest, "--sd-rounds", 40 if not th else 400])):
        resp = os.path.join(c.work, f"{name}.responses.ndjson")
        t = os.path.join(c.work, f"{name}.trace.ndjson")
        sp = c.run_harness("c11_proofs", args + ["--seed", seed, "--out", resp], timeout=3000)
        c.cov["stages"]["RUN:c11_proofs:" + name] = c.cov["stages"].pop("RUN:c11_proofs")
        sc = c.run_harness("c11_client", ["--in", resp, "--out", t], timeout=3000)
        c.cov["stages"]["RUN:c11_client:" + name] = c.cov["stages"].pop("RUN:c11_client")
        os.remove(resp)
        summaries[name] = (sp, sc)
        traces.append((name, t))
    os.remove(honest)

    # ---- conformance of the realisers (spec drift, never a violation) ------------------------------------------------
    sp_c, sc_c = summaries["cases"]
    sp_r, sc_r = summaries["random"]
    for k in ("realiser_ne_prover", "tlc_unencodable"):
        if sp_c.get(k, 0):
            c.drift.append({"stage": "cases", k: sp_c[k]})
    for k in ("inmem_prover_ne_real_prover", "signed_ne_real_builder"):
        if sp_r.get(k, 0):
            c.drift.append({"stage": "random", k: sp_r[k]})
    if sp_r.get("inmem_prover_eq_real_prover", 0) == 0 or s0.get("honest_messages", 0) == 0:
        c.defer("vacuity: no honest response of the real prover was cross-checked")

    # ---- VAL -------------------------------------------------------------------------------------------------------
    total = 0
    distinct = set()
    for name, t in traces:
        recs = vlib.read_ndjson(t)
        total += len(recs)
        for r in recs:
            if r["ev"] == "ProofCheck":
                if r["verified"]:
                    distinct.add(repr((r["fmt"], r["cert_kind"], r["ops"], [i["committed"] for i in r["items"]], r["lbn_ok"],
                                       r["off_ok"], r["matched"])))
            elif r["note"] == "":
                distinct.add(repr((r["ops"], r["tamper"], r["same"], r["epoch_ok"], r["accepted"], r["n_pools"])))
        mism = [r for r in recs if not r["pred_match"]]
        for r in mism[:8]:
            c.drift.append({"stage": name, "case": r["case"], "ops": r["ops"], "predicted": r["predicted"],
                            "accepted": r["accepted"], "note": r["note"]})
        c.cov["stages"]["RUN:c11_client:" + name]["prediction_mismatches"] = len(mism)
        pc = [r for r in recs if r["ev"] == "ProofCheck"]
        c.sample([r for r in pc if r["accepted"] and not r["ops"]][:1])
        c.sample([r for r in pc if r["verified"] and not r["matched"]][:1])
        c.sample([r for r in pc if r["accepted"] and r["uncommitted"] == "moved_leaf_boundary"][:1])
        c.sample([r for r in recs if r["ev"] == "StakeCheck" and r["accepted"] and not r["same"]][:2])
        c.validate("proofs", "ProofsTrace", "ProofsTrace.cfg", t, name=name)

    # ---- vacuity on what was really reached ---------------------------------------------------------------------------
    def need(cond, what):
        if not cond:
            c.defer("vacuity: " + what)
    for sc, where in ((sc_c, "cases"), (sc_r, "random")):
        for fmt in ("legacy", "tx", "blk"):
            need(sc.get(f"honest:{fmt}:accepted", 0) > 0, f"no honest {fmt} response accepted ({where})")
            need(sc.get(f"proof:{fmt}:verified_not_matched", 0) > 0, f"no {fmt} response verified but not matching ({where})")
        need(sc.get("honest:stake:accepted", 0) > 0, f"no honest stake distribution accepted ({where})")
        need(sc.get("altered_accepted", 0) > 0, f"no benign alteration accepted ({where})")
        need(sc.get("stake:rejected", 0) > 0, f"no edited stake distribution rejected ({where})")
    rops = {k.split(":", 1)[1]: v for k, v in sp_r.items() if k.startswith("random_mut:")}
    need(all(rops.get(o, 0) > 0 for o in OPS_REQUIRED + ["proof_hex_corrupt", "number_extreme"]),
         f"random stage misses alterations {[o for o in OPS_REQUIRED if rops.get(o, 0) == 0]}")
    need(sp_r.get("random_sd_mut:move_id_digit_to_stake", 0) + sp_r.get("random_sd_mut:move_stake_digit_to_id", 0) > 0,
         "no stake edit moved a digit between an identifier and the adjacent number")
    # do not leave big files behind (a rejected trace has been copied to replays/ by validate)
    for f in (p_cases, p_sd, p_coll):
        os.remove(f)
    if not c.violations:
        for _, t in traces:
            os.remove(t)
    c.cov["evaluations"] = total
    c.cov["distinct_nontrivial"] = len(distinct)
    c.cov["rule"] = ("client-side checks (wire decode -> verify -> MessageBuilder -> match_message) of real responses: "
                     "TLC-generated abstract responses realised as real messages, TLC-generated stake distributions and "
                     "colliding leaf pairs, wire-level alterations of the real prover's responses; non-trivial = the "
                     "response verified (proofs) / the message was computed (stake); distinct = distinct (format, "
                     "alterations, projection)")
    return c.finish()


def replay(path, seed):
    c = Check(PROP, "quick", seed, "model_checking", replay=True)
    c.validate("proofs", "ProofsTrace", "ProofsTrace.cfg", os.path.abspath(path))
    return c.finish()
