"""C18 -- pooled cache generations (spec/pool)."""
import json
import os
import re

import graphgen
import vlib
from checks.common import Check

PROP = "C18"


def gen_schedules(c, cfg, out_path, size, procs, max_len=60):
    """GEN: dump the full labelled state graph of Pool.tla and cover every edge with schedules."""
    dot = os.path.join(c.work, "pool_graph.dot")
    res = vlib.tlc("pool", "MC_Pool", cfg, workers=4, timeout=1200, coverage=False,
                   metaname="C18_gen", extra=["-dump", "dot,actionlabels", dot])
    if res.error or res.violated:
        print(res.out[-2000:])
        raise vlib.ToolError("GEN: graph dump failed")
    nodes, edges, init, nedges = graphgen.parse_dot(dot)
    paths, total = graphgen.edge_cover(edges, init, max_len=max_len)
    info = {}

    def node_info(n):
        if n not in info:
            lab = nodes[n]
            pc = graphgen.parse_fun(graphgen.field(lab, "pc"))
            disc = int(graphgen.field(lab, "disc"))
            resources = graphgen.field(lab, "resources")
            ln = len(re.findall(r"rid \|->", resources))
            p, a = graphgen.parse_last(graphgen.field(lab, "last"))
            info[n] = (pc, disc, ln, p, a)
        return info[n]

    actions = set()
    with open(out_path, "w") as f:
        for i, path in enumerate(paths):
            steps = []
            for n in path[1:]:
                pc, disc, ln, p, a = node_info(n)
                actions.add(a)
                steps.append({"p": p, "a": a, "pc": pc[p], "len": ln, "disc": disc})
            f.write(json.dumps({"id": i, "procs": procs, "size": size, "steps": steps}) + "\n")
    os.remove(dot)
    st = {"graph_states": len(nodes), "graph_edges": nedges, "edges_covered": total,
          "schedules": len(paths), "steps": sum(len(p) - 1 for p in paths),
          "actions": sorted(actions), "cfg": cfg}
    c.cov["stages"]["GEN:" + cfg] = st
    vlib.log(f"[{PROP}] GEN {cfg}: {len(nodes)} states, {nedges} edges -> {len(paths)} schedules, "
             f"{st['steps']} steps")
    return st


def run(tier, seed):
    c = Check(PROP, tier, seed, "model_checking")
    c.assumptions = [
        "one refresh at a time (compute_cache is not called concurrently with itself)",
        "reset_available_resources: in the model ONE critical section (as the code); interleavings INSIDE a reset only exist "
        "in the free-running runs, where the harness resource's reset() takes 250 us so that other threads get in the way "
        "if the pool lets them",
        "resources carry their true generation only in the harness (Res{rid,gen}); the real MKMap has none",
        "the schedule replay performs the refresh as the pool calls compute_cache makes; the real "
        "MithrilProverService (compute_cache vs compute_transactions_proofs) is exercised free-running (stress), "
        "which detects an interleaving defect only with high probability, not certainly",
    ]
    c.cov["trusted_base"] = ["TLC", "verif hook observer/scheduler in harness c18_pool", "OS threads"]
    # MC on the implementation-shaped spec
    mc_cfg = "MC_Pool_quick.cfg" if tier == "quick" else "MC_Pool_thorough.cfg"
    c.mc("pool", "MC_Pool", mc_cfg, workers=8, timeout=3000,
         vacuity=None)
    # liveness: a caller parked in acquire is eventually served or times out (weak fairness)
    c.mc("pool", "MC_Pool", "MC_Pool_live.cfg", name="liveness", workers=8, timeout=1200)
    # witness: a reset that takes the resources out of the pool and appends them back in a second critical section
    # (the design the property forbids) violates the invariants -- the model is sensitive to it
    w = vlib.tlc("pool", "MC_Pool", "MC_Pool_reset_witness.cfg", workers=4, timeout=600, coverage=False, metaname="C18_wit")
    c.cov["stages"]["MC:witness:non-atomic-reset"] = {"violated": w.violated, "distinct": w.distinct, "wall_s": round(w.wall, 1)}
    if not w.violated:
        raise vlib.ToolError("witness: the model with a non-atomic reset violates nothing")
    c.build("vh-common", ["c18_pool"])
    # GEN + replay
    gens = [("Pool_gen_1u.cfg", 1, ["u1", "rf", "rs"]), ("Pool_gen_1u_rs.cfg", 1, ["u1", "rf", "rs"])]
    if tier == "thorough":
        gens.append(("Pool_gen_2u.cfg", 2, ["u1", "u2", "rf", "rs"]))
    else:
        gens.append(("Pool_gen_2u_s1.cfg", 1, ["u1", "u2", "rf", "rs"]))
    for cfg, size, procs in gens:
        sched = os.path.join(c.work, cfg.replace(".cfg", ".schedules.ndjson"))
        gen_schedules(c, cfg, sched, size, procs)
        trace = os.path.join(c.work, cfg.replace(".cfg", ".trace.ndjson"))
        s = c.run_harness("c18_pool", ["--mode", "replay", "--schedules", sched, "--out", trace])
        c.cov["stages"]["RUN:replay:" + cfg] = s
        if s.get("drift", 0):
            for d in s.get("drift_samples", []):
                c.drift.append(d)
        c.validate("pool", "PoolTrace", "PoolTrace.cfg", trace, name="replay_" + cfg)
        recs = vlib.read_ndjson(trace)
        c.sample(recs[:12])
    # free-running stress
    trace = os.path.join(c.work, "stress.trace.ndjson")
    s = c.run_harness("c18_pool", ["--mode", "stress", "--out", trace, "--seed", seed,
                                    "--rounds", 60 if tier == "quick" else 600, "--ops", 80])
    c.validate("pool", "PoolTrace", "PoolTrace.cfg", trace, name="stress")
    # the real prover in the loop: MithrilProverService::compute_cache racing with proof requests on the
    # prover's own pool; the generation a proof used is recognised from its Merkle root
    c.build("vh-aggregator", ["c18_prover"])
    trace = os.path.join(c.work, "prover.trace.ndjson")
    s = c.run_harness("c18_prover", ["--out", trace, "--rounds", 80 if tier == "quick" else 800,
                                      "--users", 3, "--refreshes", 4, "--proofs", 30])
    c.validate("pool", "PoolTrace", "PoolTrace.cfg", trace, name="prover_stress")
    return c.finish()


def replay(path, seed):
    c = Check(PROP, "quick", seed, "model_checking", replay=True)
    c.validate("pool", "PoolTrace", "PoolTrace.cfg", os.path.abspath(path))
    return c.finish()
