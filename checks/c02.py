"""C02 -- aggregation completeness and monotonicity (spec/stm: Stm.tla clerk part, MC_StmClerk, StmTrace)."""
import os

import vlib
from checks.common import Check

PROP = "C02"


def run(tier, seed):
    c = Check(PROP, tier, seed, "model_checking")
    c.assumptions = [
        "same cryptographic abstraction as C01",
        "validity of an input signature is known by construction (built from an honest signer's signature)",
        "routes: mithril-stm Clerk (all tiers); mithril-common / aggregator MultiSigner wrap the same call",
    ]
    c.cov["trusted_base"] = ["TLC", "harness construction of valid / invalid inputs"]
    c.mc("stm", "MC_StmClerk", "MC_StmClerk_quick.cfg", workers=8, timeout=3400)
    c.mc("stm", "MC_StmClerk", "MC_StmClerk_quick2.cfg", workers=8, timeout=3400)
    if tier == "thorough":
        c.mc("stm", "MC_StmClerk", "MC_StmClerk_thorough.cfg", workers=8, timeout=3400, heap="12g")
    c.build("vh-common", ["c01_stm"])
    t = os.path.join(c.work, "clerk.trace.ndjson")
    s = c.run_harness("c01_stm", ["--mode", "clerk", "--out", t, "--seed", seed,
                                   "--worlds", 30 if tier == "quick" else 300,
                                   "--inputs", 40 if tier == "quick" else 80], timeout=7000)
    recs = vlib.read_ndjson(t)
    pairs = [r for r in recs if r["ev"] == "ClerkPair"]
    c.sample(pairs[0])
    c.sample([r for r in recs if r["ev"] == "SignerSig"][:1])
    c.cov["evaluations"] = len(recs)
    c.cov["distinct_nontrivial"] = len({repr(r["ext"]["input"]) for r in pairs if r["base"]["res"]["ok"]})
    c.cov["rule"] = ("clerk runs on (input, input + additional material) pairs; non-trivial = base aggregation "
                     "succeeded, distinct by extended input")
    c.validate("stm", "StmTrace", "StmTrace.cfg", t, name="clerk")
    return c.finish()


def replay(path, seed):
    c = Check(PROP, "quick", seed, "model_checking", replay=True)
    c.validate("stm", "StmTrace", "StmTrace.cfg", os.path.abspath(path))
    return c.finish()
