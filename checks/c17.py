"""C17 -- beacons to sign (spec/beacon)."""
import os
import re
import shutil
import subprocess
import time

import vlib
from checks.common import Check

PROP = "C17"


DEFS = ["SatSub", "Max", "Core", "TxAdjStep", "BlkAdjStep", "TxBeacon", "BlkBeacon"]


def _defs(path):
    text = open(path).read()
    out = {}
    for d in DEFS:
        m = re.search(r"^%s\(.*?\)\s*==.*$" % d, text, flags=re.M)
        out[d] = re.sub(r"\s+", " ", m.group(0)).strip() if m else None
    return out


def unbounded(c, tier):
    """The arithmetic clauses for ALL naturals, symbolically (Apalache, spec/beacon/BeaconUnbounded.tla: the same
    definitions as Beacon.tla, one arbitrary state). An undecided run (time-out, tool missing) is recorded, not an error;
    a refuted clause would be a counterexample to the MODEL and is reported as a tool error (the conformance stages decide
    about the code)."""
    spec = os.path.join(vlib.SPEC, "beacon")
    a, b = _defs(os.path.join(spec, "Beacon.tla")), _defs(os.path.join(spec, "BeaconUnbounded.tla"))
    if a != b or None in a.values():
        raise vlib.ToolError(f"BeaconUnbounded.tla no longer carries the definitions of Beacon.tla: {a} vs {b}")
    st = {}
    invs = [("RespectsMargin", 120), ("Monotone", 120)] + ([("WholeSteps", 900)] if tier == "thorough" else [])
    out = os.path.join(c.work, "apalache")
    for inv, tmo in invs:
        t0 = time.time()
        if not shutil.which("apalache-mc"):
            st[inv] = {"outcome": "not run (apalache-mc not found)"}
            continue
        try:
            p = subprocess.run(["apalache-mc", "check", "--cinit=ConstInit", f"--inv={inv}", "--length=0", f"--out-dir={out}",
                                "BeaconUnbounded.tla"], cwd=spec, capture_output=True, text=True, timeout=tmo)
            m = re.search(r"The outcome is: (\w+)", p.stdout)
            outcome = m.group(1) if m else "undecided"
        except subprocess.TimeoutExpired:
            outcome = "undecided (time-out)"
        st[inv] = {"outcome": outcome, "wall_s": round(time.time() - t0, 1)}
        vlib.log(f"[{PROP}] unbounded {inv}: {outcome} ({st[inv]['wall_s']}s)")
        if outcome == "Error":
            raise vlib.ToolError(f"Apalache refutes {inv} on BeaconUnbounded.tla (a counterexample to the model)")
    shutil.rmtree(out, ignore_errors=True)
    c.cov["stages"]["MC:unbounded (Apalache, all naturals)"] = st
    c.cov["unbounded_note"] = ("TxOnRangeBoundary is not decided by Apalache within 5 min (nonlinear divisor): bounded TLC box only")


def run(tier, seed):
    c = Check(PROP, tier, seed, "model_checking")
    c.assumptions = [
        "values above 2^31 cannot be represented by TLC: for u64-extreme inputs the relations are "
        "evaluated by the harness in u128 arithmetic and TLC checks the recorded verdicts only",
        "steps within 15 of u64::MAX are outside the explored domain (BlockRange end bound overflows)",
    ]
    c.cov["trusted_base"] = ["TLC", "harness u128 arithmetic for the Big events", "serde_json"]
    # MC: the implementation-shaped function on an exhaustive box
    cfg = "MC_Beacon_quick.cfg" if tier == "quick" else "MC_Beacon_thorough.cfg"
    c.mc("beacon", "MC_Beacon", cfg, workers=8, timeout=3000, vacuity=["Advance"])
    unbounded(c, tier)
    # BUILD + RUN the real code
    c.build("vh-common", ["c17_beacon"])
    trace = os.path.join(c.work, "c17.ndjson")
    s = c.run_harness("c17_beacon", ["--out", trace, "--tier", tier, "--seed", seed])
    c.cov["evaluations"] = s.get("events", 0)
    c.cov["distinct_nontrivial"] = s.get("tips", 0) + s.get("big", 0)
    c.cov["rule"] = ("every (kind, sec, step) of the box x every successive tip + seeded jumps (Tip events), "
                     "purity over 3 evaluation routes (Pure), u64 extremes (Big); distinct = distinct "
                     "(config, tip) pairs")
    recs = vlib.read_ndjson(trace)
    for i in (0, 1, 40, len(recs) // 2, len(recs) - 1):
        c.sample(recs[i])
    # VAL
    c.validate("beacon", "BeaconTrace", "BeaconTrace.cfg", trace)
    return c.finish()


def replay(path, seed):
    c = Check(PROP, "quick", seed, "model_checking", replay=True)
    c.validate("beacon", "BeaconTrace", "BeaconTrace.cfg", os.path.abspath(path))
    return c.finish()
