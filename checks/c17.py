"""C17 -- beacons to sign (spec/beacon)."""
import os

import vlib
from checks.common import Check

PROP = "C17"


def run(tier, seed):
    c = Check(PROP, tier, seed, "model_checking")
    c.assumptions = [
        "values above 2^31 cannot be represented by TLC: for u64-extreme inputs the relations are "
        "evaluated by the harness in u128 arithmetic and TLC checks the recorded verdicts only",
        "steps within 15 of u64::MAX are outside the explored domain (BlockRange end bound overflows)",
    ]
    c.cov["trusted_base"] = ["TLC", "harness u128 arithmetic for the Big events", "serde_json"]
    # MC: the implementation-shaped function on an exhaustive box
    cfg = "MC_Beacon_quick.cfg" if tier == "quick" else "MC_Beacon_thorough.cfg"
    c.mc("beacon", "MC_Beacon", cfg, workers=8, timeout=3000, vacuity=["Advance"])
    # BUILD + RUN the real code
    c.build("vh-common", ["c17_beacon"])
    trace = os.path.join(c.work, "c17.ndjson")
    s = c.run_harness("c17_beacon", ["--out", trace, "--tier", tier, "--seed", seed])
    c.cov["evaluations"] = s.get("events", 0)
    c.cov["distinct_nontrivial"] = s.get("tips", 0) + s.get("big", 0)
    c.cov["rule"] = ("every (kind, sec, step) of the box x every successive tip + seeded jumps (Tip events), "
                     "purity over 3 evaluation routes (Pure), u64 extremes (Big); distinct = distinct "
                     "(config, tip) pairs")
    recs = vlib.read_ndjson(trace)
    for i in (0, 1, 40, len(recs) // 2, len(recs) - 1):
        c.sample(recs[i])
    # VAL
    c.validate("beacon", "BeaconTrace", "BeaconTrace.cfg", trace)
    return c.finish()


def replay(path, seed):
    c = Check(PROP, "quick", seed, "model_checking", replay=True)
    c.validate("beacon", "BeaconTrace", "BeaconTrace.cfg", os.path.abspath(path))
    return c.finish()
