CONSTANTS
    L = 3
    InitLen = 4
    MaxLen = 8
    ExtSteps = {2}
    ForkPoints = {0, 1, 2, 3, 4, 5, 6, 7}
    MaxDepth = 100
    ForkGrow = {0, 1}
    Targets = {1, 2, 3, 4, 5, 6, 7, 8}
    MaxPoll = 2
    Keep <- NoPrune
    MaxForks = 2
    MaxRestarts = 1
    MaxFaults = 1
    MaxCrashes = 0
    MaxImports = 3
    MaxMidEnv = 0
    TxPeriod = 5
    TxOn = 2
    TxShift = 1
    Excuse = {"a", "b", "c", "d", "e"}
    RecordHist = FALSE
    Gate <- GateOpen
SPECIFICATION Spec
INVARIANTS TypeOK Converged RootDependsOnlyOnPrefix Completes
CHECK_DEADLOCK FALSE
