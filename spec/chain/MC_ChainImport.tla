--------------------------- MODULE MC_ChainImport ---------------------------
(* Model-checking / generation wrapper for ChainImport (C13). *)
EXTENDS ChainImport
NoPrune == -1          \* cfg files cannot spell negative numbers
GateOpen(k) == TRUE
(* simulation only: per-step probability (in percent) that an action of kind k may be taken *)
GateRandom(k) ==
    RandomElement(1..100) <= (CASE k = "mid" -> 3 [] k = "crash" -> 2 [] k = "fork" -> 30
                                [] k = "extend" -> 25 [] k = "restart" -> 12 [] k = "fault" -> 8
                                [] OTHER -> 100)
=============================================================================
