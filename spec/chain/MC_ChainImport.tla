--------------------------- MODULE MC_ChainImport ---------------------------
(* Model-checking / generation wrapper for ChainImport (C13). *)
EXTENDS ChainImport
NoPrune == -1          \* cfg files cannot spell negative numbers
UpTo(n) == 0..n
From1(n) == 1..n
=============================================================================
