--------------------------- MODULE ChainImportTrace ---------------------------
(***************************************************************************)
(* Contract trace spec for C13: accepts or rejects traces recorded from    *)
(* the real CardanoChainDataImporter + ChainReaderBlockStreamer + sqlite   *)
(* CardanoTransactionRepository + signable builders, driven through        *)
(* histories of roll-forwards, roll-backs, imports up to increasing        *)
(* targets, restarts, connection losses, process stops and pruning.        *)
(*                                                                         *)
(* It states the property only (nothing about how the importer works):     *)
(*                                                                         *)
(*  Converged   after a completed import the stored blocks, transactions   *)
(*              and block-range roots (new and legacy) are exactly those   *)
(*              of a fresh node that imported the same canonical chain     *)
(*              once from scratch up to the same target (blocks and        *)
(*              transactions: above what pruning was entitled to remove)   *)
(*  Completes   an import fails only if the environment failed it (the     *)
(*              connection to the node was lost / timed out, or the        *)
(*              process was stopped)                                       *)
(*  RootDependsOnlyOnPrefix   the Merkle root offered for signing at a     *)
(*              beacon equals the root a fresh node offers for that beacon *)
(*                                                                         *)
(* Events (all projections are recomputed by the harness from the real     *)
(* tables / the real builders' output, never copied from the script)       *)
(*  Begin   run keep max_poll                    a new node, empty store   *)
(*  Import  run t target ok env_fault crashed                              *)
(*          blocks txs roots lroots              projected tables          *)
(*          ref_blocks ref_txs ref_roots ref_lroots   the fresh node's     *)
(*          + history-shape flags used only by the known findings          *)
(*  Offer   run kind b root ref_root             kind = blocks | legacy    *)
(***************************************************************************)
EXTENDS Naturals, Sequences, FiniteSets, TLC, Json, IOUtils

Rec   == ndJsonDeserialize(IOEnv.TRACE)
Known == ndJsonDeserialize(IOEnv.KNOWN)

VARIABLE l
tvars == <<l>>
E == Rec[l]
IsEvent(name) == l <= Len(Rec) /\ Rec[l].ev = name /\ Rec[l].seq = l /\ l' = l + 1

TraceInit == l = 1

Set(s) == {s[i] : i \in DOMAIN s}

SameAsFresh(e) ==
    /\ Set(e.blocks) = Set(e.ref_blocks)
    /\ Set(e.txs)    = Set(e.ref_txs)
    /\ Set(e.roots)  = Set(e.ref_roots)
    /\ Set(e.lroots) = Set(e.ref_lroots)

TBegin == IsEvent("Begin")

TImport ==
    /\ IsEvent("Import")
    /\ E.ok => SameAsFresh(E)                          \* Converged
    /\ ~E.ok => (E.env_fault \/ E.crashed)             \* Completes

TOffer ==
    /\ IsEvent("Offer")
    /\ E.root = E.ref_root                             \* RootDependsOnlyOnPrefix

-----------------------------------------------------------------------------
(* Known findings (KNOWN_FINDINGS.jsonl, status "known"): an event whose fields equal the    *)
(* `match` record of a listed finding is consumed and the rest of the trace is still checked. *)
(* The match fields of C13 are history shapes computed by the harness (see checks/c13.py).    *)
MatchesKnown(e, k) == \A f \in DOMAIN k.match : f \in DOMAIN e /\ e[f] = k.match[f]
TKnown ==
    /\ l <= Len(Rec) /\ Rec[l].seq = l
    /\ \E i \in DOMAIN Known :
          /\ MatchesKnown(Rec[l], Known[i])
          /\ PrintT(<<"KNOWN-USED", ToJson([id |-> Known[i].id, seq |-> l])>>)
    /\ l' = l + 1

TraceNext == TBegin \/ TImport \/ TOffer \/ TKnown
TraceSpec == TraceInit /\ [][TraceNext]_tvars

TraceAccepted ==
    LET d == TLCGet("stats").diameter - 1 IN
    /\ PrintT(<<"TRACE-RESULT",
                ToJson([matched |-> d, total |-> Len(Rec),
                        first_unmatched |-> IF d < Len(Rec) THEN Rec[d + 1] ELSE [ev |-> "none"]])>>)
    /\ d = Len(Rec)
=============================================================================
