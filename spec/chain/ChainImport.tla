----------------------------- MODULE ChainImport -----------------------------
(***************************************************************************)
(* C13 -- imported chain data converges to the canonical chain under any   *)
(* roll-backs.                                                             *)
(*                                                                         *)
(* Implementation-shaped model of                                          *)
(*   mithril-cardano-node-chain  chain_importer/{service,                  *)
(*       blocks_and_transactions_importer, block_ranges_importer,          *)
(*       importer_with_pruner}.rs, chain_scanner/chain_reader_block_       *)
(*       streamer.rs, chain_reader/pallas_chain_reader.rs (agency, errors) *)
(*   mithril-persistence  cardano_transaction_repository.rs + the insert / *)
(*       delete queries and the table constraints of migration 10          *)
(*   mithril-common  signable_builder/cardano_{blocks_,}transactions.rs    *)
(*       (compute_merkle_map_from_block_range_roots)                       *)
(* against an environment that is a chain-sync faithful node.              *)
(*                                                                         *)
(* One action per reader call / persistence step of the code.  The         *)
(* property (Converged, RootDependsOnlyOnPrefix, Completes) is stated      *)
(* independently of the code at the end.                                   *)
(*                                                                         *)
(* Known findings (KNOWN_FINDINGS.jsonl; letters = elements of Excuse).     *)
(* Each was first exhibited by TLC on this model and then reproduced on    *)
(* the real code by the harness; every invariant excuses exactly the       *)
(* listed history shapes, and checks/c13.py re-runs the model with each    *)
(* letter removed to show the finding is still there.                      *)
(*  a  RollBackward below every stored block removes nothing               *)
(*  b  the root offered for a beacon strictly inside a range whose root is *)
(*     already stored uses the full range                                  *)
(*  c  a RollBackward to the scan's start point is skipped even when it is *)
(*     not the echo of FindIntersect                                       *)
(*  d  an import whose target is already stored returns without asking the *)
(*     node                                                                *)
(*  e  after a failed import the cursor (last_polled_point) is behind the  *)
(*     store                                                               *)
(*                                                                         *)
(* Abstractions: a block is <<number, fork generation>> (its hash); its    *)
(* slot and whether it carries a transaction are functions of that pair;   *)
(* a Merkle root is the set of blocks it was computed over (hashes are     *)
(* injective); a Merkle map root is the set of <<range start, root>>.      *)
(***************************************************************************)
EXTENDS Integers, Sequences, FiniteSets, TLC, Json

CONSTANTS
    L,            \* BlockRange::LENGTH (15 in the code)
    InitLen,      \* length of the node's chain in the initial state
    MaxLen,       \* bound on the chain length
    ExtSteps,     \* allowed sizes of one chain extension
    ForkPoints,   \* allowed fork points (block numbers, 0 = origin)
    ForkGrow,     \* by how many blocks a new fork is longer than what it replaces (never shorter)
    MaxDepth,     \* the deepest roll-back the node performs (blocks below its tip)
    Targets,      \* allowed import targets
    MaxPoll,      \* max_roll_forwards_per_poll
    Keep,         \* -1: no pruning, else number_of_blocks_to_keep
    MaxForks, MaxRestarts, MaxFaults, MaxCrashes, MaxImports,
    MaxMidEnv,    \* environment actions allowed while an import is scanning
    TxPeriod, TxOn, TxShift,   \* which blocks carry a transaction
    Excuse,       \* subset of {"a", "b", "c"}: known findings excused in the invariants
    RecordHist,   \* TRUE: keep the history (GEN); FALSE: do not (MC)
    Gate(_)       \* TRUE in model checking; a random filter per action kind in simulation (GEN), so
                  \* that the environment's budget is not spent in the first steps of a behaviour

VARIABLES
    \* ---- environment: the node and the chain-sync connection -------------------------
    chain,        \* chain[i] = fork generation of block number i
    forks,        \* number of forks so far
    ptr,          \* server read pointer of the connection: block number, 0 = origin
    back,         \* the next instruction is RollBackward(point(ptr))
    mustReply,    \* the last answer was Await: the client has no agency
    fault,        \* the connection is lost, the client has not noticed yet
    \* ---- persisted state ---------------------------------------------------------------
    db,           \* set of stored blocks (cardano_block + cardano_tx)
    roots,        \* set of <<range start, content>>      (block_range_root)
    lroots,       \* set of <<range start, content>>      (block_range_root_legacy)
    \* ---- importer (in memory) ----------------------------------------------------------
    lastPolled,   \* BlocksTransactionsImporter::last_polled_point
    pc,
    from, until,  \* ChainReaderBlockStreamer::{from, until}
    buf,          \* roll_forwards buffer of poll_next
    polled,       \* ChainReaderBlockStreamer::last_polled_point
    rbSlot,       \* slot of the RollBackward handed to the importer
    fwdSeen,      \* a RollForward was received in this scan
    noScan,       \* this import returned early ("the database is up to date") without asking the node
    \* ---- bookkeeping --------------------------------------------------------------------
    target,       \* highest target of an import so far
    lastFailed,   \* the last import did not complete
    horizon,      \* highest prune threshold applied so far
    failCause,
    msgs, writes, \* reader calls answered / persistence steps done in the current import
    nForks, nRestarts, nFaults, nCrashes, nImports, nMid,
    taintA,       \* history shape of known finding (a)
    taintC,       \* history shape of known finding (c)
    taintE,       \* history shape of known finding (e)
    hist

envVars  == <<chain, forks, ptr, back, mustReply, fault>>
dbVars   == <<db, roots, lroots>>
impVars  == <<lastPolled, pc, from, until, buf, polled, rbSlot, fwdSeen, noScan>>
auxVars  == <<target, lastFailed, horizon, failCause, msgs, writes,
              nForks, nRestarts, nFaults, nCrashes, nImports, nMid, taintA, taintC, taintE, hist>>
vars     == <<envVars, dbVars, impVars, auxVars>>

-----------------------------------------------------------------------------
Origin == <<0, 0>>
None   == <<-1, -1>>

Max(S) == CHOOSE x \in S : \A y \in S : y <= x
Min2(a, b) == IF a < b THEN a ELSE b
Max2(a, b) == IF a > b THEN a ELSE b

Slot(p)     == p[1] * 10 + p[2]            \* origin has slot 0; injective for forks < 10
HasTx(b)    == ((b[1] + TxShift * b[2]) % TxPeriod) < TxOn
BlockAt(c, i) == <<i, c[i]>>
PointAt(i)  == IF i = 0 THEN Origin ELSE BlockAt(chain, i)
OnChain(p)  == p = Origin \/ (p[1] \in 1..Len(chain) /\ chain[p[1]] = p[2])
RangeStart(n) == (n \div L) * L
Highest(d)  == IF d = {} THEN None ELSE CHOOSE b \in d : \A c \in d : c[1] <= b[1]
Starts(rs)  == {r[1] : r \in rs}

Importing == pc \in {"intersect", "poll", "store", "remove", "endscan", "roots", "lroots", "prune"}
Finished  == pc = "idle" /\ nImports = MaxImports

-----------------------------------------------------------------------------
(* history (GEN): the stimulus and environment actions, enough to replay the behaviour *)
LastH == hist[Len(hist)]
Rec(r) == IF RecordHist THEN Append(hist, r) ELSE hist
RecMid(r) == IF ~RecordHist THEN hist
             ELSE [hist EXCEPT ![Len(hist)] =
                      [@ EXCEPT !.mid = Append(@, r @@ [at |-> msgs])]]
RecEnd(ok, same, crash) ==
    IF ~RecordHist THEN hist
    ELSE [hist EXCEPT ![Len(hist)] = [@ EXCEPT !.pok = ok, !.psame = same, !.crash = crash]]

-----------------------------------------------------------------------------
(* Environment *)
NewConnection == ptr' = 0 /\ back' = TRUE /\ mustReply' = FALSE /\ fault' = FALSE

EnvMayAct == /\ ~Finished
             /\ \/ pc = "idle"
                \/ pc = "poll" /\ nMid < MaxMidEnv
CountMid  == nMid' = IF pc = "poll" THEN nMid + 1 ELSE nMid
RecEnv(r) == IF pc = "poll" THEN RecMid(r) ELSE Rec(r)

CanImport == \E t \in Targets : t <= Len(chain) /\ (t > target \/ (t = target /\ lastFailed))

DoExtend(m) ==
    /\ EnvMayAct
    /\ Len(chain) + m <= MaxLen
    /\ chain' = chain \o [i \in 1..m |-> forks]
    /\ hist' = RecEnv([op |-> "extend", n |-> m]) /\ CountMid
    /\ UNCHANGED <<forks, ptr, back, mustReply, fault, dbVars, impVars, target, lastFailed, horizon,
                   failCause, msgs, writes, nForks, nRestarts, nFaults, nCrashes, nImports,
                   taintA, taintC, taintE>>

(* The node switches to another fork: everything after block k is replaced.  A node only      *)
(* switches to a chain that is not shorter.  A read pointer on the abandoned part moves back  *)
(* to the fork point and the client will be told so.                                          *)
DoFork(k, g) ==
    /\ EnvMayAct
    /\ nForks < MaxForks /\ nImports >= 1
    /\ k < Len(chain) /\ Len(chain) - k <= MaxDepth
    /\ LET n == Len(chain) - k + g IN
       /\ k + n <= MaxLen
       /\ chain' = SubSeq(chain, 1, k) \o [i \in 1..n |-> forks + 1]
       /\ hist' = RecEnv([op |-> "fork", k |-> k, n |-> n])
    /\ forks' = forks + 1 /\ nForks' = nForks + 1
    /\ IF ptr > k THEN ptr' = k /\ back' = TRUE ELSE UNCHANGED <<ptr, back>>
    /\ CountMid
    /\ UNCHANGED <<mustReply, fault, dbVars, impVars, target, lastFailed, horizon, failCause, msgs,
                   writes, nRestarts, nFaults, nCrashes, nImports, taintA, taintC, taintE>>

(* The connection to the node is lost; the client notices at its next call. *)
DoFault ==
    /\ EnvMayAct
    /\ ~fault /\ nFaults < MaxFaults /\ nImports >= 1
    /\ fault' = TRUE /\ nFaults' = nFaults + 1
    /\ hist' = RecEnv([op |-> "fault"]) /\ CountMid
    /\ UNCHANGED <<chain, forks, ptr, back, mustReply, dbVars, impVars, target, lastFailed, horizon,
                   failCause, msgs, writes, nForks, nRestarts, nCrashes, nImports, taintA, taintC, taintE>>

-----------------------------------------------------------------------------
(* Importer: BlocksTransactionsImporter::run *)
ImportBegin(t) ==
    /\ pc = "idle" /\ nImports < MaxImports
    /\ t \in Targets /\ t <= Len(chain)                   \* the beacon comes from the node's own tip
    /\ t > target \/ (t = target /\ lastFailed)           \* increasing targets (a failed one is retried)
    /\ LET hi == Highest(db)
           sp == IF lastPolled # None THEN lastPolled ELSE hi     \* start_point
       IN /\ from' = IF sp = None THEN Origin ELSE sp
          /\ pc' = IF hi # None /\ hi[1] >= t THEN "roots" ELSE "intersect"
    /\ until' = t /\ target' = t /\ lastFailed' = FALSE
    /\ buf' = <<>> /\ polled' = None /\ rbSlot' = 0 /\ fwdSeen' = FALSE
    /\ noScan' = (Highest(db) # None /\ Highest(db)[1] >= t)
    /\ msgs' = 0 /\ writes' = 0 /\ nMid' = 0 /\ failCause' = "none"
    /\ nImports' = nImports + 1
    /\ hist' = Rec([op |-> "import", t |-> t, mid |-> <<>>, crash |-> -1, pok |-> TRUE, psame |-> TRUE])
    /\ UNCHANGED <<envVars, dbVars, lastPolled, horizon, nForks, nRestarts, nFaults, nCrashes,
                   taintA, taintC, taintE>>

Fail(cause) ==
    /\ pc' = "failed" /\ failCause' = cause /\ lastFailed' = TRUE
    /\ hist' = RecEnd(FALSE, FALSE, -1)

(* ChainReaderBlockStreamer::try_new -> PallasChainReader::set_chain_point (FindIntersect) *)
Intersect ==
    /\ pc = "intersect"
    /\ IF fault
         THEN /\ NewConnection /\ Fail("conn")
              /\ UNCHANGED <<chain, forks, dbVars, lastPolled, from, until, buf, polled, rbSlot, fwdSeen, noScan,
                             target, horizon, msgs, writes, nForks, nRestarts, nFaults, nCrashes,
                             nImports, nMid, taintA, taintC, taintE>>
         ELSE /\ IF ~mustReply /\ OnChain(from)
                   THEN ptr' = from[1] /\ back' = TRUE     \* found: the node will echo the point
                   ELSE UNCHANGED <<ptr, back>>            \* no agency, or intersect not found
              /\ pc' = "poll"
              \* history shape (e): the scan resumes from a point below the highest stored block (the
              \* cursor was not advanced by a failed import that did store blocks): the node will not
              \* report a roll-back of the stored blocks above that point
              /\ taintE' = (taintE \/ \E b \in db : Slot(b) > Slot(from))
              /\ UNCHANGED <<chain, forks, mustReply, fault, dbVars, lastPolled, from, until, buf, polled,
                             rbSlot, fwdSeen, noScan, target, lastFailed, horizon, failCause, msgs, writes,
                             nForks, nRestarts, nFaults, nCrashes, nImports, nMid, taintA, taintC, hist>>

(* One get_next_chain_block and what poll_next does with the answer. *)
NextMsg ==
    /\ pc = "poll"
    /\ msgs' = msgs + 1
    /\ IF fault THEN
            /\ NewConnection /\ Fail("conn")
            /\ UNCHANGED <<chain, forks, dbVars, lastPolled, from, until, buf, polled, rbSlot, fwdSeen, noScan,
                           target, horizon, writes, nForks, nRestarts, nFaults, nCrashes, nImports, nMid,
                           taintA, taintC, taintE>>
       ELSE IF back THEN                                             \* RollBackward(point(ptr))
            LET p == PointAt(ptr) IN
            /\ back' = FALSE /\ mustReply' = FALSE
            /\ IF Slot(p) = Slot(from)
                 THEN \* "roll-back to `from` is skipped" (meant for the echo of FindIntersect)
                      /\ taintC' = (taintC \/ fwdSeen)
                      /\ UNCHANGED <<pc, buf, polled, rbSlot>>
                 ELSE /\ polled' = p
                      /\ taintC' = taintC
                      /\ IF \E i \in DOMAIN buf : Slot(buf[i]) = Slot(p)
                           THEN /\ buf' = SubSeq(buf, 1, CHOOSE i \in DOMAIN buf :
                                             /\ Slot(buf[i]) = Slot(p)
                                             /\ \A j \in 1..(i - 1) : Slot(buf[j]) # Slot(p))
                                /\ UNCHANGED <<pc, rbSlot>>
                           ELSE /\ pc' = "remove" /\ rbSlot' = Slot(p) /\ buf' = <<>>
            /\ UNCHANGED <<chain, forks, ptr, fault, dbVars, lastPolled, from, until, fwdSeen, noScan, target,
                           lastFailed, horizon, failCause, writes, nForks, nRestarts, nFaults, nCrashes,
                           nImports, nMid, taintA, taintE, hist>>
       ELSE IF ptr < Len(chain) THEN                                  \* RollForward(next block)
            LET b == BlockAt(chain, ptr + 1) IN
            /\ ptr' = ptr + 1 /\ mustReply' = FALSE /\ fwdSeen' = TRUE
            /\ IF b[1] > until
                 THEN \* above the threshold: dropped, the poll ends
                      /\ pc' = IF buf = <<>> THEN "endscan" ELSE "store"
                      /\ UNCHANGED <<buf, polled>>
                 ELSE /\ polled' = b /\ buf' = Append(buf, b)
                      /\ pc' = IF Len(buf) + 1 >= MaxPoll \/ b[1] >= until THEN "store" ELSE "poll"
            /\ UNCHANGED <<chain, forks, back, fault, dbVars, lastPolled, from, until, rbSlot, noScan, target,
                           lastFailed, horizon, failCause, writes, nForks, nRestarts, nFaults, nCrashes,
                           nImports, nMid, taintA, taintC, taintE, hist>>
       ELSE IF mustReply THEN
            \* the client has to wait for the node and nothing arrives: time-out, error, connection dropped
            /\ NewConnection /\ Fail("timeout")
            /\ UNCHANGED <<chain, forks, dbVars, lastPolled, from, until, buf, polled, rbSlot, fwdSeen, noScan,
                           target, horizon, writes, nForks, nRestarts, nFaults, nCrashes, nImports, nMid,
                           taintA, taintC, taintE>>
       ELSE                                                           \* Await
            /\ mustReply' = TRUE
            /\ pc' = IF buf = <<>> THEN "endscan" ELSE "store"
            /\ UNCHANGED <<chain, forks, ptr, back, fault, dbVars, lastPolled, from, until, buf, polled,
                           rbSlot, fwdSeen, noScan, target, lastFailed, horizon, failCause, writes, nForks,
                           nRestarts, nFaults, nCrashes, nImports, nMid, taintA, taintC, taintE, hist>>

(* store_blocks_and_transactions: `insert or ignore` under the unique indexes on block_hash,  *)
(* block_number and slot_number, then the transactions with their foreign key on block_hash,  *)
(* all in one sqlite transaction.                                                             *)
RECURSIVE InsertIgnore(_, _, _)
InsertIgnore(d, s, i) ==
    IF i > Len(s) THEN d
    ELSE IF \E c \in d : c[1] = s[i][1] \/ Slot(c) = Slot(s[i])
         THEN InsertIgnore(d, s, i + 1)
         ELSE InsertIgnore(d \cup {s[i]}, s, i + 1)

Store ==
    /\ pc = "store"
    /\ LET d2 == InsertIgnore(db, buf, 1)
           fk == \E i \in DOMAIN buf : buf[i] \notin d2 /\ HasTx(buf[i])
       IN IF fk
            THEN \* FOREIGN KEY constraint failed -> panic in the worker, transaction rolled back
                 /\ Fail("panic") /\ UNCHANGED <<db, buf, writes>>
            ELSE /\ db' = d2 /\ buf' = <<>> /\ pc' = "poll" /\ writes' = writes + 1
                 /\ UNCHANGED <<lastFailed, failCause, hist>>
    /\ UNCHANGED <<envVars, roots, lroots, lastPolled, from, until, polled, rbSlot, fwdSeen, noScan, target,
                   horizon, msgs, nForks, nRestarts, nFaults, nCrashes, nImports, nMid, taintA, taintC, taintE>>

(* remove_rolled_back_blocks_transactions_and_block_range_by_slot_number *)
Remove ==
    /\ pc = "remove"
    /\ LET cand == {b \in db : Slot(b) <= rbSlot} IN
       IF cand = {}
         THEN \* no stored block at or below the slot: nothing is removed
              /\ taintA' = (taintA \/ db # {})
              /\ UNCHANGED dbVars
         ELSE LET q == Highest(cand) IN
              /\ db'     = {b \in db : b[1] <= q[1]}
              /\ roots'  = {r \in roots : r[1] < RangeStart(q[1])}
              /\ lroots' = {r \in lroots : r[1] < RangeStart(q[1])}
              /\ taintA' = taintA
    /\ pc' = "poll" /\ writes' = writes + 1
    /\ UNCHANGED <<envVars, lastPolled, from, until, buf, polled, rbSlot, fwdSeen, noScan, target, lastFailed,
                   horizon, failCause, msgs, nForks, nRestarts, nFaults, nCrashes, nImports, nMid,
                   taintC, taintE, hist>>

EndScan ==
    /\ pc = "endscan"
    /\ lastPolled' = IF polled # None THEN polled ELSE lastPolled
    /\ pc' = "roots"
    /\ UNCHANGED <<envVars, dbVars, from, until, buf, polled, rbSlot, fwdSeen, noScan, auxVars>>

(* BlockRangeImporter::run / run_legacy: from the end of the highest stored range, every range *)
(* fully covered at the target, empty ranges skipped, `insert or ignore`.                      *)
Content(d, k)  == {b \in d : k <= b[1] /\ b[1] < k + L}
LContent(d, k) == {b \in Content(d, k) : HasTx(b)}
NewRoots(rs, d, t, C(_, _)) ==
    LET s0 == IF rs = {} THEN 0 ELSE Max(Starts(rs)) + L
        ks == {k \in s0..t : k % L = 0 /\ k + L - 1 <= t /\ C(d, k) # {} /\ k \notin Starts(rs)}
    IN  {<<k, C(d, k)>> : k \in ks}

AfterRoots == IF Keep >= 0 THEN "prune" ELSE "done"

ComputeRoots ==
    /\ pc = "roots"
    /\ LET nr == NewRoots(roots, db, until, Content) IN
       /\ roots' = roots \cup nr
       /\ writes' = IF nr = {} THEN writes ELSE writes + 1
    /\ pc' = "lroots"
    /\ UNCHANGED <<envVars, db, lroots, lastPolled, from, until, buf, polled, rbSlot, fwdSeen, noScan, target,
                   lastFailed, horizon, failCause, msgs, nForks, nRestarts, nFaults, nCrashes, nImports,
                   nMid, taintA, taintC, taintE, hist>>

ComputeLegacyRoots ==
    /\ pc = "lroots"
    /\ LET nr == NewRoots(lroots, db, until, LContent) IN
       /\ lroots' = lroots \cup nr
       /\ writes' = IF nr = {} THEN writes ELSE writes + 1
    /\ pc' = AfterRoots
    /\ UNCHANGED <<envVars, db, roots, lastPolled, from, until, buf, polled, rbSlot, fwdSeen, noScan, target,
                   lastFailed, horizon, failCause, msgs, nForks, nRestarts, nFaults, nCrashes, nImports,
                   nMid, taintA, taintC, taintE, hist>>

(* ChainDataImporterWithPruner -> prune_transaction *)
PruneThreshold(rs, ls) ==
    LET h == IF rs # {} /\ ls # {} THEN Min2(Max(Starts(rs)), Max(Starts(ls)))
             ELSE IF rs # {} THEN Max(Starts(rs))
             ELSE IF ls # {} THEN Max(Starts(ls)) ELSE -1
    IN IF h < 0 THEN 0 ELSE Max2(h - Keep, 0)

Prune ==
    /\ pc = "prune"
    /\ LET th == PruneThreshold(roots, lroots) IN
       /\ db' = {b \in db : b[1] >= th}
       /\ horizon' = Max2(horizon, th)
    /\ pc' = "done" /\ writes' = writes + 1
    /\ UNCHANGED <<envVars, roots, lroots, lastPolled, from, until, buf, polled, rbSlot, fwdSeen, noScan, target,
                   lastFailed, failCause, msgs, nForks, nRestarts, nFaults, nCrashes, nImports, nMid,
                   taintA, taintC, taintE, hist>>

-----------------------------------------------------------------------------
(* The property, stated on the canonical chain only *)
FreshBlocks(t)  == {BlockAt(chain, i) : i \in 1..Min2(t, Len(chain))}
FreshRoots(t)   == NewRoots({}, FreshBlocks(t), t, Content)
FreshLRoots(t)  == NewRoots({}, FreshBlocks(t), t, LContent)

(* BlockRangeRootRetriever::compute_merkle_map_from_block_range_roots *)
Signable(d, rs, b) ==
    LET m      == {r \in rs : r[1] < b}
        inLast == m # {} /\ LET mx == Max(Starts(m)) IN mx <= b /\ b < mx + L
        k      == RangeStart(b)
        part   == {x \in d : k <= x[1] /\ x[1] <= b}
    IN IF b < k + L - 1 /\ ~inLast /\ part # {} THEN m \cup {<<k, part>>} ELSE m
LSignable(ls, b) == {r \in ls : r[1] < b}

SameAsFresh ==
    /\ {b \in db : b[1] >= horizon} = {b \in FreshBlocks(until) : b[1] >= horizon}
    /\ roots = FreshRoots(until)
    /\ lroots = FreshLRoots(until)

Tainted == ("a" \in Excuse /\ taintA) \/ ("c" \in Excuse /\ taintC) \/ ("d" \in Excuse /\ noScan)
           \/ ("e" \in Excuse /\ taintE)

(* After a completed import the store equals a from-scratch import of the canonical chain *)
Converged == pc = "done" => (SameAsFresh \/ Tainted)

(* known finding (b): the beacon lies strictly inside the highest stored range the builder reads *)
InsideLastStored(b) ==
    LET m == {r \in roots : r[1] < b} IN
    m # {} /\ LET mx == Max(Starts(m)) IN mx < b /\ b < mx + L - 1

(* The root offered for a beacon depends only on the canonical chain up to the beacon *)
RootDependsOnlyOnPrefix ==
    pc = "done" =>
      \/ Tainted
      \/ \A b \in 1..until :
            RangeStart(b) >= horizon =>
              /\ \/ Signable(db, roots, b) = Signable(FreshBlocks(b), FreshRoots(b), b)
                 \/ ("b" \in Excuse /\ InsideLastStored(b))
              /\ (b + 1) % L = 0 => LSignable(lroots, b) = LSignable(FreshLRoots(b), b)

(* In a healthy environment an import completes *)
Completes == pc = "failed" => (failCause \in {"conn", "timeout"} \/ Tainted)

-----------------------------------------------------------------------------
Done ==
    /\ pc = "done" /\ pc' = "idle"
    /\ hist' = RecEnd(TRUE, SameAsFresh, -1)
    /\ UNCHANGED <<envVars, dbVars, lastPolled, from, until, buf, polled, rbSlot, fwdSeen, noScan, target,
                   lastFailed, horizon, failCause, msgs, writes, nForks, nRestarts, nFaults, nCrashes,
                   nImports, nMid, taintA, taintC, taintE>>

Failed ==
    /\ pc = "failed" /\ pc' = "idle"
    /\ UNCHANGED <<envVars, dbVars, lastPolled, from, until, buf, polled, rbSlot, fwdSeen, noScan, auxVars>>

(* process restart: the in-memory cursor and the connection are lost, the database is not *)
DoRestart ==
    /\ pc = "idle" /\ ~Finished /\ nRestarts < MaxRestarts /\ nImports >= 1
    /\ lastPolled' = None /\ NewConnection
    /\ nRestarts' = nRestarts + 1
    /\ hist' = Rec([op |-> "restart"])
    /\ UNCHANGED <<chain, forks, dbVars, pc, from, until, buf, polled, rbSlot, fwdSeen, noScan, target, lastFailed,
                   horizon, failCause, msgs, writes, nForks, nFaults, nCrashes, nImports, nMid,
                   taintA, taintC, taintE>>

(* the process stops between two persistence steps of an import and is started again *)
DoCrash ==
    /\ Importing /\ nCrashes < MaxCrashes
    /\ lastPolled' = None /\ NewConnection
    /\ pc' = "idle" /\ lastFailed' = TRUE /\ buf' = <<>>
    /\ nCrashes' = nCrashes + 1
    /\ hist' = RecEnd(FALSE, FALSE, writes)
    /\ UNCHANGED <<chain, forks, dbVars, from, until, polled, rbSlot, fwdSeen, noScan, target, horizon, failCause,
                   msgs, writes, nForks, nRestarts, nFaults, nImports, nMid, taintA, taintC, taintE>>

Init ==
    /\ chain = [i \in 1..InitLen |-> 0] /\ forks = 0
    /\ ptr = 0 /\ back = TRUE /\ mustReply = FALSE /\ fault = FALSE
    /\ db = {} /\ roots = {} /\ lroots = {}
    /\ lastPolled = None /\ pc = "idle" /\ from = Origin /\ until = 0 /\ buf = <<>>
    /\ polled = None /\ rbSlot = 0 /\ fwdSeen = FALSE /\ noScan = FALSE
    /\ target = 0 /\ lastFailed = FALSE /\ horizon = 0 /\ failCause = "none" /\ msgs = 0 /\ writes = 0
    /\ nForks = 0 /\ nRestarts = 0 /\ nFaults = 0 /\ nCrashes = 0 /\ nImports = 0 /\ nMid = 0
    /\ taintA = FALSE /\ taintC = FALSE /\ taintE = FALSE /\ hist = <<>>

(* Gate is TRUE in model checking; in simulation it thins out the environment (see MC module) *)
EnvKind(k) == IF pc = "poll" THEN "mid" ELSE k
Extend  == (Gate(EnvKind("extend")) \/ (pc = "idle" /\ ~CanImport)) /\ \E m \in ExtSteps : DoExtend(m)
Fork    == Gate(EnvKind("fork")) /\ \E k \in ForkPoints, g \in ForkGrow : DoFork(k, g)
Fault   == Gate(EnvKind("fault")) /\ DoFault
Restart == Gate("restart") /\ DoRestart
Crash   == Gate("crash") /\ DoCrash

Next ==
    \/ Extend \/ Fork \/ Fault
    \/ \E t \in Targets : ImportBegin(t)
    \/ Intersect \/ NextMsg \/ Store \/ Remove \/ EndScan
    \/ ComputeRoots \/ ComputeLegacyRoots \/ Prune \/ Done \/ Failed
    \/ Restart \/ Crash

Spec == Init /\ [][Next]_vars

-----------------------------------------------------------------------------
TypeOK ==
    /\ ptr \in 0..Len(chain) /\ Len(chain) <= MaxLen
    /\ pc \in {"idle", "intersect", "poll", "store", "remove", "endscan", "roots", "lroots", "prune",
               "done", "failed"}
    /\ \A b \in db : b[1] >= 1

(* GEN: a finished behaviour is printed with what the model predicts for each import *)
Script == [L |-> L, init_len |-> InitLen, max_poll |-> MaxPoll, keep |-> Keep,
           tx_period |-> TxPeriod, tx_on |-> TxOn, tx_shift |-> TxShift,
           taint_a |-> taintA, taint_c |-> taintC, taint_e |-> taintE, ops |-> hist]
GenPrint == Finished => PrintT(<<"REPLAY", ToJson(Script)>>)

(* The same invariants, printing the history of a counterexample (with RecordHist = TRUE) so   *)
(* that the driver can execute it on the real code: only the real outcome decides (DESIGN 3.6) *)
Cex(name) == PrintT(<<"CEX", ToJson(Script @@ [inv |-> name])>>)
ConvergedX               == Converged \/ ~Cex("Converged")
RootDependsOnlyOnPrefixX == RootDependsOnlyOnPrefix \/ ~Cex("RootDependsOnlyOnPrefix")
CompletesX               == Completes \/ ~Cex("Completes")
=============================================================================
