CONSTANTS
    L = 3
    InitLen = 4
    MaxLen = 8
    ExtSteps = {2}
    ForkPoints = {0, 1, 2, 3, 4, 5, 6, 7}
    MaxDepth = 3
    ForkGrow = {0, 1}
    Targets = {1, 2, 3, 4, 5, 6, 7, 8}
    MaxPoll = 2
    Keep = 3
    MaxForks = 2
    MaxRestarts = 0
    MaxFaults = 0
    MaxCrashes = 0
    MaxImports = 4
    MaxMidEnv = 1
    TxPeriod = 5
    TxOn = 2
    TxShift = 1
    Excuse = {"b", "c", "d", "e"}
    RecordHist = FALSE
    Gate <- GateOpen
SPECIFICATION Spec
INVARIANTS TypeOK Converged RootDependsOnlyOnPrefix Completes
CHECK_DEADLOCK FALSE
