CONSTANTS
    L = 15
    InitLen = 24
    MaxLen = 66
    ExtSteps = {2, 9, 17}
    ForkPoints = {0, 3, 13, 14, 15, 16, 21, 22, 28, 29, 30, 31, 33, 38, 40, 43, 44, 45, 46, 50, 52, 58, 59, 60}
    MaxDepth = 100
    ForkGrow = {0, 1, 6}
    Targets = {5, 13, 14, 15, 16, 20, 22, 24, 28, 29, 30, 31, 33, 37, 40, 41, 43, 44, 45, 46, 49, 52, 55, 58, 59, 60, 61, 64, 66}
    MaxPoll = 4
    Keep <- NoPrune
    MaxForks = 2
    MaxRestarts = 2
    MaxFaults = 1
    MaxCrashes = 1
    MaxImports = 4
    MaxMidEnv = 2
    TxPeriod = 37
    TxOn = 18
    TxShift = 5
    Excuse = {"a", "b", "c", "d", "e"}
    RecordHist = TRUE
    Gate <- GateRandom
SPECIFICATION Spec
INVARIANTS GenPrint
CHECK_DEADLOCK FALSE
