CONSTANTS
    Shape <- Shape4
    EpochOrderStrict = FALSE
    CacheSound = FALSE
    FetchedHashChecked = FALSE
    MaxAlter = 1
    TamperFields = {"resign", "prev", "epoch", "avk", "params", "msgEpoch", "nextAvk", "nextParams", "signedMsg", "sig", "kind", "genSig"}
    MsgModes = {"k", "d", "r"}
    Twins = TRUE
    ForgeEpochs = {1, 2, 3, 4}
    Forge2Pars = {"p"}
    ForgeKeys = {"H3", "H4", "A", "H3/s"}
    ForgePars = {"p", "q"}
    ForgeNextAvk = {"H4", "A"}
    ForgeNextPars = {"p", "q"}
    ForgeLevels = 2
SPECIFICATION Spec
INVARIANTS ChainSound Terminates GenPrint
CHECK_DEADLOCK FALSE
