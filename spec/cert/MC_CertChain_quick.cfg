CONSTANTS
    Shape <- Shape4
    EpochOrderStrict = FALSE
    CacheSound = FALSE
    MaxAlter = 1
    TamperFields = {"prev", "epoch", "avk", "params", "msgEpoch", "nextAvk", "nextParams", "signedMsg", "sig", "kind", "genSig"}
    ForgeKeys = {"H2", "H3", "H4", "A"}
    ForgePars = {"p", "q"}
    ForgeNextAvk = {"H3", "H4", "A"}
    ForgeNextPars = {"p", "q"}
    ForgeLevels = 2
SPECIFICATION Spec
INVARIANTS ChainSound Terminates
CHECK_DEADLOCK FALSE
