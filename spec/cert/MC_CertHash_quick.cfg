CONSTANTS
    EntityDiscriminantHashed = FALSE
    Mode = "field"
    MsgAlphabet = {"c", "a"}
    MaxParts = 1
    MaxLen = 1
    KeyLikeValues = FALSE
SPECIFICATION Spec
INVARIANTS TamperEvidentInv WireFaithfulInv GenPrint
CHECK_DEADLOCK FALSE
