CONSTANTS
    EntityDiscriminantHashed = FALSE
    Mode = "msg"
    MsgAlphabet = {"c", "a"}
    MaxParts = 2
    MaxLen = 1
    KeyLikeValues = FALSE
SPECIFICATION Spec
INVARIANTS MsgInjectiveInv GenPrint
CHECK_DEADLOCK FALSE
