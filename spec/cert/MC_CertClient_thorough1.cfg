CONSTANTS
    Shape <- Shape3
    EpochOrderStrict = FALSE
    CacheSound = FALSE
    FetchedHashChecked = FALSE
    MaxAlter = 1
    TamperFields = {"resign", "prev", "epoch", "avk", "params", "nextAvk", "nextParams", "sig"}
    MsgModes = {"k", "r"}
    Twins = TRUE
    ForgeEpochs = {1, 2, 3, 4}
    Forge2Pars = {"p"}
    ForgeKeys = {"A", "H4"}
    ForgePars = {"p", "q"}
    ForgeNextAvk = {"A"}
    ForgeNextPars = {"p"}
    ForgeLevels = 2
    MaxAttempts = 1
    MaxJumps = 1
SPECIFICATION Spec
VIEW View
INVARIANTS ClientSound GenPrint
CHECK_DEADLOCK FALSE
