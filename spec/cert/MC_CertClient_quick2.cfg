CONSTANTS
    Shape <- Shape3
    EpochOrderStrict = FALSE
    CacheSound = FALSE
    MaxAlter = 1
    TamperFields = {"nextAvk"}
    MsgModes = {"k"}
    Twins = FALSE
    ForgeEpochs = {3, 4}
    Forge2Pars = {"q"}
    ForgeKeys = {"A"}
    ForgePars = {"q"}
    ForgeNextAvk = {"A"}
    ForgeNextPars = {"q"}
    ForgeLevels = 2
    MaxAttempts = 2
    MaxJumps = 1
SPECIFICATION Spec
VIEW View
INVARIANTS ClientSound
CHECK_DEADLOCK FALSE
