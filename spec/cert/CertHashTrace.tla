---------------------------- MODULE CertHashTrace ---------------------------
(***************************************************************************)
(* Contract trace spec for C04: accepts or rejects traces recorded from    *)
(* the real Certificate / ProtocolMessage / CertificateMessage code.       *)
(*                                                                         *)
(* Events (every field recomputed by the harness from the real values)     *)
(*  Keys          names : Display of every ProtocolMessagePartKey in map   *)
(*                        order (the spec's transcription must be current) *)
(*  FieldChange   changed : the fields in which the two real certificates  *)
(*                          really differ (protocol parameters at the      *)
(*                          protocol's fixed-point precision)              *)
(*                hash_differs, representable (timestamps fit 64-bit ns)   *)
(*                field from_kind to_kind same_beacon (for known findings) *)
(*  RoundTrip     Certificate -> CertificateMessage -> JSON text           *)
(*                (variant: plain, pretty, sorted / reversed / shuffled    *)
(*                field order, whitespace, numbers, all) -> back:          *)
(*                decode_ok hash_same signed_message_same verdict_before   *)
(*                verdict_after                                            *)
(*  MsgDigestSet  n_msgs n_distinct_msgs n_distinct_digests                *)
(*  MsgDigestPair equal_msgs same_digest     (honest value grammar)        *)
(***************************************************************************)
EXTENDS Naturals, Sequences, FiniteSets, TLC, Json, IOUtils

Rec   == ndJsonDeserialize(IOEnv.TRACE)
Known == ndJsonDeserialize(IOEnv.KNOWN)

H == INSTANCE CertHash WITH EntityDiscriminantHashed <- TRUE

VARIABLE l
tvars == <<l>>
E == Rec[l]
IsEvent(name) == l <= Len(Rec) /\ Rec[l].ev = name /\ Rec[l].seq = l /\ l' = l + 1

TraceInit == l = 1

-----------------------------------------------------------------------------
(* "Two certificates that differ in any single field have different hashes";    *)
(* and a hash is a function of the certificate                                   *)
FieldChangeOk(e) ==
    e.representable =>
        /\ Len(e.changed) = 1 => e.hash_differs
        /\ Len(e.changed) = 0 => ~e.hash_differs

(* "Converting a certificate to its API message, through JSON text and back      *)
(*  yields a certificate with the same hash, the same signed message and the     *)
(*  same verification outcome"                                                   *)
RoundTripOk(e) ==
    e.representable =>
        /\ e.decode_ok
        /\ e.hash_same /\ e.signed_message_same
        /\ e.verdict_after = e.verdict_before

(* "two protocol messages built from well-formed part values have the same       *)
(*  digest only if they are equal"                                               *)
MsgPairOk(e) == e.same_digest => e.equal_msgs
MsgSetOk(e)  == e.n_distinct_digests = e.n_distinct_msgs

Explained(e) ==
    CASE e.ev = "FieldChange"   -> FieldChangeOk(e)
      [] e.ev = "RoundTrip"     -> RoundTripOk(e)
      [] e.ev = "MsgDigestPair" -> MsgPairOk(e)
      [] e.ev = "MsgDigestSet"  -> MsgSetOk(e)
      [] e.ev = "Keys"          -> \* not part of the property: a changed label only means the spec's
                                   \* transcription of the key names is out of date (SPEC-DRIFT)
                                   e.names = H!KeyNames \/ PrintT(<<"DRIFT", ToJson([what |-> "protocol message part key labels differ from CertHash!KeyNames", names |-> e.names])>>)
      [] OTHER -> FALSE

TEvent ==
    /\ l <= Len(Rec) /\ Rec[l].seq = l /\ l' = l + 1
    /\ Explained(E)

-----------------------------------------------------------------------------
MatchesKnown(e, k) == \A f \in DOMAIN k.match : f \in DOMAIN e /\ e[f] = k.match[f]
(* a listed known finding excuses an event only if the contract does not explain it *)
TKnown ==
    /\ l <= Len(Rec) /\ Rec[l].seq = l
    /\ ~Explained(Rec[l])
    /\ \E i \in DOMAIN Known :
          /\ MatchesKnown(Rec[l], Known[i])
          /\ PrintT(<<"KNOWN-USED", ToJson([id |-> Known[i].id, seq |-> l])>>)
    /\ l' = l + 1

TraceNext == TEvent \/ TKnown
TraceSpec == TraceInit /\ [][TraceNext]_tvars

TraceAccepted ==
    LET d == TLCGet("stats").diameter - 1 IN
    /\ PrintT(<<"TRACE-RESULT",
                ToJson([matched |-> d, total |-> Len(Rec),
                        first_unmatched |-> IF d < Len(Rec) THEN Rec[d + 1] ELSE [ev |-> "none"]])>>)
    /\ d = Len(Rec)
=============================================================================
