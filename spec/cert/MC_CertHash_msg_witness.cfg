CONSTANTS
    EntityDiscriminantHashed = FALSE
    Mode = "msg"
    MsgAlphabet = {"c", "a"}
    MaxParts = 2
    MaxLen = 1
    KeyLikeValues = TRUE
SPECIFICATION Spec
INVARIANTS MsgInjectiveInv
CHECK_DEADLOCK FALSE
