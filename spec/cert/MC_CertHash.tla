----------------------------- MODULE MC_CertHash ----------------------------
(***************************************************************************)
(* C04: exhaustive over certificate shapes x fields x grammar values       *)
(* (mode "field"), over pairs of protocol messages of the honest value     *)
(* grammar (mode "msg"), and the round trip of every shape.                *)
(* GEN: every state is printed with the model's prediction; the harness    *)
(* realises it with a real Certificate and the real hash functions.        *)
(***************************************************************************)
EXTENDS CertHash, Json

CONSTANTS Mode,          \* "field" | "msg"
          MsgAlphabet,   \* characters of protocol-message values ({"c","a"}: honest hex digits;
                         \* with a non-hex character the digest is no longer injective: witness)
          MaxParts, MaxLen, KeyLikeValues

VARIABLES c, f, v, pm
vars == <<c, f, v, pm>>

S(str) == str    \* readability: S(<<"a","b">>) is the string "ab"

-----------------------------------------------------------------------------
(* value grammars.  Integers are tokens the harness maps to real values:   *)
(*   u64 fields  0,1,2,3 and 9 = u64::MAX                                  *)
(*   timestamps  0 = 1970-01-01T00:00:00Z, 1 = t0, 2 = t0 + 1 ns, 3 = t0 + 1 s,           *)
(*               4 = i64::MAX ns, 5 = i64::MIN ns                          *)
(*   phi.fx      0 = 0.2, 1 = 0.65, 2 = 0.65 + 2^-24 (next fixed-point step), 3 = 1.0;    *)
(*   phi.eps     1 = + 1e-9 (below the fixed-point precision)              *)
Strings   == {<<>>, <<"h">>, <<"h","1">>, <<"h","1","h">>, <<"1","h">>}
U64s      == {0, 1, 2, 9}
Times     == 0..5
Phis      == [fx : 0..3, eps : 0..1]
ParamsDom == [k : {0, 2, 9}, m : {0, 3, 9}, phi : Phis]
Parties   == {[party |-> <<"a">>, stake |-> 1], [party |-> <<"a">>, stake |-> 2],
              [party |-> <<"a","b">>, stake |-> 1], [party |-> <<>>, stake |-> 9]}
SignerLists == {<<>>} \cup {<<p>> : p \in Parties} \cup {<<p, q>> : p \in Parties, q \in Parties}
Vals      == {<<"c","a">>, <<"c">>, <<"1">>, <<"1","0">>}
PmDom     == {<<>>} \cup {<<[key |-> k, val |-> x]>> : k \in {1, 4, 6}, x \in Vals}
             \cup {<<[key |-> k1, val |-> x], [key |-> k2, val |-> y]>> :
                      k1 \in {1, 4}, k2 \in {5, 6, 12}, x \in Vals, y \in {<<"1">>, <<"c","a">>}}
Avks      == {<<"k","0">>, <<"k","1">>}
Entities  == {[kind |-> EntityKinds[i], a |-> a, b |-> IF i >= 3 THEN b ELSE 0, c |-> IF i = 5 THEN o ELSE 0] :
                 i \in 1..5, a \in {1, 2}, b \in {1, 2}, o \in {0, 1}}
Sigs      == {[variant |-> "genesis", val |-> <<"g","0">>], [variant |-> "genesis", val |-> <<"g","1">>],
              [variant |-> "multi", val |-> <<"m","0">>], [variant |-> "multi", val |-> <<"m","1">>]}
Ancs      == {<<>>, <<"d","0">>, <<"d","1">>}

Dom(field) ==
    CASE field \in {"prev", "network", "version", "signedMsg"} -> Strings
      [] field = "epoch" -> U64s
      [] field \in {"initiated", "sealed"} -> Times
      [] field = "params" -> ParamsDom
      [] field = "signers" -> SignerLists
      [] field = "pm" -> PmDom
      [] field = "avk" -> Avks
      [] field = "entity" -> Entities
      [] field = "sig" -> Sigs
      [] field \in {"ancP", "ancV"} -> Ancs
Fields == {"prev", "epoch", "network", "version", "params", "initiated", "sealed", "signers", "pm",
           "signedMsg", "avk", "entity", "sig", "ancP", "ancV"}

Base(sig, entity, alt) ==
    [prev |-> IF alt THEN <<>> ELSE <<"h","1">>, epoch |-> IF alt THEN 9 ELSE 1,
     meta |-> [network |-> IF alt THEN <<>> ELSE <<"h">>, version |-> IF alt THEN <<"h","1">> ELSE <<"1","h">>,
               params |-> [k |-> 2, m |-> 3, phi |-> [fx |-> 1, eps |-> 0]],
               initiated |-> IF alt THEN 4 ELSE 1, sealed |-> IF alt THEN 5 ELSE 3,
               signers |-> IF alt THEN <<>> ELSE <<[party |-> <<"a">>, stake |-> 1], [party |-> <<"a","b">>, stake |-> 1]>>],
     pm |-> IF alt THEN <<>> ELSE <<[key |-> 1, val |-> <<"c","a">>], [key |-> 6, val |-> <<"1">>]>>,
     signedMsg |-> <<"h","1">>, avk |-> <<"k","0">>, entity |-> entity, sig |-> sig,
     ancP |-> <<>>, ancV |-> <<>>]
M0 == [variant |-> "multi", val |-> <<"m","0">>]
G0 == [variant |-> "genesis", val |-> <<"g","0">>]
Shapes == {Base(M0, e, alt) : e \in Entities, alt \in BOOLEAN}
          \cup {Base(G0, [kind |-> "MithrilStakeDistribution", a |-> 1, b |-> 0, c |-> 0], alt) : alt \in BOOLEAN}

(* protocol messages of the honest value grammar: values are hex digits / decimal numbers *)
Short      == UNION {[1..n -> MsgAlphabet] : n \in 0..MaxLen}
(* KeyLikeValues (witness only): values that embed the name of a key -- not the honest grammar *)
ValStrings == Short \cup (IF KeyLikeValues THEN {x \o KeyChars[k] \o y : x \in Short, y \in Short, k \in {5, 6}} ELSE {})
Keys12 == 1..12
Msgs ==
    {<<>>} \cup {<<[key |-> k, val |-> x]>> : k \in Keys12, x \in ValStrings}
    \cup (IF MaxParts >= 2
          THEN {<<[key |-> k1, val |-> x], [key |-> k2, val |-> y]>> :
                   k1 \in Keys12, k2 \in Keys12, x \in ValStrings, y \in ValStrings} ELSE {})
WellFormedMsg(m) == \A i \in 1..(Len(m) - 1) : m[i].key < m[i + 1].key
HonestMsgs == {m \in Msgs : WellFormedMsg(m)}

None == [none |-> TRUE]
Init ==
    IF Mode = "field"
    THEN /\ c \in Shapes /\ f \in Fields /\ v \in Dom(f) /\ pm = None
         /\ (f = "entity" => c.sig.variant = "multi")     \* a genesis certificate has no such field
    ELSE /\ pm \in HonestMsgs /\ c = None /\ f = "" /\ v = None
Next == UNCHANGED vars
Spec == Init /\ [][Next]_vars

-----------------------------------------------------------------------------
(* the listed known finding: feed_hash without the discriminant *)
Confused == {{"MithrilStakeDistribution", "CardanoStakeDistribution"}, {"CardanoDatabase", "CardanoTransactions"}}
KnownEntityConfusion ==
    /\ ~EntityDiscriminantHashed /\ f = "entity"
    /\ {c.entity.kind, v.kind} \in Confused /\ c.entity.a = v.a /\ c.entity.b = v.b

TamperEvidentInv == Mode = "field" => (TamperEvident(c, f, v) \/ KnownEntityConfusion)
WireFaithfulInv  == Mode = "field" => WireFaithful(c) /\ WireFaithful(Set(c, f, v))
DigestOf == [m \in HonestMsgs |-> MsgInput(m)]
MsgInjectiveInv  == Mode = "msg" => \A m2 \in HonestMsgs : (pm # m2 => DigestOf[pm] # DigestOf[m2])

(* staleness witness: must be VIOLATED while the finding is listed *)
NoEntityConfusion == ~(Mode = "field" /\ KnownEntityConfusion /\ ~TamperEvident(c, f, v))

-----------------------------------------------------------------------------
(* GEN *)
GenPrint ==
    IF Mode = "field"
    THEN PrintT(<<"CASE", ToJson([c |-> c, f |-> f, v |-> v,
                                  differs |-> Differs(f, Get(c, f), v),
                                  hashDiffers |-> HashInput(Set(c, f, v)) # HashInput(c)])>>)
    ELSE PrintT(<<"MSG", ToJson([pm |-> pm])>>)
=============================================================================
