---------------------------- MODULE MC_CertChain ----------------------------
(***************************************************************************)
(* C03, mithril-common path: CertificateVerifier::verify_certificate_chain *)
(* started on ANY certificate of the universe, with a provider that        *)
(* answers every fetch with ANY certificate of the universe or nothing.    *)
(* One step = one iteration of the loop (one verify_certificate call).     *)
(*                                                                         *)
(* MC : ChainSound (accepted => ValidChain), Terminates.                   *)
(* GEN: GenPrint prints every accepted walk and every walk rejected by     *)
(*      exactly one clause of the verifier (the decision boundary) with    *)
(*      the predicted verdict, for the harness to realise on real code.    *)
(***************************************************************************)
EXTENDS CertChain, Json, SequencesExt

Shape3 == <<1, 2, 3>>
Shape4 == <<1, 2, 2, 3>>
Shape5 == <<1, 2, 2, 3, 4>>
Shape6 == <<1, 2, 2, 3, 3, 4>>

VARIABLES status, start, cur, walk, why, devF
vars == <<status, start, cur, walk, why, devF>>

Depth    == N + 4
ValidTab == [c \in Universe |-> ValidFrom(Universe, c, Depth)]
Answers  == Universe \cup {Missing}

Init ==
    /\ status = "run" /\ start \in Universe /\ cur = start
    /\ walk = <<>> /\ why = {} /\ devF = FALSE

(* is the rejected walk worth realising: one failing clause, and an answer that is id-matching, *)
(* missing, an honest certificate or the certificate itself (loop)                              *)
Boundary(f, p) ==
    /\ Cardinality(f) = 1
    /\ p.id = cur.prev \/ p.kind = "missing" \/ p \in HonestSet \/ p = cur

Rej(f, p, isStd) ==
    /\ status' = "rej" /\ cur' = Missing /\ devF' = FALSE
    /\ IF (isStd /\ Boundary(f, p)) \/ (~isStd /\ Cardinality(f) = 1)
       THEN start' = start /\ why' = f /\ walk' = IF isStd THEN Append(walk, p) ELSE walk
       ELSE start' = Missing /\ why' = {"multi"} /\ walk' = <<>>

Step ==
    /\ status = "run"
    /\ IF cur.kind = "genesis"
       THEN IF GenesisOk(cur)
            THEN status' = "acc" /\ UNCHANGED <<start, cur, walk, why, devF>>
            ELSE Rej(GenesisFails(cur), Missing, FALSE)
       ELSE \E p \in Answers :
              LET f == StdFails(cur, p) IN
              IF f = {}
              THEN /\ status' = "run" /\ cur' = p /\ walk' = Append(walk, p)
                   /\ devF' = (devF \/ p.epoch > cur.epoch)
                   /\ UNCHANGED <<start, why>>
              ELSE Rej(f, p, TRUE)

Next == Step
Spec == Init /\ [][Next]_vars

-----------------------------------------------------------------------------
(* accepted => the property's sentence; the only excuse is the listed known finding *)
ChainSound == status = "acc" => (ValidTab[start] \/ (~EpochOrderStrict /\ devF))
Terminates == Len(walk) <= Depth

(* vacuity / staleness witnesses (each must be VIOLATED in its own run) *)
NoAccept          == status # "acc"
NoFollowingAccept == ~(status = "acc" /\ devF /\ ~ValidTab[start])

-----------------------------------------------------------------------------
(* GEN *)
RECURSIVE TrueChain(_, _)
TrueChain(c, fuel) ==
    IF fuel = 0 \/ Owners(Universe, c.prev) = {} THEN {}
    ELSE LET p == CHOOSE q \in Owners(Universe, c.prev) : TRUE IN {p} \cup TrueChain(p, fuel - 1)

Served  == SelectSeq(walk, LAMBDA p : p.kind # "missing")
Listed  == <<start>> \o Served
Extra   == (UNION {TrueChain(Listed[i], Depth) : i \in DOMAIN Listed}) \ {Listed[i] : i \in DOMAIN Listed}
Pos(p)  == IF p.kind = "missing" THEN 0
           ELSE 1 + (CHOOSE i \in DOMAIN Served : Served[i] = p /\ \A j \in 1..(i - 1) : Served[j] # p)
GenCase ==
    [certs |-> Listed \o SetToSeq(Extra), start |-> 1,
     serve |-> [i \in DOMAIN walk |-> Pos(walk[i])],
     impl  |-> (status = "acc"), valid |-> ValidTab[start],
     cls   |-> IF status = "acc" THEN <<"accept">> ELSE SetToSeq(why)]
GenPrint ==
    (status = "acc" \/ (status = "rej" /\ why # {"multi"})) => PrintT(<<"CASE", ToJson(GenCase)>>)
=============================================================================
