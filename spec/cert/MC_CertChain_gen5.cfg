CONSTANTS
    Shape <- Shape5
    EpochOrderStrict = FALSE
    CacheSound = FALSE
    FetchedHashChecked = FALSE
    MaxAlter = 1
    TamperFields = {"resign", "prev", "epoch", "avk", "params", "msgEpoch", "nextAvk", "nextParams", "signedMsg", "sig", "kind", "genSig"}
    MsgModes = {"k", "d", "r"}
    Twins = TRUE
    ForgeEpochs = {1, 2, 3, 4, 5}
    Forge2Pars = {"q"}
    ForgeKeys = {"H2", "H3", "H4", "H5", "A", "H3/s", "H4/s"}
    ForgePars = {"p", "q"}
    ForgeNextAvk = {"H3", "H4", "H5", "A"}
    ForgeNextPars = {"p", "q"}
    ForgeLevels = 2
SPECIFICATION Spec
INVARIANTS ChainSound Terminates GenPrint
CHECK_DEADLOCK FALSE
