CONSTANTS
    Shape <- Shape3
    EpochOrderStrict = FALSE
    CacheSound = FALSE
    FetchedHashChecked = FALSE
    MaxAlter = 1
    TamperFields = {"nextAvk"}
    MsgModes = {"k"}
    Twins = FALSE
    ForgeEpochs = {3, 4}
    Forge2Pars = {"q"}
    ForgeKeys = {"A"}
    ForgePars = {"q"}
    ForgeNextAvk = {"A"}
    ForgeNextPars = {"q"}
    ForgeLevels = 2
    MaxAttempts = 2
    MaxJumps = 0
SPECIFICATION Spec
VIEW View
INVARIANTS ClientSound GenPrint
CHECK_DEADLOCK FALSE
