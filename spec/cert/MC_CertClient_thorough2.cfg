CONSTANTS
    Shape <- Shape3
    EpochOrderStrict = FALSE
    CacheSound = FALSE
    FetchedHashChecked = FALSE
    MaxAlter = 1
    TamperFields = {"nextAvk"}
    MsgModes = {"k"}
    Twins = FALSE
    ForgeEpochs = {1, 2, 3, 4}
    Forge2Pars = {"p"}
    ForgeKeys = {"A"}
    ForgePars = {"p", "q"}
    ForgeNextAvk = {"A"}
    ForgeNextPars = {"p"}
    ForgeLevels = 2
    MaxAttempts = 2
    MaxJumps = 1
SPECIFICATION Spec
VIEW View
INVARIANTS ClientSound
CHECK_DEADLOCK FALSE
