---------------------------- MODULE MC_CertClient ---------------------------
(***************************************************************************)
(* C03, mithril-client path: CertificateClient::verify_chain with the      *)
(* verifier cache (feature `unstable`), over SESSIONS: the cache survives  *)
(* from one attempt to the next.  One step = one loop iteration of         *)
(* MithrilCertificateVerifier::verify_chain                                *)
(*   first loop : verify_without_cache until the previous certificate is   *)
(*                of another epoch than the start certificate              *)
(*   second loop: verify_with_cache_enabled                                *)
(*        Downloaded(c): cache hit on c.hash -> ToDownload(cached prev)    *)
(*                       else verify_without_cache(c)                      *)
(*        ToDownload(h): cache hit on h -> ToDownload(cached prev)         *)
(*                       else fetch (ANY answer, its hash is not compared  *)
(*                       with h) and verify_without_cache                  *)
(*   verify_without_cache(c): verify_certificate(c) (fetches the previous  *)
(*        certificate), then store (c.hash -> c.previous_hash) unless c is *)
(*        a genesis certificate.                                           *)
(* The aggregator is untrusted: ANY certificate or nothing at every fetch, *)
(* including the one for the start hash.  The cache starts empty or warm   *)
(* (filled by an honest verification).                                     *)
(***************************************************************************)
EXTENDS CertChain, Json, SequencesExt

CONSTANTS MaxAttempts,
          MaxJumps      \* bound on fetches answered with a certificate of another hash than asked (per attempt)

Shape3 == <<1, 2, 3>>
Shape4 == <<1, 2, 2, 3>>
Shape5 == <<1, 2, 2, 3, 4>>

VARIABLES mode, cur, want, start, cache, taint, pend, att, verdict, why, fF, fForged, fTaint, fJump, fHit, warm, jumps, hist
vars == <<mode, cur, want, start, cache, taint, pend, att, verdict, why, fF, fForged, fTaint, fJump, fHit, warm, jumps, hist>>
(* the history is not part of a state's identity: TLC keeps one history per distinct state *)
View == <<mode, cur, want, start, cache, taint, pend, att, verdict, why, fF, fForged, fTaint, fJump, fHit, warm, jumps>>

Depth    == N + 4
ValidTab == [c \in Universe |-> ValidFrom(Universe, c, Depth)]
Answers  == Universe \cup {Missing}
Owner(h) == CHOOSE p \in Owners(Universe, h) : TRUE

(* history (for GEN): attempts, each [start, serve, acc]; the open attempt is the last one *)
Note(p) == [hist EXCEPT ![Len(hist)].serve = Append(@, p)]

Init ==
    /\ mode = "idle" /\ cur = Missing /\ want = "" /\ start = Missing
    /\ warm \in {0} \cup 2..N          \* 0: cold cache; i: warmed by an honest verification of Honest(i)
    /\ cache = {HId(j) : j \in PathIdx(warm)} /\ taint = {} /\ pend = {}
    /\ att = 0 /\ verdict = "none" /\ why = {} /\ fF = FALSE /\ fForged = FALSE /\ fTaint = FALSE /\ fJump = FALSE /\ fHit = FALSE
    /\ jumps = 0 /\ hist = <<>>

Deviated == fF \/ fForged \/ fTaint \/ fJump

Finish(ok, fails, h) ==
    /\ mode' = "done" /\ cur' = Missing /\ want' = "" /\ att' = att + 1
    /\ verdict' = IF ok THEN "acc" ELSE "rej"
    /\ why' = IF Cardinality(fails) <= 1 THEN fails ELSE {"multi"}
    /\ pend' = {}
    /\ cache' = cache
    \* ghost: entries stored by an attempt that was rejected (or accepted only through a listed
    \* deviation) say "validated" about certificates whose chain never was
    /\ taint' = (IF ~ok \/ Deviated' THEN taint \cup pend ELSE taint)
    /\ hist' = [h EXCEPT ![Len(h)].acc = ok]
    /\ UNCHANGED <<start, warm, jumps>>

(* what the next attempt depends on: the cache only *)
Reset ==
    /\ mode = "done" /\ mode' = "idle" /\ start' = Missing /\ verdict' = "none" /\ why' = {}
    /\ fF' = FALSE /\ fForged' = FALSE /\ fTaint' = FALSE /\ fJump' = FALSE /\ fHit' = FALSE
    /\ jumps' = 0
    /\ UNCHANGED <<cur, want, cache, taint, pend, att, warm, hist>>

Begin ==
    /\ mode = "idle" /\ att < MaxAttempts
    /\ \E s \in Universe :
         /\ mode' = "p1" /\ cur' = s /\ start' = s /\ want' = ""
         /\ hist' = Append(hist, [start |-> s, serve |-> <<>>, acc |-> FALSE])
    /\ pend' = {}
    /\ UNCHANGED <<cache, taint, att, verdict, why, fF, fForged, fTaint, fJump, fHit, warm, jumps>>

(* verify_without_cache(cur) and what comes next: nextMode for a std certificate *)
Verify(nextMode(_)) ==
    IF cur.kind = "genesis"
    THEN /\ UNCHANGED <<fF, fForged, fTaint, fJump, fHit>>
         /\ Finish(GenesisOk(cur), GenesisFails(cur), hist)
    ELSE \E p \in Answers :
           IF StdOk(cur, p)
           THEN /\ cur' = p /\ mode' = nextMode(p) /\ want' = ""
                \* store_validated_certificate(cur.hash, cur.previous_hash); proposed fix: only
                \* when the served previous certificate hashes to its id
                /\ pend' = IF CacheSound /\ ~p.hashOk THEN pend ELSE pend \cup {cur.id}
                /\ cache' = IF CacheSound /\ ~p.hashOk THEN cache ELSE cache \cup {cur.id}
                /\ fF' = (fF \/ p.epoch > cur.epoch)
                /\ hist' = Note(p)
                /\ UNCHANGED <<start, taint, att, verdict, why, fForged, fTaint, fJump, fHit, warm, jumps>>
           ELSE /\ UNCHANGED <<fF, fForged, fTaint, fJump, fHit>>
                /\ Finish(FALSE, StdFails(cur, p), Note(p))

(* first loop *)
P1 == mode = "p1" /\ Verify(LAMBDA p : IF p.epoch # start.epoch THEN "p2d" ELSE "p1")

(* second loop, a downloaded certificate in hand *)
P2d ==
    /\ mode = "p2d"
    /\ IF cur.id \in cache /\ (CacheSound => cur.hashOk)
       THEN /\ mode' = "p2h" /\ want' = Owner(cur.id).prev /\ cur' = Missing
            /\ fForged' = (fForged \/ ~cur.hashOk)
            /\ fTaint' = (fTaint \/ cur.id \in taint) /\ fHit' = TRUE
            /\ UNCHANGED <<start, cache, taint, pend, att, verdict, why, fF, fJump, warm, jumps, hist>>
       ELSE Verify(LAMBDA p : "p2d")

(* second loop, only a hash in hand *)
P2h ==
    /\ mode = "p2h"
    /\ IF want \in cache
       THEN /\ want' = Owner(want).prev
            /\ fTaint' = (fTaint \/ want \in taint) /\ fHit' = TRUE
            /\ UNCHANGED <<mode, cur, start, cache, taint, pend, att, verdict, why, fF, fForged, fJump, warm, jumps, hist>>
       ELSE \E c \in {a \in Answers : a.id = want \/ a.kind = "missing" \/ jumps < MaxJumps} :
              IF c.kind = "missing" \/ (FetchedHashChecked /\ c.id # want)
              THEN UNCHANGED <<fF, fForged, fTaint, fJump, fHit>> /\ Finish(FALSE, {"fetch"}, Note(c))
              ELSE /\ mode' = "p2v" /\ cur' = c /\ want' = "" /\ hist' = Note(c)
                   /\ jumps' = IF c.id = want THEN jumps ELSE jumps + 1
                   /\ fJump' = (fJump \/ c.id # want)
                   /\ UNCHANGED <<start, cache, taint, pend, att, verdict, why, fF, fForged, fTaint, fHit, warm>>

(* the certificate fetched for a hash is verified whatever the cache says about its own hash *)
P2v == mode = "p2v" /\ Verify(LAMBDA p : "p2d")

Next == Begin \/ P1 \/ P2d \/ P2h \/ P2v \/ Reset
Spec == Init /\ [][Next]_vars

-----------------------------------------------------------------------------
(* accepted => the property's sentence; the only excuses are the listed known findings *)
ClientSound ==
    verdict = "acc" => \/ ValidTab[start]
                       \/ ~EpochOrderStrict /\ fF
                       \/ ~CacheSound /\ (fForged \/ fTaint)
                       \/ ~FetchedHashChecked /\ fJump

(* staleness witnesses (each must be VIOLATED in its own run while the finding is listed) *)
NoForgedHit  == ~(verdict = "acc" /\ fForged /\ ~fF /\ ~fTaint /\ ~ValidTab[start])
NoTaintedHit == ~(verdict = "acc" /\ fTaint /\ ~fF /\ ~fForged /\ ~ValidTab[start])
NoJumpAccept == ~(verdict = "acc" /\ fJump /\ ~fF /\ ~fForged /\ ~ValidTab[start])

-----------------------------------------------------------------------------
(* GEN: one session per finished attempt whose history is worth realising *)
AllServed == UNION {{hist[a].start} \cup {hist[a].serve[i] : i \in DOMAIN hist[a].serve} : a \in DOMAIN hist}
Real      == {c \in AllServed : c.kind # "missing"}
RECURSIVE TrueChain(_, _)
TrueChain(c, fuel) ==
    IF fuel = 0 \/ Owners(Universe, c.prev) = {} THEN {}
    ELSE LET p == Owner(c.prev) IN {p} \cup TrueChain(p, fuel - 1)
Listed == SetToSeq(HonestSet \cup Real \cup UNION {TrueChain(c, Depth) : c \in Real})
Pos(p) == IF p.kind = "missing" THEN 0 ELSE CHOOSE i \in DOMAIN Listed : Listed[i] = p
GenCase ==
    [certs |-> Listed, warm |-> IF warm = 0 THEN <<>> ELSE <<Pos(Honest(warm))>>,
     attempts |-> [a \in DOMAIN hist |->
                     [start |-> Pos(hist[a].start),
                      serve |-> [i \in DOMAIN hist[a].serve |-> Pos(hist[a].serve[i])],
                      impl |-> hist[a].acc]],
     valid |-> ValidTab[start],
     cls |-> <<IF verdict = "acc" THEN "accept" ELSE "reject",
               IF fF THEN "following" ELSE "-", IF fForged THEN "forgedHit" ELSE "-",
               IF fTaint THEN "taintedHit" ELSE "-">> \o SetToSeq(why) \o (IF fJump THEN <<"jump">> ELSE <<>>)]
GenPrint ==
    (mode = "done" /\ (verdict = "acc" \/ (why # {"multi"} /\ (att = 1 \/ fHit))))
        => PrintT(<<"CASE", ToJson(GenCase)>>)
=============================================================================
