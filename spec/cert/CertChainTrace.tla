--------------------------- MODULE CertChainTrace ---------------------------
(***************************************************************************)
(* Contract trace spec for C03: accepts or rejects traces recorded from    *)
(* the real certificate verifiers.                                         *)
(*                                                                         *)
(* Event  VerifyChain  path certs start accepted ...                       *)
(*   path      "common"  MithrilCertificateVerifier::verify_certificate_chain *)
(*             "client" / "client-nocache"  CertificateClient::verify_chain   *)
(*   certs     the abstract projection of EVERY real certificate the       *)
(*             verifier could have seen in this run (for the client: in    *)
(*             the whole session so far, cached ones included), each       *)
(*             recomputed by the harness from the real value:              *)
(*             [id, prev, epoch, kind, avk, params, msgEpoch, nextAvk,     *)
(*              nextParams, hashOk, signedMsgOk, sigBy, genSigOk]          *)
(*             (sigBy = avk iff the multi-signature really verifies for    *)
(*              the stored signed message under the certificate's own      *)
(*              aggregate key and parameters)                              *)
(*   start     index in certs of the certificate the verifier was asked    *)
(*             about / returned                                            *)
(*   accepted  the verifier's verdict                                      *)
(* Contract (the property, one-directional): accepted => ValidChain.       *)
(* ValidChain is the operator of CertChain.tla (single definition).        *)
(***************************************************************************)
EXTENDS Naturals, Sequences, FiniteSets, TLC, Json, IOUtils

Rec   == ndJsonDeserialize(IOEnv.TRACE)
Known == ndJsonDeserialize(IOEnv.KNOWN)

(* only ValidFrom is used; the universe constants of CertChain are irrelevant here *)
C == INSTANCE CertChain WITH Shape <- <<1, 2>>, EpochOrderStrict <- TRUE, CacheSound <- TRUE, FetchedHashChecked <- TRUE,
        MaxAlter <- 1, TamperFields <- {}, MsgModes <- {}, Twins <- FALSE, ForgeEpochs <- {}, Forge2Pars <- {}, ForgeKeys <- {}, ForgePars <- {}, ForgeNextAvk <- {},
        ForgeNextPars <- {}, ForgeLevels <- 1

VARIABLE l
tvars == <<l>>
E == Rec[l]
IsEvent(name) == l <= Len(Rec) /\ Rec[l].ev = name /\ Rec[l].seq = l /\ l' = l + 1

TraceInit == l = 1

-----------------------------------------------------------------------------
Fields == {"id", "prev", "epoch", "kind", "avk", "params", "msgEpoch", "nextAvk", "nextParams",
           "hashOk", "signedMsgOk", "sigBy", "genSigOk"}
Proj(c) == [f \in Fields |-> c[f]]
CertSet(e) == {Proj(e.certs[i]) : i \in DOMAIN e.certs}

ValidChain(e) ==
    /\ e.start \in DOMAIN e.certs
    /\ C!ValidFrom(CertSet(e), Proj(e.certs[e.start]), Len(e.certs) + 1)

Explained(e) == e.ev = "VerifyChain" /\ (e.accepted => ValidChain(e))

TVerifyChain ==
    /\ IsEvent("VerifyChain")
    /\ Explained(E)

-----------------------------------------------------------------------------
MatchesKnown(e, k) == \A f \in DOMAIN k.match : f \in DOMAIN e /\ e[f] = k.match[f]
(* a listed known finding excuses an event only if the contract does not explain it *)
TKnown ==
    /\ l <= Len(Rec) /\ Rec[l].seq = l
    /\ ~Explained(Rec[l])
    /\ \E i \in DOMAIN Known :
          /\ MatchesKnown(Rec[l], Known[i])
          /\ PrintT(<<"KNOWN-USED", ToJson([id |-> Known[i].id, seq |-> l])>>)
    /\ l' = l + 1

TraceNext == TVerifyChain \/ TKnown
TraceSpec == TraceInit /\ [][TraceNext]_tvars

TraceAccepted ==
    LET d == TLCGet("stats").diameter - 1 IN
    /\ PrintT(<<"TRACE-RESULT",
                ToJson([matched |-> d, total |-> Len(Rec),
                        first_unmatched |-> IF d < Len(Rec) THEN Rec[d + 1] ELSE [ev |-> "none"]])>>)
    /\ d = Len(Rec)
=============================================================================
