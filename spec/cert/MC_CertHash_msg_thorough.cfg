CONSTANTS
    EntityDiscriminantHashed = FALSE
    Mode = "msg"
    MsgAlphabet = {"c", "a", "0"}
    MaxParts = 2
    MaxLen = 2
    KeyLikeValues = FALSE
SPECIFICATION Spec
INVARIANTS MsgInjectiveInv GenPrint
CHECK_DEADLOCK FALSE
