CONSTANTS
    Shape <- Shape3
    EpochOrderStrict = FALSE
    CacheSound = FALSE
    FetchedHashChecked = FALSE
    MaxAlter = 2
    TamperFields = {"resign", "avk", "params", "nextAvk", "nextParams"}
    MsgModes = {"k", "r"}
    Twins = TRUE
    ForgeEpochs = {1, 2, 3, 4}
    Forge2Pars = {"p"}
    ForgeKeys = {"H3", "H4", "A"}
    ForgePars = {"p", "q"}
    ForgeNextAvk = {"H4", "A"}
    ForgeNextPars = {"p", "q"}
    ForgeLevels = 1
SPECIFICATION Spec
INVARIANTS ChainSound Terminates
CHECK_DEADLOCK FALSE
