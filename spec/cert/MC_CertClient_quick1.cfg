CONSTANTS
    Shape <- Shape3
    EpochOrderStrict = FALSE
    CacheSound = FALSE
    FetchedHashChecked = FALSE
    MaxAlter = 1
    TamperFields = {"resign", "prev", "nextAvk", "nextParams"}
    MsgModes = {"r"}
    Twins = TRUE
    ForgeEpochs = {2, 3, 4}
    Forge2Pars = {"q"}
    ForgeKeys = {"A", "H4"}
    ForgePars = {"q"}
    ForgeNextAvk = {"A"}
    ForgeNextPars = {"q"}
    ForgeLevels = 2
    MaxAttempts = 1
    MaxJumps = 1
SPECIFICATION Spec
VIEW View
INVARIANTS ClientSound GenPrint
CHECK_DEADLOCK FALSE
