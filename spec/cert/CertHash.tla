------------------------------ MODULE CertHash ------------------------------
(***************************************************************************)
(* Certificate hashing and wire fidelity (C04).                            *)
(*                                                                         *)
(* Transcribed from                                                        *)
(*   mithril-common/src/entities/certificate.rs   Certificate::try_compute_hash *)
(*   .../entities/certificate_metadata.rs  CertificateMetadata::compute_hash,   *)
(*                                         StakeDistributionParty::compute_hash *)
(*   .../entities/protocol_message.rs      ProtocolMessage::compute_hash (legacy)*)
(*   .../entities/signed_entity_type.rs    SignedEntityType::feed_hash           *)
(*   .../entities/protocol_parameters.rs   ProtocolParameters::compute_hash      *)
(*   .../messages/certificate.rs           Certificate <-> CertificateMessage    *)
(*                                                                         *)
(* Abstraction (DESIGN 3.5): SHA-256 is injective on its input, so a hash  *)
(* IS its input.  What is fed to a hasher is a flat sequence of symbols:   *)
(* a variable-length string contributes its characters one by one (so      *)
(* concatenation ambiguities between neighbours are visible), a fixed-size *)
(* item (a big-endian u64 / u16 / fixed-point number, the 64 hex digits of *)
(* a nested hash) is one atomic symbol.                                    *)
(***************************************************************************)
EXTENDS Naturals, Sequences, FiniteSets, TLC

CONSTANTS EntityDiscriminantHashed   \* FALSE: feed_hash as coded (TODO in the code); TRUE: every
                                     \* signed entity type feeds its discriminant

-----------------------------------------------------------------------------
(* symbols *)
U64(n)  == << <<"u64", n>> >>
U16(n)  == << <<"u16", n>> >>
Fix(n)  == << <<"u8f24", n>> >>
Sha(in) == << <<"sha256", in>> >>            \* hex::encode(hasher.finalize()): 64 digits, atomic
Chars(s) == s                                 \* a string: sequence of one-character strings

RECURSIVE Flat(_)
Flat(ss) == IF ss = <<>> THEN <<>> ELSE Head(ss) \o Flat(Tail(ss))

-----------------------------------------------------------------------------
(* ProtocolParameters::compute_hash: k, m, phi_f at fixed-point precision (U8F24) *)
(* phi = [fx, eps]: fx the fixed-point value, eps what is below the precision     *)
ParamsInput(p) == U64(p.k) \o U64(p.m) \o Fix(p.phi.fx)
ParamsEq(p, q) == p.k = q.k /\ p.m = q.m /\ p.phi.fx = q.phi.fx     \* PartialEq of ProtocolParameters

(* StakeDistributionParty::compute_hash *)
PartyInput(s) == Chars(s.party) \o U64(s.stake)

(* CertificateMetadata::compute_hash *)
MetaInput(md) ==
    Chars(md.network) \o Chars(md.version) \o Sha(ParamsInput(md.params))
    \o U64(md.initiated) \o U64(md.sealed)                     \* timestamp_nanos as i64 big-endian
    \o Flat([i \in DOMAIN md.signers |-> Sha(PartyInput(md.signers[i]))])

(* ProtocolMessage::compute_hash, legacy scheme: key || value in key order.  *)
(* pm: sequence of [key, val], key an index in KeyNames, ascending           *)
KeyNames == <<
    "snapshot_digest",
    "cardano_transactions_merkle_root",
    "cardano_blocks_transactions_merkle_root",
    "next_aggregate_verification_key",
    "next_protocol_parameters",
    "current_epoch",
    "latest_block_number",
    "cardano_blocks_transactions_block_number_offset",
    "cardano_stake_distribution_epoch",
    "cardano_stake_distribution_merkle_root",
    "cardano_database_merkle_root",
    "next_aggregate_verification_key_snark" >>
KeyChars == <<
    <<"s","n","a","p","s","h","o","t","_","d","i","g","e","s","t">>,
    <<"c","a","r","d","a","n","o","_","t","r","a","n","s","a","c","t","i","o","n","s","_","m","e","r","k","l","e","_","r","o","o","t">>,
    <<"c","a","r","d","a","n","o","_","b","l","o","c","k","s","_","t","r","a","n","s","a","c","t","i","o","n","s","_","m","e","r","k","l","e","_","r","o","o","t">>,
    <<"n","e","x","t","_","a","g","g","r","e","g","a","t","e","_","v","e","r","i","f","i","c","a","t","i","o","n","_","k","e","y">>,
    <<"n","e","x","t","_","p","r","o","t","o","c","o","l","_","p","a","r","a","m","e","t","e","r","s">>,
    <<"c","u","r","r","e","n","t","_","e","p","o","c","h">>,
    <<"l","a","t","e","s","t","_","b","l","o","c","k","_","n","u","m","b","e","r">>,
    <<"c","a","r","d","a","n","o","_","b","l","o","c","k","s","_","t","r","a","n","s","a","c","t","i","o","n","s","_","b","l","o","c","k","_","n","u","m","b","e","r","_","o","f","f","s","e","t">>,
    <<"c","a","r","d","a","n","o","_","s","t","a","k","e","_","d","i","s","t","r","i","b","u","t","i","o","n","_","e","p","o","c","h">>,
    <<"c","a","r","d","a","n","o","_","s","t","a","k","e","_","d","i","s","t","r","i","b","u","t","i","o","n","_","m","e","r","k","l","e","_","r","o","o","t">>,
    <<"c","a","r","d","a","n","o","_","d","a","t","a","b","a","s","e","_","m","e","r","k","l","e","_","r","o","o","t">>,
    <<"n","e","x","t","_","a","g","g","r","e","g","a","t","e","_","v","e","r","i","f","i","c","a","t","i","o","n","_","k","e","y","_","s","n","a","r","k">> >>

MsgInput(pm) == Flat([i \in DOMAIN pm |-> Chars(KeyChars[pm[i].key]) \o Chars(pm[i].val)])

(* SignedEntityType::feed_hash.  e = [kind, a, b, c]                          *)
EntityKinds == <<"MithrilStakeDistribution", "CardanoStakeDistribution", "CardanoDatabase",
                 "CardanoTransactions", "CardanoBlocksTransactions">>
EntityIndex(kind) == CHOOSE i \in DOMAIN EntityKinds : EntityKinds[i] = kind
EntityFeed(e) ==
    (IF EntityDiscriminantHashed \/ e.kind = "CardanoBlocksTransactions"
     THEN U16(EntityIndex(e.kind)) ELSE <<>>)
    \o (CASE e.kind \in {"MithrilStakeDistribution", "CardanoStakeDistribution"} -> U64(e.a)
          [] e.kind \in {"CardanoDatabase", "CardanoTransactions"} -> U64(e.a) \o U64(e.b)
          [] OTHER -> U64(e.a) \o U64(e.b) \o U64(e.c))

(* Certificate::try_compute_hash.  c.sig = [variant, val]: variant "genesis" | "multi";          *)
(* anc*: <<>> when absent, else the (non-empty) byte string                                      *)
HashInput(c) ==
    Chars(c.prev) \o U64(c.epoch) \o Sha(MetaInput(c.meta)) \o Sha(MsgInput(c.pm))
    \o Chars(c.signedMsg) \o Chars(c.avk)                       \* avk: its json-hex text
    \o (IF c.sig.variant = "multi" THEN EntityFeed(c.entity) ELSE <<>>)
    \o Chars(c.sig.val)                                         \* bytes-hex (genesis) / json-hex (multi)
    \o c.ancP \o c.ancV

-----------------------------------------------------------------------------
(* Certificate -> CertificateMessage -> Certificate (messages/certificate.rs) *)
ToMessage(c) ==
    [hash |-> HashInput(c), prev |-> c.prev, epoch |-> c.epoch,
     entity |-> IF c.sig.variant = "multi" THEN c.entity
                ELSE [kind |-> "MithrilStakeDistribution", a |-> c.epoch, b |-> 0, c |-> 0],
     meta |-> c.meta, pm |-> c.pm, signedMsg |-> c.signedMsg, avk |-> c.avk,
     ancP |-> c.ancP, ancV |-> c.ancV,
     multi |-> IF c.sig.variant = "multi" THEN c.sig.val ELSE <<>>,
     genesis |-> IF c.sig.variant = "genesis" THEN c.sig.val ELSE <<>>]
FromMessage(m) ==
    [prev |-> m.prev, epoch |-> m.epoch, meta |-> m.meta, pm |-> m.pm, signedMsg |-> m.signedMsg,
     avk |-> m.avk, entity |-> m.entity, ancP |-> m.ancP, ancV |-> m.ancV,
     sig |-> IF m.genesis = <<>> THEN [variant |-> "multi", val |-> m.multi]
             ELSE [variant |-> "genesis", val |-> m.genesis]]
(* JSON text is a faithful carrier of the message: field order, whitespace and the spelling of  *)
(* a number do not belong to the value (what the real serde_json does with them is for the      *)
(* harness to observe).                                                                         *)
RoundTrip(c) == FromMessage(ToMessage(c))

-----------------------------------------------------------------------------
(* The property (properties.jsonl C04), independent of the code.            *)

(* are two values of field f different (protocol parameters at fixed-point precision)? *)
Differs(f, v, w) == IF f = "params" THEN ~ParamsEq(v, w) ELSE v # w

Set(c, f, v) ==
    CASE f \in {"network", "version", "params", "initiated", "sealed", "signers"} ->
            [c EXCEPT !.meta = [c.meta EXCEPT ![f] = v]]
      [] OTHER -> [c EXCEPT ![f] = v]
Get(c, f) ==
    CASE f \in {"network", "version", "params", "initiated", "sealed", "signers"} -> c.meta[f]
      [] OTHER -> c[f]

TamperEvident(c, f, v) == Differs(f, Get(c, f), v) => HashInput(Set(c, f, v)) # HashInput(c)
WireFaithful(c) == /\ HashInput(RoundTrip(c)) = HashInput(c)
                   /\ RoundTrip(c).signedMsg = c.signedMsg
MsgInjective(pm1, pm2) == pm1 # pm2 => MsgInput(pm1) # MsgInput(pm2)
=============================================================================
