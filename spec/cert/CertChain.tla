----------------------------- MODULE CertChain ------------------------------
(***************************************************************************)
(* Certificate chain verification (C03).                                   *)
(*                                                                         *)
(* Implementation-shaped model of                                          *)
(*   mithril-common/src/certificate_chain/certificate_verifier.rs          *)
(*       MithrilCertificateVerifier::verify_certificate                    *)
(*       verify_genesis_certificate / verify_standard_certificate          *)
(*       CertificateVerifier::verify_certificate_chain (the walk)          *)
(*   mithril-common/src/entities/epoch.rs      Epoch::has_gap_with         *)
(*   mithril-client/src/certificate_client/verify.rs                       *)
(*       verify_chain, verify_without_cache, verify_with_cache_enabled     *)
(* and, independently of the code, the property: ValidChain.               *)
(*                                                                         *)
(* Abstraction (DESIGN 3.5).  A certificate is a record                    *)
(*   id, prev     its stored hash and previous hash (strings)              *)
(*   epoch, kind  kind = "genesis" | "std" (which signature variant)       *)
(*   avk, params  ids of the aggregate key / protocol parameters it carries*)
(*   msgEpoch, nextAvk, nextParams   the parts of its protocol message     *)
(*                (0 / "none" = part absent)                               *)
(*   hashOk       the stored hash is the hash of the content               *)
(*   signedMsgOk  the signed message is the digest of the protocol message *)
(*   sigBy        the key set that really produced the multi-signature on  *)
(*                the stored signed message ("none": nobody's signature)   *)
(*   genSigOk     the genesis signature verifies under the configured key  *)
(* Hashes are injective: at most one certificate with hashOk has a given   *)
(* id, and recomputing the hash of altered content gives a fresh id.  A    *)
(* multi-signature verifies under a key iff that key set produced it on    *)
(* that message.  Every key set signs whatever it is asked to (an honest   *)
(* set of a later epoch may collude): "sigBy" is unconstrained.            *)
(*                                                                         *)
(* Composite values have TWINS: values that agree with an honest value on  *)
(* a part and differ on another.  A twin is simply a distinct value (it is *)
(* NOT the committed key / the committed parameters):                      *)
(*   K/s   the aggregate key K with the same Merkle commitment and a       *)
(*         shrunken total stake.  Lotteries only get easier: what K's set  *)
(*         signed still verifies under K/s, and ONE genuine signer of K    *)
(*         can produce alone a multi-signature that verifies under K/s     *)
(*         (sigBy = K/s) -- and under nothing else.                        *)
(*   K/n   same Merkle root and total stake, another number of leaves:     *)
(*         nothing verifies under it.                                      *)
(*   P/k P/m P/f P/g   the parameters P with ONE of k, m, phi_f changed    *)
(*         (/g: phi_f changed beyond the 5th decimal only).                *)
(*                                                                         *)
(* The provider of certificates is untrusted: at every fetch it answers    *)
(* with ANY certificate of the universe or with nothing, independently of  *)
(* what it answered before.                                                *)
(***************************************************************************)
EXTENDS Naturals, Sequences, FiniteSets, TLC

CONSTANTS
    Shape,              \* epochs of the honest chain, Shape[1] = genesis; e.g. <<1,2,2,3>>
    EpochOrderStrict,   \* FALSE: Epoch::has_gap_with as coded (abs_diff > 1)
                        \* TRUE : a previous certificate of a later epoch is rejected (proposed fix)
    CacheSound,         \* FALSE: mithril-client verifier cache as coded
                        \* TRUE : proposed fix -- a link is stored only when the served previous
                        \*        certificate hashes to its id, and a downloaded certificate must
                        \*        hash to its id before a cache hit on it
    FetchedHashChecked, \* FALSE: mithril-client as coded -- the certificate fetched for the cached previous
                        \*        hash of a skipped certificate is not compared with the hash asked for
                        \* TRUE : proposed fix -- it must carry the hash that was asked for
    MaxAlter,           \* 1 or 2: field alterations per tampered certificate
    TamperFields,       \* subset of AllTamperFields used for tampering
    MsgModes,           \* subset of {"k", "d", "r"}: how a protocol-message change treats the signed message
    Twins,              \* TRUE: alterations also use the twins of the value being altered
    ForgeEpochs, ForgeKeys, ForgePars, ForgeNextAvk, ForgeNextPars,   \* domains of forged certificates
    Forge2Pars,         \* parameter ids used on the second forging level
    ForgeLevels         \* 1: forged certificates link to honest ones; 2: also to forged ones

N        == Len(Shape)
MaxEpoch == Shape[N]
Epochs   == 1..(MaxEpoch + 1)
Key(e)   == "H" \o ToString(e)                  \* the key set registered for epoch e
Par(e)   == IF e <= 2 THEN "p" ELSE "q"         \* protocol parameters change after epoch 2
Keys     == {Key(e) : e \in 2..(MaxEpoch + 1)} \cup {"A"}     \* "A": a set the adversary owns
Pars     == {"p", "q"}

(* twins of a key / of a parameter set (of a base value only) *)
AvkTwins(k)  == IF Twins /\ k \in Keys THEN {k \o "/s", k \o "/n"} ELSE {}
SignTwins(k) == IF Twins /\ k \in Keys THEN {k \o "/s"} ELSE {}       \* twins somebody can sign under
ParTwins(p)  == IF Twins /\ p \in Pars THEN {p \o "/k", p \o "/m", p \o "/f", p \o "/g"} ELSE {}

(* does a multi-signature made by s (on the stored signed message) verify under key k *)
Verifies(s, k) == s # "none" /\ (s = k \/ k = s \o "/s")

-----------------------------------------------------------------------------
(* The honest chain: every certificate links to the first certificate of  *)
(* its epoch, the first of an epoch to the first of the previous epoch.   *)
FirstOf(e)  == CHOOSE i \in 1..N : Shape[i] = e /\ \A j \in 1..(i - 1) : Shape[j] # e
PrevIdx(i)  == IF i = 1 THEN 0
               ELSE IF FirstOf(Shape[i]) = i THEN FirstOf(Shape[i] - 1) ELSE FirstOf(Shape[i])
HId(i)      == IF i = 0 THEN "" ELSE "h" \o ToString(i)
Honest(i)   ==
    [id |-> HId(i), prev |-> HId(PrevIdx(i)), epoch |-> Shape[i],
     kind |-> IF i = 1 THEN "genesis" ELSE "std",
     avk |-> IF i = 1 THEN Key(Shape[i] + 1) ELSE Key(Shape[i]), params |-> Par(Shape[i]),
     msgEpoch |-> Shape[i], nextAvk |-> Key(Shape[i] + 1), nextParams |-> Par(Shape[i] + 1),
     hashOk |-> TRUE, signedMsgOk |-> TRUE,
     sigBy |-> IF i = 1 THEN "none" ELSE Key(Shape[i]), genSigOk |-> (i = 1)]
HonestSet   == {Honest(i) : i \in 1..N}
HonestIds   == {HId(i) : i \in 1..N}

(* honest verification path from certificate i (what a warm cache holds) *)
RECURSIVE PathIdx(_)
PathIdx(i)  == IF i <= 1 THEN {} ELSE {i} \cup PathIdx(PrevIdx(i))

-----------------------------------------------------------------------------
(* Tampering: every single-field change an untrusted provider can make to *)
(* a certificate it holds.  [tag, c]: tag names the change (used to build *)
(* the fresh id when the hash is recomputed).                              *)
AllTamperFields == {"prev", "epoch", "avk", "params", "msgEpoch", "nextAvk", "nextParams",
                    "signedMsg", "sig", "resign", "kind", "genSig"}

(* a protocol-message part changes, and                                                       *)
(*   "k"  the signed message is kept (it no longer matches, the signature still covers it)    *)
(*   "d"  the signed message is recomputed (nobody signed the new one)                        *)
(*   "r"  recomputed and re-signed by the same key set (collusion / the provider's own set)   *)
MsgAlt(c, s) == [c EXCEPT !.signedMsgOk = (s # "k"), !.sigBy = IF s = "d" THEN "none" ELSE @]

Alter1(c) ==
    (IF "prev" \in TamperFields THEN
        {[tag |-> "prev=" \o v, c |-> [c EXCEPT !.prev = v]] :
            v \in (HonestIds \cup {"", "junk", c.id}) \ {c.prev}} ELSE {})
    \cup (IF "epoch" \in TamperFields THEN
        {[tag |-> "epoch=" \o ToString(v), c |-> [c EXCEPT !.epoch = v]] : v \in Epochs \ {c.epoch}} ELSE {})
    \cup (IF "avk" \in TamperFields THEN
        {[tag |-> "avk=" \o v, c |-> [c EXCEPT !.avk = v]] : v \in (Keys \cup AvkTwins(c.avk)) \ {c.avk}} ELSE {})
    \cup (IF "params" \in TamperFields THEN
        {[tag |-> "params=" \o v, c |-> [c EXCEPT !.params = v]] : v \in (Pars \cup ParTwins(c.params)) \ {c.params}} ELSE {})
    \cup (IF "msgEpoch" \in TamperFields THEN
        {[tag |-> "msgEpoch=" \o ToString(v) \o s, c |-> MsgAlt([c EXCEPT !.msgEpoch = v], s)] :
            v \in (0..(MaxEpoch + 1)) \ {c.msgEpoch}, s \in MsgModes} ELSE {})
    \cup (IF "nextAvk" \in TamperFields THEN
        {[tag |-> "nextAvk=" \o v \o s, c |-> MsgAlt([c EXCEPT !.nextAvk = v], s)] :
            v \in (Keys \cup {"none"} \cup AvkTwins(c.nextAvk)) \ {c.nextAvk}, s \in MsgModes} ELSE {})
    \cup (IF "nextParams" \in TamperFields THEN
        {[tag |-> "nextParams=" \o v \o s, c |-> MsgAlt([c EXCEPT !.nextParams = v], s)] :
            v \in (Pars \cup {"none"} \cup ParTwins(c.nextParams)) \ {c.nextParams}, s \in MsgModes} ELSE {})
    \cup (IF "signedMsg" \in TamperFields /\ c.signedMsgOk THEN
        {[tag |-> "signedMsg", c |-> [c EXCEPT !.signedMsgOk = FALSE, !.sigBy = "none"]]} ELSE {})
    \cup (IF "sig" \in TamperFields /\ c.kind = "std" THEN
        {[tag |-> "sig=" \o v, c |-> [c EXCEPT !.sigBy = v]] : v \in (Keys \cup {"none"}) \ {c.sigBy}} ELSE {})
    \cup (IF "resign" \in TamperFields /\ c.kind = "std" THEN     \* re-signed by another key set
        {[tag |-> "resign=" \o v, c |-> [c EXCEPT !.avk = v, !.sigBy = v]] : v \in (Keys \cup SignTwins(c.avk)) \ {c.avk}} ELSE {})
    \cup (IF "kind" \in TamperFields THEN
        \* the other signature variant: a multi-signature nobody made / somebody else's genesis signature
        {[tag |-> "kind", c |-> [c EXCEPT !.kind = IF @ = "genesis" THEN "std" ELSE "genesis",
                                          !.sigBy = "none", !.genSigOk = FALSE]]} ELSE {})
    \cup (IF "genSig" \in TamperFields /\ c.kind = "genesis" THEN
        {[tag |-> "genSig", c |-> [c EXCEPT !.genSigOk = ~@]]} ELSE {})

Alter2(c) == UNION {{[tag |-> a.tag \o "," \o b.tag, c |-> b.c] : b \in Alter1(a.c)} : a \in Alter1(c)}
Alters(c) == IF MaxAlter >= 2 THEN Alter1(c) \cup Alter2(c) ELSE Alter1(c)

(* the altered content under the old hash, and under its recomputed (fresh) hash *)
Tampered(c) ==
    UNION {{[a.c EXCEPT !.hashOk = FALSE, !.id = c.id],
            [a.c EXCEPT !.hashOk = TRUE, !.id = c.id \o "~" \o a.tag]} : a \in Alters(c)}
    \ {c}

(***************************************************************************)
(* Forged certificates: entirely made by the provider, self-consistent,   *)
(* really multi-signed by key set k (its own or a colluding one), free    *)
(* claims about epoch, parameters and what it commits to for the next     *)
(* epoch, linked to any id of `targets`.                                  *)
(***************************************************************************)
ForgedOver(targets, keys, pars, navks, npars) ==
    {[id |-> "f(" \o pv \o "," \o ToString(e) \o k \o pa \o na \o np \o ")", prev |-> pv, epoch |-> e,
      kind |-> "std", avk |-> k, params |-> pa, msgEpoch |-> e, nextAvk |-> na, nextParams |-> np,
      hashOk |-> TRUE, signedMsgOk |-> TRUE, sigBy |-> k, genSigOk |-> FALSE] :
        pv \in targets, e \in ForgeEpochs, k \in keys, pa \in pars, na \in navks, np \in npars}

(* a genesis certificate signed by somebody else's key *)
RogueGenesis == [Honest(1) EXCEPT !.id = "h1~rogue", !.genSigOk = FALSE, !.nextAvk = "A"]

TamperedAll == UNION {Tampered(h) : h \in HonestSet}

(***************************************************************************)
(* The other side of a twin: the honest certificate i is replaced by a     *)
(* variant that commits to a TWIN of the next key / next parameters        *)
(* (message changed, re-digested, re-signed by its own set, hash           *)
(* recomputed: Tampered(Honest(i)) has it under the id built below), and   *)
(* the next epoch's set issues on top of it a certificate that carries the *)
(* BASE value.  Everything is self-consistent and the variant chains to    *)
(* genesis; only "is the carried value the committed one" separates them.  *)
(***************************************************************************)
TwinTip(i, field, v) ==
    LET h == Honest(i)
        e == h.epoch + 1 IN
    [id |-> "tip(" \o h.id \o "," \o field \o "=" \o v \o ")",
     prev |-> h.id \o "~" \o field \o "=" \o v \o "r",
     epoch |-> e, kind |-> "std", avk |-> Key(e), params |-> Par(e), msgEpoch |-> e,
     nextAvk |-> "A", nextParams |-> "p", hashOk |-> TRUE, signedMsgOk |-> TRUE,
     sigBy |-> Key(e), genSigOk |-> FALSE]
TwinTips ==
    IF Twins /\ "r" \in MsgModes
    THEN UNION {{TwinTip(i, "nextAvk", v) : v \in AvkTwins(Honest(i).nextAvk)}
                \cup {TwinTip(i, "nextParams", v) : v \in ParTwins(Honest(i).nextParams)} : i \in 2..N}
    ELSE {}
Forged1     == ForgedOver(HonestIds \cup {RogueGenesis.id}, ForgeKeys, ForgePars, ForgeNextAvk, ForgeNextPars)
(* second level: the adversary's own key set on top of its own forged certificates *)
Forged2     == IF ForgeLevels >= 2
               THEN ForgedOver({g.id : g \in {f \in Forged1 : f.avk = "A" /\ f.nextAvk = "A"
                                                              /\ f.params \in Forge2Pars
                                                              /\ f.nextParams \in Forge2Pars}},
                               {"A"}, Forge2Pars, {"A"}, Forge2Pars)
               ELSE {}
Universe    == HonestSet \cup TamperedAll \cup {RogueGenesis} \cup Forged1 \cup Forged2 \cup TwinTips

Missing     == [Honest(1) EXCEPT !.id = "-", !.kind = "missing"]     \* "no such certificate"

-----------------------------------------------------------------------------
(* The code, clause by clause.                                              *)

(* Epoch::has_gap_with / verify_epoch_chaining *)
Diff(a, b) == IF a >= b THEN a - b ELSE b - a
HasGap(c, p) == IF EpochOrderStrict THEN ~(p.epoch = c.epoch \/ p.epoch + 1 = c.epoch)
                ELSE Diff(c.epoch, p.epoch) > 1

(* names of the clauses of verify_standard_certificate that fail for (c, p); p = Missing: the   *)
(* fetch of the previous certificate failed                                                     *)
StdFails(c, p) ==
    IF p.kind = "missing" THEN {"fetch"} ELSE
       (IF c.id = c.prev THEN {"loop"} ELSE {})                  \* verify_is_not_in_infinite_loop
    \cup (IF ~c.hashOk THEN {"hash"} ELSE {})                     \* verify_hash_matches_content
    \cup (IF ~c.signedMsgOk THEN {"signedMsg"} ELSE {})           \* ..._matches_hashed_protocol_message
    \cup (IF ~Verifies(c.sigBy, c.avk) THEN {"multiSig"} ELSE {}) \* verify_multi_signature (own avk, params)
    \cup (IF c.msgEpoch # c.epoch THEN {"msgEpoch"} ELSE {})      \* verify_epoch_matches_protocol_message
    \cup (IF HasGap(c, p) THEN {"gap"} ELSE {})                   \* verify_epoch_chaining
    \cup (IF p.id # c.prev THEN {"prevHash"} ELSE {})             \* previous hash = previous certificate hash
    \cup (IF (IF p.epoch = c.epoch THEN p.avk # c.avk ELSE p.nextAvk # c.avk)
          THEN {"avkChain"} ELSE {})                              \* verify_aggregate_verification_key_chaining
    \cup (IF (IF p.epoch = c.epoch THEN p.params # c.params ELSE p.nextParams # c.params)
          THEN {"parChain"} ELSE {})                              \* verify_protocol_parameters_chaining
StdOk(c, p) == StdFails(c, p) = {}

(* verify_genesis_certificate *)
GenesisFails(c) ==
       (IF ~c.hashOk THEN {"hash"} ELSE {})
    \cup (IF ~c.signedMsgOk THEN {"signedMsg"} ELSE {})
    \cup (IF ~c.genSigOk THEN {"genesisSig"} ELSE {})
    \cup (IF c.msgEpoch # c.epoch THEN {"msgEpoch"} ELSE {})
GenesisOk(c) == GenesisFails(c) = {}

-----------------------------------------------------------------------------
(* The property, independent of the code (properties.jsonl C03).            *)
SelfOk(c)    == c.hashOk /\ c.signedMsgOk /\ c.msgEpoch = c.epoch
LinkOk(c, p) == \/ p.epoch = c.epoch     /\ p.avk = c.avk     /\ p.params = c.params
                \/ p.epoch + 1 = c.epoch /\ p.nextAvk = c.avk /\ p.nextParams = c.params

(* the certificate that owns hash h, if the universe has it (hash injectivity: at most one) *)
Owners(U, h) == {p \in U : p.id = h /\ p.hashOk}

RECURSIVE ValidFrom(_, _, _)
ValidFrom(U, c, fuel) ==
    IF c.kind = "genesis" THEN SelfOk(c) /\ c.genSigOk
    ELSE /\ c.kind = "std" /\ fuel > 0
         /\ SelfOk(c) /\ Verifies(c.sigBy, c.avk)
         /\ \E p \in Owners(U, c.prev) : LinkOk(c, p) /\ ValidFrom(U, p, fuel - 1)
=============================================================================
