---------------------------- MODULE BeaconTrace ----------------------------
(***************************************************************************)
(* Contract trace spec for C17: accepts or rejects traces recorded from    *)
(* the real SignedEntityConfig.  It constrains only what the property      *)
(* states; the implementation-shaped functions of Beacon.tla are used only *)
(* to report SPEC-DRIFT (non fatal).                                       *)
(*                                                                         *)
(* Events (one JSON object per line, field seq = line number):             *)
(*  Config  kind ("tx"|"blk") sec step     a new (config, tip sequence)    *)
(*  Tip     tip out                        beacon selected for that tip    *)
(*  Pure    results                        the same (time point, config)   *)
(*                                         evaluated several ways          *)
(*  Big     le_margin mono whole boundary  u64-extreme inputs, relations   *)
(*                                         evaluated by the harness (u128) *)
(*  Panic   ...                            never accepted                  *)
(***************************************************************************)
EXTENDS Naturals, Sequences, TLC, Json, IOUtils

RangeLen == 15
INSTANCE Beacon WITH RangeLen <- 15, MaxTip <- 0, MaxSec <- 0, MaxStep <- 0,
                     MaxJump <- 0, MaxEpoch <- 0, Node <- {},
                     sec <- 0, step <- 0, epoch <- 0, imm <- 0, tip <- 0, seen <- <<>>

Rec   == ndJsonDeserialize(IOEnv.TRACE)
Known == ndJsonDeserialize(IOEnv.KNOWN)

VARIABLES l,        \* next line of the trace to explain
          cfg,      \* current config  [kind, sec, step]
          last      \* previous Tip event under this config, or <<>>

tvars == <<l, cfg, last>>

MatchesKnown(e, k) == \A f \in DOMAIN k.match : f \in DOMAIN e /\ e[f] = k.match[f]
IsEvent(name) == l <= Len(Rec) /\ Rec[l].ev = name /\ Rec[l].seq = l /\ l' = l + 1

TraceInit == l = 1 /\ cfg = [kind |-> "none", sec |-> 0, step |-> 0] /\ last = <<>>

TConfig ==
    /\ IsEvent("Config")
    /\ Rec[l].kind \in {"tx", "blk"}
    /\ cfg' = [kind |-> Rec[l].kind, sec |-> Rec[l].sec, step |-> Rec[l].step]
    /\ last' = <<>>

EffStep == IF cfg.kind = "tx" THEN TxAdjStep(cfg.step) ELSE BlkAdjStep(cfg.step)

(* the contract for one Tip observation *)
TipContract(e) ==
    LET margin == SatSub(e.tip, cfg.sec) IN
    /\ e.out <= margin
    /\ (cfg.kind = "tx" /\ margin >= EffStep) => (e.out + 1) % RangeLen = 0
    /\ last # <<>> =>
          /\ e.tip >= last.tip
          /\ e.out >= last.out
          /\ (cfg.kind = "blk" \/ SatSub(last.tip, cfg.sec) >= EffStep)
                => (e.out - last.out) % EffStep = 0

Predicted(e) == IF cfg.kind = "tx" THEN TxBeacon(e.tip, cfg.sec, cfg.step)
                                   ELSE BlkBeacon(e.tip, cfg.sec, cfg.step)

TTip ==
    /\ IsEvent("Tip")
    /\ cfg.kind # "none"
    /\ TipContract(Rec[l])
    /\ (Rec[l].out # Predicted(Rec[l])) =>
          PrintT(<<"DRIFT", ToJson([seq |-> l, predicted |-> Predicted(Rec[l])])>>)
    /\ last' = [tip |-> Rec[l].tip, out |-> Rec[l].out]
    /\ UNCHANGED cfg

TPure ==
    /\ IsEvent("Pure")
    /\ \A i, j \in DOMAIN Rec[l].results : Rec[l].results[i] = Rec[l].results[j]
    /\ UNCHANGED <<cfg, last>>

TBig ==
    /\ IsEvent("Big")
    /\ Rec[l].le_margin /\ Rec[l].mono /\ Rec[l].whole /\ Rec[l].boundary
    /\ UNCHANGED <<cfg, last>>

(* a listed known finding: consume the event and go on *)
TKnown ==
    /\ l <= Len(Rec) /\ Rec[l].seq = l
    /\ \E i \in DOMAIN Known :
          /\ MatchesKnown(Rec[l], Known[i])
          /\ PrintT(<<"KNOWN-USED", ToJson([id |-> Known[i].id, seq |-> l])>>)
    /\ l' = l + 1
    /\ UNCHANGED <<cfg, last>>

TraceNext == TConfig \/ TTip \/ TPure \/ TBig \/ TKnown
TraceSpec == TraceInit /\ [][TraceNext]_tvars

TraceAccepted ==
    LET d == TLCGet("stats").diameter - 1 IN
    /\ PrintT(<<"TRACE-RESULT",
                ToJson([matched |-> d, total |-> Len(Rec),
                        first_unmatched |-> IF d < Len(Rec) THEN Rec[d + 1] ELSE [ev |-> "none"]])>>)
    /\ d = Len(Rec)
=============================================================================
