CONSTANTS
    RangeLen = 15
    MaxTip = 200
    MaxSec = 40
    MaxStep = 50
    MaxJump = 4
    MaxEpoch = 1
    Node = {signer, aggregator}
SPECIFICATION Spec
INVARIANTS RespectsMargin TxOnRangeBoundary Agreement
PROPERTIES MonotoneProp WholeStepsProp
CHECK_DEADLOCK FALSE
