--------------------------- MODULE BeaconUnbounded ---------------------------
(***************************************************************************)
(* C17, unbounded: the arithmetic clauses of spec/beacon/Beacon.tla for    *)
(* ALL natural tips, security parameters, steps and tip advances, checked  *)
(* symbolically with Apalache (one state, no transitions: the four values  *)
(* are arbitrary naturals).  The definitions are the ones of Beacon.tla.   *)
(***************************************************************************)
EXTENDS Integers

CONSTANT
    \* @type: Int;
    RangeLen

VARIABLES
    \* @type: Int;
    tip,
    \* @type: Int;
    tip2,
    \* @type: Int;
    sec,
    \* @type: Int;
    step

SatSub(a, b) == IF a >= b THEN a - b ELSE 0
Max(a, b)    == IF a >= b THEN a ELSE b
Core(t, s, st) == LET adj == Max(st, 1) IN (SatSub(t, s) \div adj) * adj
TxAdjStep(st)  == Max((st \div RangeLen) * RangeLen, RangeLen)
BlkAdjStep(st) == Max(st, 1)
TxBeacon(t, s, st)  == SatSub(Core(t, s, TxAdjStep(st)), 1)
BlkBeacon(t, s, st) == Core(t, s, st)

ConstInit == RangeLen = 15

Init ==
    /\ tip \in Nat /\ tip2 \in Nat /\ sec \in Nat /\ step \in Nat
    /\ tip2 >= tip

Next == UNCHANGED <<tip, tip2, sec, step>>

RespectsMargin ==
    /\ TxBeacon(tip, sec, step) <= SatSub(tip, sec)
    /\ BlkBeacon(tip, sec, step) <= SatSub(tip, sec)

TxOnRangeBoundary ==
    SatSub(tip, sec) >= TxAdjStep(step) => (TxBeacon(tip, sec, step) + 1) % RangeLen = 0

Monotone ==
    /\ TxBeacon(tip2, sec, step) >= TxBeacon(tip, sec, step)
    /\ BlkBeacon(tip2, sec, step) >= BlkBeacon(tip, sec, step)

WholeSteps ==
    /\ (BlkBeacon(tip2, sec, step) - BlkBeacon(tip, sec, step)) % BlkAdjStep(step) = 0
    /\ SatSub(tip, sec) >= TxAdjStep(step) =>
          (TxBeacon(tip2, sec, step) - TxBeacon(tip, sec, step)) % TxAdjStep(step) = 0

Inv == RespectsMargin /\ TxOnRangeBoundary /\ Monotone /\ WholeSteps
=============================================================================
