CONSTANTS
    RangeLen = 15
    MaxTip = 100
    MaxSec = 20
    MaxStep = 35
    MaxJump = 3
    MaxEpoch = 1
    Node = {signer, aggregator}
SPECIFICATION Spec
INVARIANTS RespectsMargin TxOnRangeBoundary Agreement
PROPERTIES MonotoneProp WholeStepsProp
CHECK_DEADLOCK FALSE
