------------------------------- MODULE Beacon -------------------------------
(***************************************************************************)
(* Beacons to sign (property C17).                                         *)
(*                                                                         *)
(* Implementation-shaped model of                                          *)
(*   mithril-common/src/entities/signed_entity_config.rs                   *)
(*     SignedEntityConfig::time_point_to_signed_entity                     *)
(*     CardanoTransactionsSigningConfig::compute_block_number_to_be_signed *)
(*     CardanoBlocksTransactionsSigningConfig::compute_block_number_...    *)
(*     compute_block_number_to_be_signed (free function)                   *)
(* and of the environment that feeds it: a chain whose tip, immutable file *)
(* number and epoch only ever advance, observed by several nodes (signers  *)
(* and aggregator) that each derive the entities to sign from what they    *)
(* observe.                                                                *)
(***************************************************************************)
EXTENDS Naturals, Sequences

CONSTANTS
    RangeLen,       \* BlockRange::LENGTH (15 in the code)
    MaxTip,         \* bounds of the explored box
    MaxSec,
    MaxStep,
    MaxJump,        \* largest tip advance between two successive time points
    MaxEpoch,
    Node            \* nodes deriving entities from the same time point

VARIABLES
    sec, step,      \* the epoch's signing configuration (same for tx and blocks here)
    epoch, imm, tip,\* the time point (epoch, immutable file number, chain tip block number)
    seen            \* seen[n] = the entities node n derived for the current time point

vars == <<sec, step, epoch, imm, tip, seen>>

-----------------------------------------------------------------------------
(* u64 arithmetic as the code uses it: `-` on BlockNumber is saturating.    *)
SatSub(a, b) == IF a >= b THEN a - b ELSE 0
Max(a, b)    == IF a >= b THEN a ELSE b

(* free function compute_block_number_to_be_signed *)
Core(t, s, st) == LET adj == Max(st, 1) IN (SatSub(t, s) \div adj) * adj

(* BlockRange::from_block_number(step).start, floored at BlockRange::LENGTH *)
TxAdjStep(st)  == Max((st \div RangeLen) * RangeLen, RangeLen)
BlkAdjStep(st) == Max(st, 1)

TxBeacon(t, s, st)  == SatSub(Core(t, s, TxAdjStep(st)), 1)
BlkBeacon(t, s, st) == Core(t, s, st)

(* time_point_to_signed_entity for every discriminant; "Err" where the code  *)
(* returns an error (epoch.previous() at epoch 0).                           *)
Entities(e, i, t, s, st) ==
    [ MithrilStakeDistribution  |-> <<"MSD", e>>,
      CardanoStakeDistribution  |-> IF e = 0 THEN <<"Err">> ELSE <<"CSD", e - 1>>,
      CardanoDatabase           |-> <<"CDB", e, i>>,
      CardanoTransactions       |-> <<"CTX", e, TxBeacon(t, s, st)>>,
      CardanoBlocksTransactions |-> <<"CBT", e, BlkBeacon(t, s, st), s>> ]

-----------------------------------------------------------------------------
Init ==
    /\ sec  \in 0..MaxSec
    /\ step \in 0..MaxStep
    /\ epoch = 0 /\ imm = 0 /\ tip = 0
    /\ seen = [n \in Node |-> Entities(0, 0, 0, sec, step)]

(* The chain advances; every node recomputes from the new time point.       *)
Advance ==
    \E d \in 0..MaxJump, de \in 0..1, di \in 0..1 :
        /\ tip + d <= MaxTip
        /\ epoch + de <= MaxEpoch /\ imm + di <= MaxEpoch
        /\ tip' = tip + d /\ epoch' = epoch + de /\ imm' = imm + di
        /\ seen' = [n \in Node |-> Entities(epoch', imm', tip', sec, step)]
        /\ UNCHANGED <<sec, step>>

Next == Advance
Spec == Init /\ [][Next]_vars

-----------------------------------------------------------------------------
(* The property, clause by clause.                                          *)

TxOf(n)  == seen[n].CardanoTransactions[3]
BlkOf(n) == seen[n].CardanoBlocksTransactions[3]

(* at most the tip minus the security parameter, floored at zero            *)
RespectsMargin ==
    \A n \in Node : TxOf(n) <= SatSub(tip, sec) /\ BlkOf(n) <= SatSub(tip, sec)

(* transaction entity: once the first signing step lies behind the margin,  *)
(* the beacon is the last block of a complete block range                   *)
TxOnRangeBoundary ==
    \A n \in Node :
        SatSub(tip, sec) >= TxAdjStep(step) => (TxOf(n) + 1) % RangeLen = 0

(* signers and aggregator select the same beacon                            *)
Agreement == \A a, b \in Node : seen[a] = seen[b]

(* never decreases as the tip advances; moves only in whole signing steps   *)
Monotone ==
    \A n \in Node :
        /\ seen'[n].CardanoTransactions[3] >= TxOf(n)
        /\ seen'[n].CardanoBlocksTransactions[3] >= BlkOf(n)

WholeSteps ==
    \A n \in Node :
        /\ (seen'[n].CardanoBlocksTransactions[3] - BlkOf(n)) % BlkAdjStep(step) = 0
        /\ SatSub(tip, sec) >= TxAdjStep(step) =>
              (seen'[n].CardanoTransactions[3] - TxOf(n)) % TxAdjStep(step) = 0

MonotoneProp   == [][Monotone]_vars
WholeStepsProp == [][WholeSteps]_vars
=============================================================================
