------------------------------ MODULE StmTrace ------------------------------
(***************************************************************************)
(* Contract trace spec for C01 / C02: accepts or rejects traces recorded   *)
(* from the real mithril-stm verifier and clerk.                           *)
(*                                                                         *)
(* Events                                                                  *)
(*  Verify / BatchVerify  m k entries accepted route mut                   *)
(*      entries: the abstract projection of the (mutated) aggregate the    *)
(*      real verifier was given, recomputed by the harness from the real   *)
(*      value: [key, stakeOk, sigOwner, sigMsg, idx = <<ix, won>>...]      *)
(*      BatchVerify: the value was verified in a batch with an honest      *)
(*      aggregate.                                                         *)
(*  SignerSig   owner idx won verifies     an honest signer's signature    *)
(*  ClerkPair   m k base ext               the clerk on an input and on    *)
(*      the same input plus additional material; each side                 *)
(*      [input = <<[owner,msg,ok,idx,idxOk,extra]>>, res = [ok, verifies]] *)
(***************************************************************************)
EXTENDS Naturals, Sequences, FiniteSets, TLC, Json, IOUtils

Rec   == ndJsonDeserialize(IOEnv.TRACE)
Known == ndJsonDeserialize(IOEnv.KNOWN)

VARIABLE l
tvars == <<l>>
E == Rec[l]
IsEvent(name) == l <= Len(Rec) /\ Rec[l].ev = name /\ Rec[l].seq = l /\ l' = l + 1

TraceInit == l = 1

-----------------------------------------------------------------------------
(* C01: the acceptance rule, verbatim from the property                      *)
CellsOf(en) == {en.idx[i] : i \in DOMAIN en.idx}
AllIx(es)   == UNION {{c[1] : c \in CellsOf(es[i])} : i \in DOMAIN es}
RECURSIVE SumLen(_, _)
SumLen(es, i) == IF i > Len(es) THEN 0 ELSE Len(es[i].idx) + SumLen(es, i + 1)

AcceptRule(e) ==
    LET es == e.entries IN
    /\ Cardinality(AllIx(es)) >= e.k                      \* at least k distinct indices
    /\ SumLen(es, 1) = Cardinality(AllIx(es))             \* pairwise distinct
    /\ \A i \in DOMAIN es :
          /\ es[i].key # "x" /\ es[i].stakeOk             \* a committed (key, stake) pair
          /\ \A c \in CellsOf(es[i]) : c[1] < e.m /\ c[2] \* in [0, m) and genuinely won
          /\ es[i].sigOwner = es[i].key /\ es[i].sigMsg = "m"   \* valid signature bound to key

TVerify ==
    /\ IsEvent("Verify") \/ IsEvent("BatchVerify")
    /\ E.accepted = TRUE => AcceptRule(E)

-----------------------------------------------------------------------------
(* C02 *)
ValidItem(s) == s.ok /\ s.msg = "m" /\ s.idxOk
Covered(inp) == UNION {{inp[i].idx[j] : j \in DOMAIN inp[i].idx} :
                          i \in {n \in DOMAIN inp : ValidItem(inp[n])}}
Complete(side, k) ==
    Cardinality(Covered(side.input)) >= k => side.res.ok /\ side.res.verifies = TRUE

Strip(s) == [owner |-> s.owner, msg |-> s.msg, ok |-> s.ok, idx |-> s.idx, idxOk |-> s.idxOk]
NonExtra(inp) == SelectSeq(inp, LAMBDA s : ~s.extra)
WellFormedPair(e) ==
    \* ext is base plus additional material only
    /\ [i \in DOMAIN NonExtra(e.ext.input) |-> Strip(NonExtra(e.ext.input)[i])]
         = [i \in DOMAIN e.base.input |-> Strip(e.base.input[i])]
    /\ \A i \in DOMAIN e.ext.input :
          e.ext.input[i].extra =>
             \/ ~ValidItem(e.ext.input[i])
             \/ \E j \in DOMAIN e.base.input : Strip(e.base.input[j]) = Strip(e.ext.input[i])

TClerkPair ==
    /\ IsEvent("ClerkPair")
    /\ WellFormedPair(E)
    /\ Complete(E.base, E.k) /\ Complete(E.ext, E.k)
    /\ E.base.res.ok => /\ E.ext.res.ok                                   \* Monotone
                        /\ E.ext.res.verifies = E.base.res.verifies

TSignerSig ==
    /\ IsEvent("SignerSig")
    /\ E.verifies = TRUE

-----------------------------------------------------------------------------
MatchesKnown(e, k) == \A f \in DOMAIN k.match : f \in DOMAIN e /\ e[f] = k.match[f]
TKnown ==
    /\ l <= Len(Rec) /\ Rec[l].seq = l
    /\ \E i \in DOMAIN Known :
          /\ MatchesKnown(Rec[l], Known[i])
          /\ PrintT(<<"KNOWN-USED", ToJson([id |-> Known[i].id, seq |-> l])>>)
    /\ l' = l + 1

TraceNext == TVerify \/ TClerkPair \/ TSignerSig \/ TKnown
TraceSpec == TraceInit /\ [][TraceNext]_tvars

TraceAccepted ==
    LET d == TLCGet("stats").diameter - 1 IN
    /\ PrintT(<<"TRACE-RESULT",
                ToJson([matched |-> d, total |-> Len(Rec),
                        first_unmatched |-> IF d < Len(Rec) THEN Rec[d + 1] ELSE [ev |-> "none"]])>>)
    /\ d = Len(Rec)
=============================================================================
