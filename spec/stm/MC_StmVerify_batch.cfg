CONSTANTS
    p1 = p1
    p2 = p2
    p3 = p3
    Party = {p1, p2}
    Slot <- SlotDef
    M = 2
    K = 2
    IndexBoundStrict = TRUE
    ClerkMergesIdentical = TRUE
    MaxEntries = 1
    MaxIdx = 2
    BatchUniverse = TRUE
SPECIFICATION Spec
INVARIANTS Soundness
CHECK_DEADLOCK FALSE
