CONSTANTS
    p1 = p1
    p2 = p2
    p3 = p3
    Party = {p1, p2}
    Slot <- SlotDef
    M = 3
    K = 2
    IndexBoundStrict = TRUE
    ClerkMergesIdentical = TRUE
    MaxEntries = 2
    MaxIdx = 2
SPECIFICATION Spec
INVARIANTS Soundness GenPrint
CHECK_DEADLOCK FALSE
