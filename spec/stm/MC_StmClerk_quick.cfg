CONSTANTS
    p1 = p1
    p2 = p2
    p3 = p3
    Party = {p1, p2}
    Slot <- SlotDef
    M = 2
    K = 2
    IndexBoundStrict = TRUE
    ClerkMergesIdentical = TRUE
    MaxLen = 2
    MaxSigIdx = 2
SPECIFICATION Spec
INVARIANTS CompleteInv MonotoneInv
CHECK_DEADLOCK FALSE
