--------------------------- MODULE MC_StmVerify ---------------------------
(* C01: every aggregate an adversary can put on the wire (bounded), single and batched. *)
EXTENDS Stm

CONSTANTS p1, p2, p3
SlotDef == (p1 :> 1 @@ p2 :> 2 @@ p3 :> 3)

CONSTANTS MaxEntries, MaxIdx, BatchUniverse

VARIABLES es, pathOk, es2, pathOk2
vars == <<es, pathOk, es2, pathOk2>>

Aggs(ne, ni) == UNION {[1..n -> Entry(ni)] : n \in 0..ne}

(* the second batch member ranges over a reduced universe (one entry, one index) *)
Init ==
    /\ \E n \in 0..MaxEntries : es \in [1..n -> Entry(MaxIdx)]
    /\ pathOk \in BOOLEAN
    /\ IF BatchUniverse
       THEN (\E n \in 0..1 : es2 \in [1..n -> Entry(1)]) /\ pathOk2 \in BOOLEAN
       ELSE es2 = <<>> /\ pathOk2 = TRUE
Next == UNCHANGED vars
Spec == Init /\ [][Next]_vars

Soundness == VerifyImpl(es, pathOk) => AcceptRule(es)

BatchSoundness ==
    BatchUniverse =>
      (BatchVerifyImpl(<<[es |-> es, pathOk |-> pathOk], [es |-> es2, pathOk |-> pathOk2]>>)
          => AcceptRule(es) /\ AcceptRule(es2))

(* vacuity guards: the interesting cases exist in the universe *)
SomeAccepted == ~VerifyImpl(es, pathOk)          \* must be VIOLATED (used by a separate cfg)
=============================================================================
