---------------------------- MODULE MC_StmClerk ----------------------------
(* C02: the clerk on every sequence of signatures built from the honest ones by duplication,   *)
(* permutation, index-subset restriction, re-labelled indices, corruption and other messages.  *)
EXTENDS Stm

CONSTANTS p1, p2, p3
SlotDef == (p1 :> 1 @@ p2 :> 2 @@ p3 :> 3)

CONSTANTS MaxLen, MaxSigIdx

VARIABLES S,      \* the input handed to the clerk
          W,      \* W[p]: the indices p genuinely won for message "m"
          rank    \* order of the parties' signature values
vars == <<S, W, rank>>

IdxLists == UNION {[1..j -> IdxU] : j \in 1..MaxSigIdx}
Alphabet == [owner : Party, msg : Msgs, idx : IdxLists]

Full(a) == [owner |-> a.owner, msg |-> a.msg, ok |-> TRUE, idx |-> a.idx,
            idxOk |-> \A i \in DOMAIN a.idx : a.idx[i] \in W[a.owner] /\ a.idx[i] < M]
FullSeq(s) == [i \in DOMAIN s |-> Full(s[i])]

Init ==
    /\ W \in [Party -> SUBSET (0..(M - 1))]
    /\ rank \in {r \in [Party -> 1..Cardinality(Party)] : \A a, b \in Party : a # b => r[a] # r[b]}
    /\ \E n \in 0..MaxLen : S \in [1..n -> Alphabet]
Next == UNCHANGED vars
Spec == Init /\ [][Next]_vars

CompleteInv == Complete(rank, FullSeq(S))

(* S minus any set of positions holding "additional material": an invalid signature, or an    *)
(* exact copy of a signature that stays                                                        *)
Extra(F, keep, i) ==
    \/ ~ValidIn(F[i])
    \/ \E j \in keep : F[j] = F[i]
SubSeqOf(F, keep) ==
    LET RECURSIVE Build(_, _)
        Build(i, acc) == IF i > Len(F) THEN acc
                         ELSE Build(i + 1, IF i \in keep THEN Append(acc, F[i]) ELSE acc)
    IN Build(1, <<>>)
MonotoneInv ==
    LET F == FullSeq(S) IN
    \A keep \in SUBSET DOMAIN F :
        (\A i \in DOMAIN F \ keep : Extra(F, keep, i)) => Monotone(rank, SubSeqOf(F, keep), F)
=============================================================================
