----------------------------- MODULE MC_StmGen -----------------------------
(* GEN for C01: TLC enumerates the acceptable abstract aggregates and every aggregate one    *)
(* atomic change away from one of them (the decision boundary), each with the verdict        *)
(* predicted by the implementation-shaped model. The harness realises each with real keys    *)
(* and signatures.                                                                           *)
EXTENDS Stm, Json

CONSTANTS p1, p2, p3
SlotDef == (p1 :> 1 @@ p2 :> 2 @@ p3 :> 3)

CONSTANTS MaxEntries, MaxIdx

VARIABLES es, pathOk
vars == <<es, pathOk>>

GoodCell  == [ix : 0..(M - 1), won : {TRUE}]
GoodIdx   == UNION {[1..j -> GoodCell] : j \in 1..MaxIdx}
GoodEntry == {e \in [key : Party, stakeOk : {TRUE}, sigOwner : Party, sigMsg : {"m"}, idx : GoodIdx] :
                e.sigOwner = e.key}
Base      == UNION {[1..n -> GoodEntry] : n \in 1..MaxEntries}

(* every single-field change of one entry / one cell, plus structural changes *)
Variants(g) ==
    {g}
    \cup {[g EXCEPT ![i].key = k] : i \in DOMAIN g, k \in Keys}
    \cup {[g EXCEPT ![i].stakeOk = FALSE] : i \in DOMAIN g}
    \cup {[g EXCEPT ![i].sigOwner = o] : i \in DOMAIN g, o \in Owners}
    \cup {[g EXCEPT ![i].sigMsg = "m2"] : i \in DOMAIN g}
    \cup {[g EXCEPT ![i].idx[j].ix = x] : i \in DOMAIN g, j \in 1..MaxIdx, x \in IdxU}
    \cup {[g EXCEPT ![i].idx[j].won = FALSE] : i \in DOMAIN g, j \in 1..MaxIdx}
    \cup {[g EXCEPT ![i].idx = SubSeq(g[i].idx, 1, Len(g[i].idx) - 1)] : i \in DOMAIN g}
    \cup {SubSeq(g, 1, Len(g) - 1)}
    \cup {Append(g, g[i]) : i \in DOMAIN g}

WellFormed(v) == \A i \in DOMAIN v : DOMAIN v[i].idx = 1..Len(v[i].idx) /\
                    \A j \in DOMAIN v[i].idx : DOMAIN v[i].idx[j] = {"ix", "won"}

Init == /\ \E g \in Base : es \in {v \in Variants(g) : TRUE}
        /\ pathOk \in BOOLEAN
Next == UNCHANGED vars
Spec == Init /\ [][Next]_vars

GenPrint ==
    PrintT(<<"CASE", ToJson([M |-> M, K |-> K, es |-> es, pathOk |-> pathOk,
                             impl |-> VerifyImpl(es, pathOk), rule |-> AcceptRule(es)])>>)
(* the model agrees with the rule on every generated case *)
Soundness == VerifyImpl(es, pathOk) => AcceptRule(es)
=============================================================================
