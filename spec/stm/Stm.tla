-------------------------------- MODULE Stm ---------------------------------
(***************************************************************************)
(* Stake-based threshold multi-signatures: aggregate verification (C01)    *)
(* and the clerk's signature selection (C02).                              *)
(*                                                                         *)
(* Implementation-shaped model of                                          *)
(*   mithril-stm/src/proof_system/concatenation/proof.rs                   *)
(*       ConcatenationProof::preliminary_verify / verify / batch_verify    *)
(*   mithril-stm/src/proof_system/concatenation/single_signature.rs        *)
(*       check_indices                                                     *)
(*   mithril-stm/src/proof_system/concatenation/clerk.rs                   *)
(*       select_valid_signatures_for_k_indices                             *)
(*                                                                         *)
(* Abstraction (DESIGN 3.5): a BLS signature is identified by who made it  *)
(* and on which message; it verifies under a key iff that key's owner made *)
(* it on that message.  The random-coefficient aggregate check passes iff  *)
(* every member signature is valid.  Hashes are injective, so a Merkle     *)
(* batch path proves exactly the leaves that are committed (the path       *)
(* algorithm itself is the subject of MerkleBatch.tla / C09).  The lottery *)
(* outcome of (signature, index, claimed stake) is a boolean attached to   *)
(* each claimed index (C08 judges the lottery itself).                     *)
(***************************************************************************)
EXTENDS Integers, Sequences, FiniteSets, TLC

CONSTANTS
    Party,              \* registered parties; a party's key is the party itself
    M, K,               \* protocol parameters (phi_f lives in the lottery abstraction)
    IndexBoundStrict,   \* TRUE: check_indices rejects index >= m;  FALSE: only index > m (pre-fix)
    Slot                \* Slot[p]: position of party p's leaf in the registration Merkle tree

NoKey  == "x"                       \* a well-formed key that is not registered
Keys   == Party \cup {NoKey}
Junk   == "junk"                    \* bytes that are nobody's signature
Owners == Keys \cup {Junk}
Msgs   == {"m", "m2"}               \* "m" is the message being verified
IdxU   == 0..M                      \* index universe: M itself is claimable

(***************************************************************************)
(* An aggregate (what an adversary can put on the wire):                   *)
(*   entries : sequence of                                                 *)
(*       [key, stakeOk, sigOwner, sigMsg, idx]                             *)
(*     key      the verification key claimed in the entry                  *)
(*     stakeOk  the claimed stake equals the stake registered for key      *)
(*     sigOwner / sigMsg   who really produced the signature, on what      *)
(*     idx      sequence of [ix, won]: claimed lottery indices, each with  *)
(*              the true lottery outcome for (this signature, ix, claimed  *)
(*              stake)                                                     *)
(*   pathOk  : the Merkle batch path is the honest one for the claimed     *)
(*             leaves (FALSE: any other path)                              *)
(***************************************************************************)
IdxCell  == [ix : IdxU, won : BOOLEAN]
IdxSeqs(n) == UNION {[1..j -> IdxCell] : j \in 0..n}
Entry(n) == [key : Keys, stakeOk : BOOLEAN, sigOwner : Owners, sigMsg : Msgs, idx : IdxSeqs(n)]

Range(s) == {s[i] : i \in DOMAIN s}
RECURSIVE SumLen(_, _)
SumLen(es, i) == IF i > Len(es) THEN 0 ELSE Len(es[i].idx) + SumLen(es, i + 1)
AllIx(es) == UNION {{c.ix : c \in Range(e.idx)} : e \in Range(es)}

-----------------------------------------------------------------------------
(* The code, clause by clause.                                              *)

BoundOk(ix) == IF IndexBoundStrict THEN ix < M ELSE ix <= M

(* SingleSignatureForConcatenation::check_indices *)
CheckIndices(e) == \A c \in Range(e.idx) : BoundOk(c.ix) /\ c.won

SigValid(e) == e.sigOwner = e.key /\ e.sigMsg = "m" /\ e.key # Junk
LeafCommitted(e) == e.key \in Party /\ e.stakeOk

(* ConcatenationProof::preliminary_verify *)
Preliminary(es, pathOk) ==
    /\ \A e \in Range(es) : CheckIndices(e)
    /\ SumLen(es, 1) = Cardinality(AllIx(es))            \* nr_indices = unique_indices.len()
    /\ SumLen(es, 1) >= K
    /\ pathOk /\ \A e \in Range(es) : LeafCommitted(e)   \* batch path membership of the leaves
    /\ \A i, j \in DOMAIN es : i < j => Slot[es[i].key] < Slot[es[j].key]
            \* ... the i-th leaf is hashed at the i-th (sorted) position of the path, and the walk
            \* collapses to the single root only for pairwise distinct positions

(* ConcatenationProof::verify *)
VerifyImpl(es, pathOk) ==
    /\ Preliminary(es, pathOk)
    /\ \A e \in Range(es) : SigValid(e)                  \* BlsSignature::verify_aggregate

(* ConcatenationProof::batch_verify over a sequence of [es, pathOk] *)
BatchVerifyImpl(batch) ==
    /\ \A i \in DOMAIN batch : Preliminary(batch[i].es, batch[i].pathOk)
    /\ \A i \in DOMAIN batch : \A e \in Range(batch[i].es) : SigValid(e)   \* batch_verify_aggregates

-----------------------------------------------------------------------------
(* The property (C01), independent of the code.                             *)
AcceptRule(es) ==
    /\ Cardinality(AllIx(es)) >= K                                   \* >= k distinct indices ...
    /\ SumLen(es, 1) = Cardinality(AllIx(es))                        \* ... pairwise distinct
    /\ \A e \in Range(es) :
          /\ LeafCommitted(e)                                        \* committed (key, stake)
          /\ \A c \in Range(e.idx) : c.ix < M /\ c.won               \* in [0, m), genuinely won
          /\ SigValid(e)                                             \* valid signature bound to key

-----------------------------------------------------------------------------
(* C02: the clerk.  A single signature handed to the clerk:                 *)
(*   [owner, msg, idx, ok, idxOk]  owner's signature on msg carrying the    *)
(*   index list idx; ok = FALSE for corrupted signature bytes; idxOk = TRUE *)
(*   iff every listed index was genuinely won by owner (and is < M).  Its   *)
(*   identity for the code (Eq / Hash) is the signature value only, i.e.    *)
(*   (owner, msg, ok) -- NOT the index list.                                *)
(***************************************************************************)
CONSTANTS ClerkMergesIdentical   \* TRUE: post-fix clerk (identical signatures merged up front)

SigId(s) == <<s.owner, s.msg, s.ok>>
ValidIn(s) == s.ok /\ s.msg = "m" /\ s.idxOk  \* what `verify(..).is_err() => continue` keeps

(* sigma order: rank[owner]; smaller sigma wins a conflict *)
Smaller(rank, a, b) == rank[a.owner] < rank[b.owner]

(* --- scan phase: fold over the input ------------------------------------ *)
(* state: byIndex : index -> position in input (0 = free)                    *)
(*        removal : set of <<identity, index>>                               *)
ScanIndex(rank, S, st, pos, ix) ==
    LET cur == st.byIndex[ix] IN
    IF cur = 0
    THEN [st EXCEPT !.byIndex[ix] = pos]
    ELSE IF Smaller(rank, S[pos], S[cur])
         THEN [byIndex |-> [st.byIndex EXCEPT ![ix] = pos],
               removal |-> st.removal \cup {<<SigId(S[cur]), ix>>}]
         ELSE [st EXCEPT !.removal = st.removal \cup {<<SigId(S[pos]), ix>>}]

RECURSIVE ScanIdxs(_, _, _, _, _)
ScanIdxs(rank, S, st, pos, ixs) ==       \* ixs: sequence of indices of S[pos], in order
    IF ixs = <<>> THEN st
    ELSE ScanIdxs(rank, S, ScanIndex(rank, S, st, pos, Head(ixs)), pos, Tail(ixs))

RECURSIVE Scan(_, _, _, _)
Scan(rank, S, st, pos) ==
    IF pos > Len(S) THEN st
    ELSE IF ~ValidIn(S[pos]) THEN Scan(rank, S, st, pos + 1)
    ELSE Scan(rank, S, ScanIdxs(rank, S, st, pos, S[pos].idx), pos + 1)

(* --- dedup phase: walk byIndex in index order, take until k -------------- *)
Kept(S, st, pos) ==          \* indices of S[pos] after its removal list is applied
    SelectSeq(S[pos].idx, LAMBDA ix : <<SigId(S[pos]), ix>> \notin st.removal)

RECURSIVE Dedup(_, _, _, _, _)
Dedup(S, st, ix, taken, count) ==
    \* taken: sequence of [id, owner, idx]; returns [ok, out, count]
    IF count >= K /\ taken # <<>> THEN [ok |-> TRUE, out |-> taken, count |-> count]
    ELSE IF ix >= M + 1 THEN [ok |-> FALSE, out |-> taken, count |-> count]
    ELSE LET pos == st.byIndex[ix] IN
         IF pos = 0 \/ \E j \in DOMAIN taken : taken[j].id = SigId(S[pos])
         THEN Dedup(S, st, ix + 1, taken, count)
         ELSE LET kept == Kept(S, st, pos) IN
              Dedup(S, st, ix + 1,
                    Append(taken, [id |-> SigId(S[pos]), owner |-> S[pos].owner, idx |-> kept]),
                    count + Len(kept))

SortDedupSeq(s) ==           \* sorted sequence of the distinct elements of s
    LET set == Range(s) IN
    LET RECURSIVE Build(_, _)
        Build(rest, acc) == IF rest = {} THEN acc
                            ELSE LET mn == CHOOSE x \in rest : \A y \in rest : x <= y
                                 IN Build(rest \ {mn}, Append(acc, mn))
    IN Build(set, <<>>)

(* post-fix normalisation: valid signatures with equal identity are merged   *)
(* into one carrying the sorted union of their indices                       *)
RECURSIVE Merge(_, _, _)
Merge(S, pos, acc) ==
    IF pos > Len(S) THEN acc
    ELSE IF ~ValidIn(S[pos]) THEN Merge(S, pos + 1, acc)
    ELSE IF \E j \in DOMAIN acc : SigId(acc[j]) = SigId(S[pos])
         THEN LET j == CHOOSE j \in DOMAIN acc : SigId(acc[j]) = SigId(S[pos]) IN
              Merge(S, pos + 1, [acc EXCEPT ![j].idx = SortDedupSeq(acc[j].idx \o S[pos].idx)])
         ELSE Merge(S, pos + 1, Append(acc, [S[pos] EXCEPT !.idx = SortDedupSeq(S[pos].idx)]))

ClerkImpl(rank, S0) ==
    LET S  == IF ClerkMergesIdentical THEN Merge(S0, 1, <<>>) ELSE S0
        st == Scan(rank, S, [byIndex |-> [ix \in IdxU |-> 0], removal |-> {}], 1)
    IN Dedup(S, st, 0, <<>>, 0)

(* `unique_sigs.sort_unstable()` : the selected signatures ordered by signer slot *)
RECURSIVE SortBySlot(_)
SortBySlot(out) ==
    IF out = <<>> THEN <<>>
    ELSE LET j == CHOOSE j \in DOMAIN out : \A i \in DOMAIN out : Slot[out[j].owner] <= Slot[out[i].owner]
         IN <<out[j]>> \o SortBySlot(SelectSeq([i \in DOMAIN out |-> IF i = j THEN [out[i] EXCEPT !.idx = <<-1>>] ELSE out[i]],
                                                LAMBDA x : x.idx # <<-1>>))

(* the aggregate the clerk's output becomes (honest keys, honest path) *)
AsEntries(out0) ==
    LET out == SortBySlot(out0) IN
    [j \in DOMAIN out |->
        [key |-> out[j].owner, stakeOk |-> TRUE, sigOwner |-> out[j].owner, sigMsg |-> "m",
         idx |-> [i \in DOMAIN out[j].idx |-> [ix |-> out[j].idx[i], won |-> TRUE]]]]

ClerkVerifies(res) == res.ok /\ VerifyImpl(AsEntries(res.out), TRUE)

(* the property (C02) *)
Covered(S) == UNION {Range(S[i].idx) : i \in {j \in DOMAIN S : ValidIn(S[j])}}
Complete(rank, S) ==
    Cardinality(Covered(S)) >= K => ClerkVerifies(ClerkImpl(rank, S))
Monotone(rank, S, Sx) ==     \* Sx = S plus additional material
    ClerkImpl(rank, S).ok =>
        /\ ClerkImpl(rank, Sx).ok
        /\ ClerkVerifies(ClerkImpl(rank, Sx)) = ClerkVerifies(ClerkImpl(rank, S))
=============================================================================
