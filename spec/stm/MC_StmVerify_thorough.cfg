CONSTANTS
    p1 = p1
    p2 = p2
    p3 = p3
    Party = {p1, p2, p3}
    Slot <- SlotDef
    M = 2
    K = 2
    IndexBoundStrict = TRUE
    ClerkMergesIdentical = TRUE
    MaxEntries = 2
    MaxIdx = 2
    BatchUniverse = FALSE
SPECIFICATION Spec
INVARIANTS Soundness
CHECK_DEADLOCK FALSE
