\* vacuity guard: NothingAccepted must be VIOLATED (the universe contains accepted registrations)
CONSTANTS
    Mode = "sweep"
    ColdS = {"A", "B"}
    IssuerS = {"A", "B"}
    KesVkS = {"A", "B"}
    ByKesS = {"A", "B"}
    OverVkS = {"A", "B"}
    VkS = {"A", "B"}
    HalfS = {"A", "B"}
    PartyS = {"A"}
    SignedS = {5}
    FullEvo = FALSE
    MaxLen = 0
    EvoCap = 63
    LastEvo = 63
    UMax = 200
    RoundKeyUnique = TRUE
    KesAliasPastLast = TRUE
    StakeOf <- StakeOfDef
    ExcuseRoundDup = FALSE
    ExcuseKesAlias = TRUE
SPECIFICATION Spec
INVARIANTS NothingAccepted
CHECK_DEADLOCK FALSE
