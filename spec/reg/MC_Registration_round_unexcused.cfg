\* without the excuse: the same key under two parties is reachable (C07-duplicate-key-across-round)
CONSTANTS
    Mode = "round"
    ColdS = {"A", "B"}
    IssuerS = {"A", "B", "none"}
    KesVkS = {"A", "B", "C"}
    ByKesS = {"A", "B", "C", "none"}
    OverVkS = {"A", "B", "nA"}
    VkS = {"A", "B", "nA"}
    HalfS = {"A", "B", "nA", "none"}
    PartyS = {"A", "B", "none"}
    SignedS = {5}
    FullEvo = FALSE
    MaxLen = 2
    EvoCap = 63
    LastEvo = 63
    UMax = 200
    RoundKeyUnique = FALSE
    KesAliasPastLast = TRUE
    StakeOf <- StakeOfDef
    ExcuseRoundDup = FALSE
    ExcuseKesAlias = TRUE
SPECIFICATION Spec
INVARIANTS RoundSound
CHECK_DEADLOCK FALSE
