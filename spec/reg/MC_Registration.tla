-------------------------- MODULE MC_Registration --------------------------
(***************************************************************************)
(* C07 model checking and case generation.                                 *)
(*                                                                         *)
(*  Mode "sweep"  every registration over the component universe           *)
(*                (every component from A, from B, or a third/corrupted    *)
(*                value) x KES evolution pairs x stake distributions x     *)
(*                "key already registered by nobody / same pool / other    *)
(*                pool".  Invariants: Soundness, StakeBound.               *)
(*  Mode "gen"    prints the decision boundary as CASE lines: all 2^9      *)
(*                A/B splices, all single and double alterations of the    *)
(*                honest and the re-keyed registrations, the evolution     *)
(*                sweep, the distribution / pre-registration sweep.        *)
(*  Mode "round"  the aggregator's registration round as a state machine   *)
(*                (fresh wrapper per request, insert-or-replace store);    *)
(*                invariant RoundSound; prints BEHAVIOUR lines.            *)
(***************************************************************************)
EXTENDS Registration, Json

CONSTANTS
    Mode,
    ColdS, IssuerS, KesVkS, ByKesS, OverVkS, VkS, HalfS, PartyS,   \* component universes (sweep)
    SignedS,            \* evolutions the KES signature is made at
    FullEvo,            \* TRUE: announced - signed in -3..3 and the points around EvoCap / UMax
    StakeOf,            \* stake of each pool when it is in the distribution
    ExcuseRoundDup,     \* KNOWN_FINDINGS C07-duplicate-key-across-round
    ExcuseKesAlias,     \* KNOWN_FINDINGS C07-kes-last-evolution-aliased
    MaxLen              \* round: number of requests per behaviour

StakeOfDef == [p \in {"A", "B", "C"} |-> IF p = "A" THEN 5 ELSE IF p = "B" THEN 7 ELSE 11]
StartOf == [p \in {"A", "B", "C"} |-> IF p = "A" THEN 100 ELSE IF p = "B" THEN 200 ELSE 300]
Dists == {[p \in S |-> StakeOf[p]] : S \in SUBSET {"A", "B"}}
Other(p) == IF p = "A" THEN "B" ELSE "A"

(* announced values paired with a signed evolution s *)
Announced(s) ==
    IF ~FullEvo THEN {s}
    ELSE {a \in (s - 3)..(s + 3) : a >= 0}
         \cup (IF s >= LastEvo - 2 THEN {EvoCap, EvoCap + 1, EvoCap + 2, EvoCap + 3} ELSE {})
         \cup (IF s = 0 \/ s = LastEvo THEN {UMax - 1, UMax} ELSE {})

NoSig == [byKes |-> "none", evo |-> -1, overVk |-> "none", overPop |-> FALSE]
Cert(cold, issuer, kesVk, sigOk) ==
    [issuer |-> issuer, kesVk |-> kesVk, sigOk |-> sigOk /\ issuer # "none", start |-> StartOf[cold]]

VARIABLES r, dist, registered, phase, store, hist
vars == <<r, dist, registered, phase, store, hist>>

Honest(p) ==
    [hasCert |-> TRUE, cold |-> p, opcert |-> Cert(p, p, p, TRUE),
     kesSig |-> [byKes |-> p, evo |-> 5, overVk |-> p, overPop |-> TRUE],
     vk |-> p, pop |-> [k1 |-> p, k2 |-> p],
     claimedParty |-> p, claimedStake |-> "none", hasEvo |-> TRUE, announcedEvo |-> 5]

-----------------------------------------------------------------------------
(* ---- Mode "sweep": two phases so that the workers share the enumeration ---- *)
SweepInit ==
    /\ phase = 0
    /\ \E cold \in ColdS, issuer \in IssuerS, kesVk \in KesVkS, sigOk \in BOOLEAN, hasCert \in BOOLEAN,
          party \in PartyS :
          /\ (issuer = "none" => ~sigOk)
          /\ (~hasCert => cold = CHOOSE c \in ColdS : TRUE) /\ (~hasCert => issuer = "none")
          /\ (~hasCert => kesVk = CHOOSE k \in KesVkS : TRUE)
          /\ r = [Honest("A") EXCEPT !.hasCert = hasCert,
                                     !.cold = IF hasCert THEN cold ELSE "none",
                                     !.opcert = IF hasCert THEN Cert(cold, issuer, kesVk, sigOk)
                                                ELSE [issuer |-> "none", kesVk |-> "none", sigOk |-> FALSE, start |-> 0],
                                     !.claimedParty = party]
    /\ dist \in Dists
    /\ registered = {} /\ store = <<>> /\ hist = <<>>

SweepNext ==
    /\ phase = 0 /\ phase' = 1
    /\ \E byKes \in ByKesS, overVk \in OverVkS, overPop \in BOOLEAN, vk \in VkS, k1 \in HalfS, k2 \in HalfS,
          s \in SignedS, hasEvo \in BOOLEAN, pre \in {"nobody", "key", "otherkey"} :
          /\ (byKes = "none" => overVk = CHOOSE x \in OverVkS : TRUE) /\ (byKes = "none" => ~overPop)
          /\ (byKes = "none" => s = CHOOSE x \in SignedS : TRUE)
          /\ \E a \in Announced(s) :
                /\ (~hasEvo => a = s)
                /\ r' = [r EXCEPT !.kesSig = IF byKes = "none" THEN NoSig
                                             ELSE [byKes |-> byKes, evo |-> s, overVk |-> overVk, overPop |-> overPop],
                                  !.vk = vk, !.pop = [k1 |-> k1, k2 |-> k2],
                                  !.hasEvo = hasEvo, !.announcedEvo = IF hasEvo THEN a ELSE 0]
                /\ registered' = CASE pre = "nobody" -> {} [] pre = "key" -> {vk}
                                   [] OTHER -> {CHOOSE x \in VkS : x # vk}
    /\ UNCHANGED <<dist, store, hist>>

(* the implementation accepts only what the property allows; the only excuse is a listed finding *)
Soundness ==
    phase = 1 =>
        LET res == RegisterImpl(r, dist, registered) IN
        res.ok => \/ AcceptRule(r, dist, registered)
                  \/ ExcuseKesAlias /\ KesAliasOnly(r, dist, registered)
StakeBound ==
    phase = 1 =>
        LET res == RegisterImpl(r, dist, registered) IN
        res.ok => StakeRule(r, dist, res.party, res.stake)
(* vacuity: must be VIOLATED somewhere (checked by a separate cfg / by coverage of accepted cases) *)
NothingAccepted == phase = 1 => ~RegisterImpl(r, dist, registered).ok

-----------------------------------------------------------------------------
(* ---- Mode "gen": the decision boundary ---- *)
Splice(f) ==
    [hasCert |-> TRUE, cold |-> f[1], opcert |-> Cert(f[1], f[2], f[3], TRUE),
     kesSig |-> [byKes |-> f[4], evo |-> 5, overVk |-> f[5], overPop |-> TRUE],
     vk |-> f[6], pop |-> [k1 |-> f[7], k2 |-> f[8]],
     claimedParty |-> f[9], claimedStake |-> "none", hasEvo |-> TRUE, announcedEvo |-> 5]
Splices == {Splice(f) : f \in [1..9 -> {"A", "B"}]}

ReKey(g, x) == [g EXCEPT !.vk = x, !.kesSig.overVk = x, !.pop = [k1 |-> x, k2 |-> x]]

Singles(g) ==
    {g}
    \cup {[g EXCEPT !.cold = x, !.opcert.start = StartOf[x]] : x \in {"A", "B"}}
    \cup {[g EXCEPT !.opcert.issuer = x, !.opcert.sigOk = (x # "none" /\ g.opcert.sigOk)] : x \in {"A", "B", "none"}}
    \cup {[g EXCEPT !.opcert.sigOk = FALSE]}
    \cup {[g EXCEPT !.opcert.kesVk = x] : x \in {"A", "B", "C"}}
    \cup (IF g.kesSig.byKes = "none" THEN {} ELSE
            {[g EXCEPT !.kesSig.byKes = x] : x \in {"A", "B", "C"}}
            \cup {[g EXCEPT !.kesSig = NoSig]}
            \cup {[g EXCEPT !.kesSig.overVk = x] : x \in {"A", "B", "nA"}}
            \cup {[g EXCEPT !.kesSig.overPop = FALSE]})
    \cup {[g EXCEPT !.vk = x] : x \in {"A", "B", "nA"}}
    \cup {[g EXCEPT !.pop.k1 = x] : x \in {"A", "B", "nA", "none"}}
    \cup {[g EXCEPT !.pop.k2 = x] : x \in {"A", "B", "nA", "none"}}
    \cup {[g EXCEPT !.claimedParty = x] : x \in {"A", "B", "none"}}
    \cup {[g EXCEPT !.hasCert = FALSE, !.cold = "none",
                    !.opcert = [issuer |-> "none", kesVk |-> "none", sigOk |-> FALSE, start |-> 0]]}
    \cup {[g EXCEPT !.hasEvo = FALSE, !.announcedEvo = 0]}
    \cup (IF g.kesSig.byKes = "none" THEN {} ELSE {ReKey(g, x) : x \in {"A", "B", "nA"}})
WellFormed(g) == g.hasCert \/ g.cold = "none"
Doubles(g) == UNION {{h2 \in Singles(h) : WellFormed(h2)} : h \in {h1 \in Singles(g) : h1.hasCert}} \cup Singles(g)

Bases == {Honest("A"), Honest("B")}
         \cup {ReKey(Honest(p), x) : p \in {"A", "B"}, x \in {"A", "B", "nA"}}

EvoAnnounced(s) ==
    {x \in 0..UMax : \/ x \in (s - 3)..(s + 3)
                     \/ s >= LastEvo - 2 /\ x \in EvoCap..(EvoCap + 3)
                     \/ (s = 0 \/ s = LastEvo) /\ x \in {UMax - 1, UMax}}
EvoVariants(g) ==
    UNION {{[g EXCEPT !.kesSig.evo = s, !.announcedEvo = a] : a \in EvoAnnounced(s)} :
              s \in {0, 1, 2, 30, LastEvo - 2, LastEvo - 1, LastEvo}}

BothIn == [p \in {"A", "B"} |-> StakeOf[p]]
GenCases ==
    {[reg |-> g, dist |-> BothIn, pre |-> "nobody", mut |-> "splice"] : g \in Splices}
    \cup {[reg |-> g, dist |-> BothIn, pre |-> "nobody", mut |-> "alter"] : g \in UNION {Doubles(b) : b \in Bases}}
    \cup {[reg |-> g, dist |-> BothIn, pre |-> "nobody", mut |-> "evo"] : g \in UNION {EvoVariants(b) : b \in Bases}}
    \cup {[reg |-> g, dist |-> d, pre |-> p, mut |-> "round-state"] :
            g \in UNION {Singles(b) : b \in Bases}, d \in Dists, p \in {"nobody", "same", "other"}}

(* the pre-registration of the key by `who` succeeds iff `who` is in the distribution *)
PreWho(c) == IF c.pre = "same" THEN (IF c.reg.cold \in {"A", "B"} THEN c.reg.cold ELSE "A")
             ELSE IF c.reg.cold = "A" THEN "B" ELSE "A"
PreRegistered(c) == IF c.pre # "nobody" /\ PreWho(c) \in DOMAIN c.dist THEN {c.reg.vk} ELSE {}

VARIABLE dummy
GenInit == dummy = 0 /\ r = Honest("A") /\ dist = BothIn /\ registered = {} /\ phase = 2 /\ store = <<>> /\ hist = <<>>

GenPrintAll ==
    \A c \in GenCases :
        LET res == RegisterImpl(c.reg, c.dist, PreRegistered(c)) IN
        PrintT(<<"CASE", ToJson([reg |-> c.reg, dist |-> c.dist, pre |-> c.pre, mut |-> c.mut,
                                 impl |-> res.ok, err |-> res.err,
                                 rule |-> AcceptRule(c.reg, c.dist, PreRegistered(c))])>>)
GenSound ==
    \A c \in GenCases :
        LET res == RegisterImpl(c.reg, c.dist, PreRegistered(c)) IN
        res.ok => \/ AcceptRule(c.reg, c.dist, PreRegistered(c)) /\ StakeRule(c.reg, c.dist, res.party, res.stake)
                  \/ ExcuseKesAlias /\ KesAliasOnly(c.reg, c.dist, PreRegistered(c))

-----------------------------------------------------------------------------
(* ---- Mode "round": the aggregator's registration round ---- *)
hA == Honest("A")
hB == Honest("B")
Shapes ==
    [honestA      |-> hA,
     honestB      |-> hB,
     BwithKeyOfA  |-> ReKey(hB, "A"),                     \* B signs A's public vk||pop with its own KES key
     AwithKeyOfB  |-> ReKey(hA, "B"),
     AnewKey      |-> ReKey(hA, "nA"),                    \* A registers again with another key
     AclaimsB     |-> [hA EXCEPT !.claimedParty = "B", !.claimedStake = "99"],
     BevoOff      |-> [hB EXCEPT !.announcedEvo = 7],
     BhalfPop     |-> [hB EXCEPT !.pop.k2 = "A"],
     AcertByB     |-> [hA EXCEPT !.opcert.issuer = "B"],
     BstolenSig   |-> [hB EXCEPT !.vk = "A", !.pop = [k1 |-> "A", k2 |-> "A"], !.kesSig.byKes = "A", !.kesSig.overVk = "A"]]
ShapeNames == DOMAIN Shapes

RoundInit ==
    /\ dist \in {d \in Dists : "A" \in DOMAIN d}
    /\ store = <<>> /\ hist = <<>>
    /\ r = hA /\ registered = {} /\ phase = 3

RoundNext ==
    /\ Len(hist) < MaxLen
    /\ \E n \in ShapeNames :
          LET q == Shapes[n]
              res == RoundImpl(q, dist, store) IN
          /\ store' = res.store
          /\ hist' = Append(hist, [shape |-> n, reg |-> q, before |-> store, res |-> res])
    /\ UNCHANGED <<r, dist, registered, phase>>

LastStep == hist[Len(hist)]
RoundSound ==
    Len(hist) > 0 =>
        \/ RoundRule(LastStep.reg, dist, LastStep.before, LastStep.res)
        \/ ExcuseRoundDup /\ RoundOnlyDup(LastStep.reg, dist, LastStep.before, LastStep.res)
(* what the duplicate leads to (informational, printed with the behaviour) *)
StoreSeq(st) == [p \in DOMAIN st |-> st[p]]
RoundPrint ==
    Len(hist) = MaxLen =>
        PrintT(<<"BEHAVIOUR", ToJson([dist |-> dist,
                 steps |-> [i \in 1..Len(hist) |->
                              [shape |-> hist[i].shape, reg |-> hist[i].reg, resp |-> hist[i].res.resp,
                               dupKey |-> ~BuilderOk(hist[i].res.store)]],
                 builderOk |-> BuilderOk(store)])>>)

-----------------------------------------------------------------------------
Init == CASE Mode = "sweep" -> SweepInit /\ dummy = 0
          [] Mode = "gen"   -> GenInit
          [] Mode = "round" -> RoundInit /\ dummy = 0
Next == CASE Mode = "sweep" -> SweepNext /\ UNCHANGED dummy
          [] Mode = "gen"   -> UNCHANGED <<vars, dummy>>
          [] Mode = "round" -> RoundNext /\ UNCHANGED dummy
Spec == Init /\ [][Next]_<<vars, dummy>>
=============================================================================
