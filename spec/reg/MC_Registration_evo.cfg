\* KES evolution window: announced - signed in -3..3 at 0, 1, 2, mid, 61..63, and around 64 / the maximum
CONSTANTS
    Mode = "sweep"
    ColdS = {"A", "B"}
    IssuerS = {"A", "B"}
    KesVkS = {"A", "B"}
    ByKesS = {"A", "B"}
    OverVkS = {"A", "B"}
    VkS = {"A", "B"}
    HalfS = {"A", "B"}
    PartyS = {"A"}
    SignedS = {0, 1, 2, 30, 61, 62, 63}
    FullEvo = TRUE
    MaxLen = 0
    EvoCap = 63
    LastEvo = 63
    UMax = 200
    RoundKeyUnique = TRUE
    KesAliasPastLast = TRUE
    StakeOf <- StakeOfDef
    ExcuseRoundDup = FALSE
    ExcuseKesAlias = TRUE
SPECIFICATION Spec
INVARIANTS Soundness StakeBound
CHECK_DEADLOCK FALSE
