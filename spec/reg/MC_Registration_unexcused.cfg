\* without the excuses the model has counterexamples (the two listed findings are needed, not stale)
CONSTANTS
    Mode = "sweep"
    ColdS = {"A", "B"}
    IssuerS = {"A", "B"}
    KesVkS = {"A", "B"}
    ByKesS = {"A", "B"}
    OverVkS = {"A", "B"}
    VkS = {"A", "B"}
    HalfS = {"A", "B"}
    PartyS = {"A"}
    SignedS = {62, 63}
    FullEvo = TRUE
    MaxLen = 0
    EvoCap = 63
    LastEvo = 63
    UMax = 200
    RoundKeyUnique = TRUE
    KesAliasPastLast = TRUE
    StakeOf <- StakeOfDef
    ExcuseRoundDup = FALSE
    ExcuseKesAlias = FALSE
SPECIFICATION Spec
INVARIANTS Soundness
CHECK_DEADLOCK FALSE
