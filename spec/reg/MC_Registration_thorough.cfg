\* full component universe x full evolution sweep
CONSTANTS
    Mode = "sweep"
    ColdS = {"A", "B"}
    IssuerS = {"A", "B", "none"}
    KesVkS = {"A", "B", "C"}
    ByKesS = {"A", "B", "C", "none"}
    OverVkS = {"A", "B", "nA"}
    VkS = {"A", "B", "nA"}
    HalfS = {"A", "B", "nA", "none"}
    PartyS = {"A", "B", "none"}
    SignedS = {0, 1, 30, 62, 63}
    FullEvo = TRUE
    MaxLen = 0
    EvoCap = 63
    LastEvo = 63
    UMax = 200
    RoundKeyUnique = TRUE
    KesAliasPastLast = TRUE
    StakeOf <- StakeOfDef
    ExcuseRoundDup = FALSE
    ExcuseKesAlias = TRUE
SPECIFICATION Spec
INVARIANTS Soundness StakeBound
CHECK_DEADLOCK FALSE
