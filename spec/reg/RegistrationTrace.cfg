CONSTANTS
    EvoCap = 63
    LastEvo = 63
    UMax = 200
    RoundKeyUnique = TRUE
    KesAliasPastLast = TRUE
SPECIFICATION TraceSpec
POSTCONDITION TraceAccepted
CHECK_DEADLOCK FALSE
