-------------------------- MODULE RegistrationTrace --------------------------
(***************************************************************************)
(* Contract trace spec for C07: accepts or rejects traces recorded from    *)
(* the real registration code.                                             *)
(*                                                                         *)
(* Events (reg = the abstract projection of the real registration,         *)
(* recomputed by the harness from the real bytes with independent          *)
(* oracles: who signed the certificate body, which KES key signed which    *)
(* bytes at which evolution, for which key each half of the proof of       *)
(* possession is valid, pool id = hash of the cold key)                    *)
(*                                                                         *)
(*  Open          dist                      a new ProtocolKeyRegistration  *)
(*  Register      reg accepted party state  ProtocolKeyRegistration::      *)
(*                                          register; state = the entries  *)
(*                                          of the real object afterwards  *)
(*                                          [[vk, stake], ...]             *)
(*  RoundOpen     dist                      aggregator: registration round *)
(*  RoundRegister reg resp store            SignerRegisterer::             *)
(*                                          register_signer; store = the   *)
(*                                          sqlite rows of the epoch       *)
(*                                          afterwards [[party,vk,stake]]  *)
(*  RoundClose    builder_ok                SignerBuilder::new over the    *)
(*                                          stored set (informational)     *)
(*  Undecodable                             mutated bytes with no decoding *)
(*                                                                         *)
(* The contract keeps its OWN state (dist, regState, store) and requires:  *)
(* whenever a request is accepted -- answered Ok, or the state changed --  *)
(* AcceptRule holds for it in that state, and the new state is the old one *)
(* plus exactly (key, stake of the distribution for the pool derived from  *)
(* the cold key).                                                          *)
(***************************************************************************)
EXTENDS Registration, Json, IOUtils

Rec   == ndJsonDeserialize(IOEnv.TRACE)
Known == ndJsonDeserialize(IOEnv.KNOWN)

VARIABLES l, dist, regState, store
tvars == <<l, dist, regState, store>>
E == Rec[l]
IsEvent(name) == l <= Len(Rec) /\ Rec[l].ev = name /\ Rec[l].seq = l /\ l' = l + 1

TraceInit == l = 1 /\ dist = [none |-> "0"] /\ regState = {} /\ store = <<>>

StateSet(s) == {<<s[i][1], s[i][2]>> : i \in DOMAIN s}
StoreFn(s) == [p \in {s[i][1] : i \in DOMAIN s} |->
                 LET i == CHOOSE j \in DOMAIN s : s[j][1] = p IN [vk |-> s[i][2], stake |-> s[i][3]]]
KeysOf(st) == {p[1] : p \in st}

-----------------------------------------------------------------------------
(* mithril-common level *)
TOpen ==
    /\ IsEvent("Open")
    /\ dist' = E.dist /\ regState' = {}
    /\ UNCHANGED store

WrapperAccepted(e) == e.accepted = TRUE \/ StateSet(e.state) # regState
WrapperEffect(e) ==
    /\ StateSet(e.state) = regState \cup {<<e.reg.vk, dist[e.reg.cold]>>}     \* stake from the distribution
    /\ e.accepted = TRUE => e.party = e.reg.cold                               \* party = pool of the cold key
TRegister ==
    /\ IsEvent("Register")
    /\ WrapperAccepted(E) => AcceptRule(E.reg, dist, KeysOf(regState)) /\ WrapperEffect(E)
    /\ regState' = StateSet(E.state)
    /\ UNCHANGED <<dist, store>>

-----------------------------------------------------------------------------
(* aggregator level *)
TRoundOpen ==
    /\ IsEvent("RoundOpen")
    /\ dist' = E.dist /\ store' = <<>>
    /\ UNCHANGED regState

Res(e) == [resp |-> e.resp, store |-> StoreFn(e.store)]
TRoundRegister ==
    /\ IsEvent("RoundRegister")
    /\ RoundRule(E.reg, dist, store, Res(E))
    /\ ~RoundAccepted(Res(E), store) => StoreFn(E.store) = store
    /\ store' = StoreFn(E.store)
    /\ UNCHANGED <<dist, regState>>

TInfo ==
    /\ IsEvent("RoundClose") \/ IsEvent("Undecodable")
    /\ UNCHANGED <<dist, regState, store>>

-----------------------------------------------------------------------------
(* listed known findings: the event matches a `match` record AND everything else the property *)
(* asks holds for it, so any other violation in the same event is still reported              *)
MatchesKnown(e, k) == \A f \in DOMAIN k.match : f \in DOMAIN e /\ e[f] = k.match[f]
IsDupEntry(k)   == "duplicate_key_across_round" \in DOMAIN k.match
IsAliasEntry(k) == "kes_last_evolution_aliased" \in DOMAIN k.match
HasBoth(e) == \E i, j \in DOMAIN Known : /\ IsDupEntry(Known[i]) /\ MatchesKnown(e, Known[i])
                                        /\ IsAliasEntry(Known[j]) /\ MatchesKnown(e, Known[j])
KnownGuard(e, k) ==
    CASE e.ev = "Register" ->
            /\ IsAliasEntry(k)
            /\ KesAliasOnly(e.reg, dist, KeysOf(regState))
            /\ WrapperEffect(e)
      [] e.ev = "RoundRegister" ->
            \/ IsDupEntry(k) /\ RoundOnlyDup(e.reg, dist, store, Res(e))
            \/ /\ IsAliasEntry(k)
               /\ KesAliasOnly(e.reg, dist, KeysOfOthers(store, e.reg.cold))
               /\ StoreEffect(e.reg, dist, store, Res(e))
            \/ /\ HasBoth(e)                      \* both listed findings in one request, nothing else
               /\ KesAliasOnly(e.reg, dist, {})
               /\ e.reg.vk \in KeysOfOthers(store, e.reg.cold)
               /\ StoreEffect(e.reg, dist, store, Res(e))
      [] OTHER -> FALSE
TKnown ==
    /\ l <= Len(Rec) /\ Rec[l].seq = l
    /\ \E i \in DOMAIN Known :
          /\ MatchesKnown(Rec[l], Known[i])
          /\ KnownGuard(Rec[l], Known[i])
          /\ PrintT(<<"KNOWN-USED", ToJson([id |-> Known[i].id, seq |-> l])>>)
    /\ l' = l + 1
    /\ regState' = IF Rec[l].ev = "Register" THEN StateSet(Rec[l].state) ELSE regState
    /\ store' = IF Rec[l].ev = "RoundRegister" THEN StoreFn(Rec[l].store) ELSE store
    /\ UNCHANGED dist

TraceNext == TOpen \/ TRegister \/ TRoundOpen \/ TRoundRegister \/ TInfo \/ TKnown
TraceSpec == TraceInit /\ [][TraceNext]_tvars

TraceAccepted ==
    LET d == TLCGet("stats").diameter - 1 IN
    /\ PrintT(<<"TRACE-RESULT",
                ToJson([matched |-> d, total |-> Len(Rec),
                        first_unmatched |-> IF d < Len(Rec) THEN Rec[d + 1] ELSE [ev |-> "none"]])>>)
    /\ d = Len(Rec)
=============================================================================
