---------------------------- MODULE Registration ----------------------------
(***************************************************************************)
(* C07 -- signer registration requires a genuine, pool-bound, stake-bound  *)
(* key.                                                                    *)
(*                                                                         *)
(* A registration is a record of COMPONENTS, EACH TAGGED WITH ITS ORIGIN   *)
(* (labels are names of byte identities: "A", "B", "C" the material of the *)
(* three pools, "nA" the negation of A's BLS key -- a different, valid key *)
(* --, "none" = belongs to nobody / verifies under nothing):               *)
(*                                                                         *)
(*   hasCert                 an operational certificate is attached        *)
(*   cold                    the cold verification key carried by it       *)
(*   opcert = [issuer        whose cold SECRET key made the signature      *)
(*             kesVk         whose KES verification key the body names     *)
(*             sigOk         the signature is one of THIS body             *)
(*             start]        start KES period named by the body            *)
(*   kesSig = [byKes         whose KES secret key made the KES signature   *)
(*             evo           at which evolution of that key                *)
(*             overVk        over which verification-key bytes             *)
(*             overPop]      ... followed by this registration's PoP bytes *)
(*   vk                      the BLS verification key registered           *)
(*   pop = [k1, k2]          for which key each half proves possession     *)
(*   claimedParty, claimedStake   what the registrant says about itself    *)
(*   hasEvo, announcedEvo    the announced number of KES evolutions        *)
(*                                                                         *)
(* Two layers:                                                             *)
(*   RegisterImpl / Round*   the implementation, clause by clause          *)
(*                           (KeyRegWrapper::register, KesVerifierStandard,*)
(*                           OpCert::validate, RegistrationEntry::new,     *)
(*                           KeyRegistration::register_by_entry; one level *)
(*                           up MithrilSignerRegistrationVerifier::verify  *)
(*                           and MithrilSignerRegistrationLeader::         *)
(*                           register_signer over the sqlite store)        *)
(*   AcceptRule, StakeRule   the property, independent of the code         *)
(***************************************************************************)
EXTENDS Naturals, Integers, FiniteSets, Sequences, TLC

CONSTANTS
    EvoCap,           \* upper clamp of the tried evolution: min(EvoCap, ...)            (64)
    LastEvo,          \* last evolution a Sum6 KES key can sign at                      (63)
    UMax,             \* stand-in for u64::MAX (saturating arithmetic)
    RoundKeyUnique,   \* TRUE: the round refuses a key another party already holds (fix b34c3480b)
    KesAliasPastLast  \* TRUE: the KES library's verify(period) takes the right-most leaf
                      \* for every period >= LastEvo (kes-summed-ed25519 0.2.1: no range
                      \* check, Sum0 ignores the period), so a signature made at LastEvo
                      \* also verifies "at" LastEvo+1 = EvoCap

Abs(x) == IF x < 0 THEN -x ELSE x
Min(a, b) == IF a < b THEN a ELSE b
Max(a, b) == IF a > b THEN a ELSE b

-----------------------------------------------------------------------------
(* THE PROPERTY (contract).  dist: function pool label -> stake; registered:  *)
(* set of verification keys already registered in the round.                  *)
CertByColdKey(r) == r.hasCert /\ r.opcert.sigOk /\ r.opcert.issuer = r.cold /\ r.cold # "none"
KeySignedByNamedKes(r) ==
    /\ r.kesSig.byKes # "none" /\ r.kesSig.byKes = r.opcert.kesVk     \* the KES key named in that certificate
    /\ r.kesSig.overVk = r.vk                                         \* ... signed THIS verification key
EvoWithinOne(r) == r.hasEvo /\ Abs(r.kesSig.evo - r.announcedEvo) <= 1
PopValid(r) == r.pop.k1 = r.vk /\ r.pop.k2 = r.vk
PoolInDist(r, dist) == r.cold \in DOMAIN dist

AcceptRuleButDup(r, dist) ==
    /\ CertByColdKey(r)
    /\ KeySignedByNamedKes(r)
    /\ EvoWithinOne(r)
    /\ PopValid(r)
    /\ PoolInDist(r, dist)
AcceptRule(r, dist, registered) == AcceptRuleButDup(r, dist) /\ r.vk \notin registered

(* the listed known finding C07-kes-last-evolution-aliased: everything holds except that the   *)
(* signature was made at the last evolution and the announced value is two periods later      *)
KesAliasOnly(r, dist, registered) ==
    /\ CertByColdKey(r) /\ KeySignedByNamedKes(r) /\ PopValid(r) /\ PoolInDist(r, dist)
    /\ r.vk \notin registered
    /\ r.hasEvo /\ r.kesSig.evo = LastEvo /\ r.announcedEvo = LastEvo + 2

(* the stake recorded is the distribution's value for the pool derived from the cold key *)
StakeRule(r, dist, party, stake) == party = r.cold /\ r.cold \in DOMAIN dist /\ stake = dist[r.cold]

-----------------------------------------------------------------------------
(* THE IMPLEMENTATION, clause by clause                                       *)

(* OpCert::validate: cold_vk.verify(body, cert_sig) with the cold key CARRIED BY the cert *)
OpCertValidateImpl(r) == r.opcert.sigOk /\ r.opcert.issuer = r.cold

(* kes_summed_ed25519 Sum6KesSig::verify(period, pk, msg) *)
KesLibVerify(r, t) ==
    /\ r.kesSig.byKes # "none" /\ r.kesSig.byKes = r.opcert.kesVk
    /\ r.kesSig.overVk = r.vk /\ r.kesSig.overPop          \* message = vk || pop of the request
    /\ \/ t = r.kesSig.evo
       \/ KesAliasPastLast /\ r.kesSig.evo = LastEvo /\ t >= LastEvo

(* KesVerifierStandard::verify *)
(* validate the certificate, then try announced-1 .. announced+1, clamped to [0, EvoCap]     *)
TryMin(a) == Max(0, IF a >= 1 THEN a - 1 ELSE 0)                    \* max(0, a.saturating_sub(1))
TryMax(a) == Min(EvoCap, IF a >= UMax THEN UMax ELSE a + 1)         \* min(64, a.saturating_add(1))
KesVerifyImpl(r) ==
    /\ OpCertValidateImpl(r)
    /\ \E t \in TryMin(r.announcedEvo) .. TryMax(r.announcedEvo) : KesLibVerify(r, t)

(* KeyRegWrapper::register on a wrapper holding `dist` and the keys `registered`.            *)
(* Result: [ok, party, stake, err]                                                           *)
Rej(e) == [ok |-> FALSE, party |-> "none", stake |-> 0, err |-> e]
RegisterImpl(r, dist, registered) ==
    IF ~r.hasCert THEN Rej("OpCertMissing")              \* feature allow_skip_signer_certification is off
    ELSE IF ~r.hasEvo THEN Rej("KesPeriodMissing")
    ELSE IF ~KesVerifyImpl(r) THEN Rej("KesSignatureInvalid")
    ELSE LET party == r.cold IN                          \* compute_protocol_party_id: hash of the cold key
         IF party \notin DOMAIN dist THEN Rej("PartyIdNonExisting")
         ELSE IF ~(r.pop.k1 = r.vk /\ r.pop.k2 = r.vk) THEN Rej("KeyInvalid")      \* RegistrationEntry::new
         ELSE IF r.vk \in registered THEN Rej("EntryAlreadyRegistered")            \* register_by_entry
         ELSE [ok |-> TRUE, party |-> party, stake |-> dist[party], err |-> "none"]

-----------------------------------------------------------------------------
(* ONE LEVEL UP: a registration ROUND of the aggregator.                      *)
(* store: function party -> [vk, stake]  (sqlite, keyed by (epoch, party))    *)
(* MithrilSignerRegistrationVerifier::verify builds a FRESH wrapper per call  *)
(* (registered = {}); register_signer then inserts-or-replaces the row and    *)
(* answers ExistingSigner when a row for the party was already there.         *)
(* RoundKeyUnique (fix b34c3480b): register_signer then refuses a key that another party of   *)
(* the round already holds; FALSE is the code before the fix.                                 *)
RoundImpl(r, dist, store) ==
    LET v == RegisterImpl(r, dist, {}) IN
    IF ~v.ok THEN [resp |-> "invalid", store |-> store, party |-> "none"]
    ELSE IF RoundKeyUnique /\ r.vk \in {store[p].vk : p \in DOMAIN store \ {v.party}}
    THEN [resp |-> "invalid", store |-> store, party |-> "none"]
    ELSE [resp  |-> IF v.party \in DOMAIN store THEN "existing" ELSE "ok",
          store |-> [p \in DOMAIN store \cup {v.party} |->
                        IF p = v.party THEN [vk |-> r.vk, stake |-> v.stake] ELSE store[p]],
          party |-> v.party]

(* round-level acceptance: the request was answered Ok or changed the store *)
RoundAccepted(res, store) == res.resp = "ok" \/ res.store # store
(* "not already registered" at the round level: no OTHER party holds the key (the same party  *)
(* sending the same key again leaves the store as it is and is answered ExistingSigner)       *)
KeysOfOthers(store, party) == {store[p].vk : p \in DOMAIN store \ {party}}
(* the rows afterwards: every other party's row as it was, the pool's own row = (this key, the  *)
(* distribution's stake for the pool derived from the cold key)                                *)
StoreEffect(r, dist, store, res) ==
    /\ DOMAIN store \subseteq DOMAIN res.store
    /\ \A p \in DOMAIN res.store :
          \/ p # r.cold /\ p \in DOMAIN store /\ res.store[p] = store[p]
          \/ p = r.cold /\ res.store[p] = [vk |-> r.vk, stake |-> dist[r.cold]]
RoundRule(r, dist, store, res) ==
    RoundAccepted(res, store) =>
        /\ AcceptRule(r, dist, KeysOfOthers(store, r.cold))
        /\ StoreEffect(r, dist, store, res)
(* the listed known finding: everything holds except that another party already holds the key *)
RoundOnlyDup(r, dist, store, res) ==
    /\ RoundAccepted(res, store)
    /\ AcceptRuleButDup(r, dist)
    /\ r.vk \in KeysOfOthers(store, r.cold)
    /\ StoreEffect(r, dist, store, res)

(* SignerBuilder::new over the stored set registers every row in one KeyRegistration *)
BuilderOk(store) == \A p, q \in DOMAIN store : p # q => store[p].vk # store[q].vk
=============================================================================
