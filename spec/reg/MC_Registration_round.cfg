\* the aggregator's registration round: every sequence of MaxLen requests over the shapes
CONSTANTS
    Mode = "round"
    ColdS = {"A", "B"}
    IssuerS = {"A", "B", "none"}
    KesVkS = {"A", "B", "C"}
    ByKesS = {"A", "B", "C", "none"}
    OverVkS = {"A", "B", "nA"}
    VkS = {"A", "B", "nA"}
    HalfS = {"A", "B", "nA", "none"}
    PartyS = {"A", "B", "none"}
    SignedS = {5}
    FullEvo = FALSE
    MaxLen = 3
    EvoCap = 63
    LastEvo = 63
    UMax = 200
    RoundKeyUnique = TRUE
    KesAliasPastLast = TRUE
    StakeOf <- StakeOfDef
    ExcuseRoundDup = FALSE
    ExcuseKesAlias = TRUE
SPECIFICATION Spec
INVARIANTS RoundSound RoundPrint
CHECK_DEADLOCK FALSE
