\* every component from A / from B / third-party or corrupted, one evolution pair
CONSTANTS
    Mode = "sweep"
    ColdS = {"A", "B"}
    IssuerS = {"A", "B", "none"}
    KesVkS = {"A", "B", "C"}
    ByKesS = {"A", "B", "C", "none"}
    OverVkS = {"A", "B", "nA"}
    VkS = {"A", "B", "nA"}
    HalfS = {"A", "B", "nA", "none"}
    PartyS = {"A", "B", "none"}
    SignedS = {5}
    FullEvo = FALSE
    MaxLen = 0
    EvoCap = 63
    LastEvo = 63
    UMax = 200
    RoundKeyUnique = TRUE
    KesAliasPastLast = TRUE
    StakeOf <- StakeOfDef
    ExcuseRoundDup = FALSE
    ExcuseKesAlias = TRUE
SPECIFICATION Spec
INVARIANTS Soundness StakeBound
CHECK_DEADLOCK FALSE
