CONSTANTS
    MAXU = 1048575
    BIG = 1024
    HI1 = 1025
    C0 = 4096
    CapPrealloc <- CapFromEnv
    CheckedAdd <- CheckedFromEnv
    Plan <- PlanQuick
SPECIFICATION Spec
INVARIANTS GenPrint
CHECK_DEADLOCK FALSE
