-------------------------------- MODULE Wire --------------------------------
(***************************************************************************)
(* C05 -- the legacy fixed layouts of mithril-stm as a grammar of           *)
(* length-prefixed fields, and every `from_bytes_legacy` as cursor          *)
(* arithmetic over naturals, written the way the Rust code writes it:       *)
(* which additions are plain `+` (panic on overflow with overflow checks),  *)
(* which are `checked_*` (error), where `Vec::with_capacity` takes a count  *)
(* read from the input, where a loop is bounded only by `get(..)` failing.  *)
(*                                                                          *)
(*   Aggregate = type(1) . Concat                                           *)
(*   Concat    = nSigs(8) . (size(8) . SigReg)* . BatchPath                 *)
(*   SigReg    = sizeReg(8) . Reg . sizeSig(8) . Sig                        *)
(*   Reg       = vk(96) . stake(8)                                          *)
(*   Sig       = nIdx(8) . idx(8)* . sigma(48) . signer(8)                  *)
(*   BatchPath = lenV(8) . lenI(8) . value(32)* . index(8)*                 *)
(*   BatchCommitment = nrLeaves(8) . root(..)   AVK = BatchCommitment . stake(8) *)
(*   MerkleTree = n(8) . node(32)*                                          *)
(*                                                                          *)
(* `usize` is scaled to MAXU (all comparisons are between "offset + length  *)
(* field" and a buffer of a few hundred bytes, so any MAXU far above the    *)
(* buffer preserves every branch); class `maxu-j` is realised as            *)
(* 2^64-1-j, `big` as 2^40, `hi1` as 2^56 (most significant byte 0x01: the  *)
(* CBOR version prefix when it starts a nested slice).                      *)
(*                                                                          *)
(* The dispatch layer (first byte 1 => CBOR else legacy, at every nesting   *)
(* level; ProtocolKey: JSON-hex then bytes-hex or the reverse) is modelled  *)
(* as dispatch only: the third-party parsers are not modelled.              *)
(***************************************************************************)
EXTENDS Integers, Sequences, FiniteSets, TLC

CONSTANTS MAXU,         \* usize::MAX, scaled
          BIG,          \* class "big"
          HI1,          \* class "hi1"
          C0,           \* additive constant of the allocation bound (1 MiB, scaled)
          CapPrealloc,  \* BOOLEAN -- pre-allocations are capped by what the input can hold
          CheckedAdd    \* BOOLEAN -- additions on length fields are checked

ASSUME /\ BIG < HI1 /\ HI1 < MAXU - 64
       /\ CapPrealloc \in BOOLEAN /\ CheckedAdd \in BOOLEAN

ISIZE     == MAXU \div 2          \* isize::MAX
ELEM      == 328                  \* size_of::<SingleSignatureWithRegisteredParty>()
ELEM_NODE == 24                   \* size_of::<Vec<u8>>()
HASH      == 32                   \* <D as Digest>::output_size()
SMALLV    == 3                    \* a stake / lottery index / signer index
JUNK      == BIG                  \* eight bytes read from inside a key, a hash or across fields

Max(a, b) == IF a > b THEN a ELSE b
Min(a, b) == IF a < b THEN a ELSE b

-----------------------------------------------------------------------------
(* Layouts: a sequence of items                                              *)
Fld(name, v)  == [t |-> "f",   name |-> name, v |-> v,      n |-> 8]   \* length / count field
Val8          == [t |-> "v",   name |-> "",   v |-> SMALLV, n |-> 8]   \* other u64
Bls(kind, n)  == [t |-> "bls", name |-> kind, v |-> 0,      n |-> n]   \* BLS key / signature
Raw(n)        == [t |-> "raw", name |-> "",   v |-> 0,      n |-> n]   \* hash bytes
TypeByte      == [t |-> "tb",  name |-> "",   v |-> 0,      n |-> 1]

SigLen(k) == 8 + 8 * k + 48 + 8
SigItems(nIdx, k) ==
    <<Fld(nIdx, k)>> \o [i \in 1..k |-> Val8] \o <<Bls("sigma", 48), Val8>>
SigRegItems(nReg, nSigSz, nIdx, k) ==
    <<Fld(nReg, 104), Bls("vk", 96), Val8, Fld(nSigSz, SigLen(k))>> \o SigItems(nIdx, k)
SizedSigReg(nSize, nReg, nSigSz, nIdx, k) ==
    <<Fld(nSize, 8 + 104 + 8 + SigLen(k))>> \o SigRegItems(nReg, nSigSz, nIdx, k)
PathItems(nv, ni) ==
    <<Fld("lenv", nv), Fld("leni", ni)>> \o [i \in 1..nv |-> Raw(HASH)] \o [i \in 1..ni |-> Val8]

Bases == [
  agg_k0    |-> [ty |-> "agg", name |-> "agg.k0",
                 items |-> <<TypeByte, Fld("nsigs", 0)>> \o PathItems(0, 0)],
  agg_k1    |-> [ty |-> "agg", name |-> "agg.k1",
                 items |-> <<TypeByte, Fld("nsigs", 1)>>
                           \o SizedSigReg("s1.size", "s1.size_reg", "s1.size_sig", "s1.nidx", 2)
                           \o PathItems(1, 2)],
  agg_k2    |-> [ty |-> "agg", name |-> "agg.k2",
                 items |-> <<TypeByte, Fld("nsigs", 2)>>
                           \o SizedSigReg("s1.size", "s1.size_reg", "s1.size_sig", "s1.nidx", 1)
                           \o SizedSigReg("s2.size", "s2.size_reg", "s2.size_sig", "s2.nidx", 2)
                           \o PathItems(1, 2)],
  sigreg_r2 |-> [ty |-> "sigreg", name |-> "sigreg.r2",
                 items |-> SigRegItems("size_reg", "size_sig", "nidx", 2)],
  sig_s2    |-> [ty |-> "sig", name |-> "sig.s2", items |-> SigItems("nidx", 2)],
  bpath_p12 |-> [ty |-> "bpath", name |-> "bpath.p12", items |-> PathItems(1, 2)],
  bcommit_c |-> [ty |-> "bcommit", name |-> "bcommit.c", items |-> <<Fld("nr_leaves", 2), Raw(HASH)>>],
  avk_a     |-> [ty |-> "avk", name |-> "avk.a", items |-> <<Fld("nr_leaves", 2), Raw(HASH), Val8>>],
  tree_t2   |-> [ty |-> "tree", name |-> "tree.t2",
                 items |-> <<Fld("n", 2), Raw(HASH), Raw(HASH), Raw(HASH)>>] ]

RECURSIVE OffOf(_, _)
OffOf(items, i) == IF i = 1 THEN 0 ELSE OffOf(items, i - 1) + items[i - 1].n
HLen(items)   == IF Len(items) = 0 THEN 0 ELSE OffOf(items, Len(items)) + items[Len(items)].n
FieldIdx(items) == {i \in DOMAIN items : items[i].t = "f"}
Bounds(items) == {OffOf(items, i) : i \in DOMAIN items} \cup {HLen(items)}

-----------------------------------------------------------------------------
(* Length classes                                                            *)
MaxuJ   == {0, 7, 8, 15, 16, 23, 24}
Classes == {[c |-> "minus1", j |-> 0], [c |-> "plus1", j |-> 0], [c |-> "zero", j |-> 0],
            [c |-> "big", j |-> 0], [c |-> "hi1", j |-> 0]}
           \cup {[c |-> "maxu", j |-> j] : j \in MaxuJ}
ClassVal(k, exact) ==
    CASE k.c = "minus1" -> exact - 1
      [] k.c = "plus1"  -> exact + 1
      [] k.c = "zero"   -> 0
      [] k.c = "big"    -> BIG
      [] k.c = "hi1"    -> HI1
      [] k.c = "maxu"   -> MAXU - k.j
ClassOk(k, exact) == /\ (k.c = "minus1" => exact > 0)
                     /\ (k.c = "zero" => exact # 0)
ClassName(k) == IF k.c = "maxu" THEN "maxu-" \o ToString(k.j) ELSE k.c

(* A mutation list: sequence of [i |-> item index, k |-> class]              *)
MutVal(items, muts, i) ==
    IF \E m \in DOMAIN muts : muts[m].i = i
    THEN ClassVal(muts[CHOOSE m \in DOMAIN muts : muts[m].i = i].k, items[i].v)
    ELSE items[i].v

(* The abstract buffer the decoders run on                                   *)
MkBuf(items, muts, cut) ==
    LET offs == [i \in DOMAIN items |-> OffOf(items, i)]
        u64s == {i \in DOMAIN items : items[i].t \in {"f", "v"}}
    IN [ len  |-> IF cut < 0 THEN HLen(items) ELSE cut,
         f    |-> [o \in {offs[i] : i \in u64s} |->
                      MutVal(items, muts, CHOOSE i \in u64s : offs[i] = o)],
         bls  |-> {<<offs[i], items[i].name>> : i \in {j \in DOMAIN items : items[j].t = "bls"}},
         tb   |-> {offs[i] : i \in {j \in DOMAIN items : items[j].t = "tb"}} ]

U64(buf, o)    == IF o \in DOMAIN buf.f THEN buf.f[o] ELSE JUNK
HiByte(v)      == IF v = HI1 THEN 1 ELSE IF v > HI1 THEN 255 ELSE 0
ByteAt(buf, o) == IF o \in DOMAIN buf.f THEN HiByte(buf.f[o])
                  ELSE IF o \in buf.tb THEN 0 ELSE 200   \* BLS flag byte, hash byte: never 1 here
BlsOk(buf, o, kind) == <<o, kind>> \in buf.bls
AllocCap(buf)  == 64 * buf.len + C0

View(o, n) == [o |-> o, n |-> n]
HasCbor(buf, v) == v.n > 0 /\ ByteAt(buf, v.o) = 1

-----------------------------------------------------------------------------
(* Results                                                                   *)
Res(st, site, val, alloc, it) == [st |-> st, site |-> site, val |-> val, alloc |-> alloc, it |-> it]
OkR(val)       == Res("ok", "", val, 0, 0)
ErrR(site)     == Res("err", site, <<>>, 0, 0)
PanicR(site)   == Res("panic", site, <<>>, 0, 0)
AbortR(site, a) == Res("abort", site, <<>>, a, 0)
WithIt(r, n)   == [r EXCEPT !.it = @ + n]
WithAlloc(r, a) == [r EXCEPT !.alloc = Max(@, a)]
Then(r, F(_))  == IF r.st # "ok" THEN r
                  ELSE LET q == F(r.val) IN WithAlloc(WithIt(q, r.it), r.alloc)
(* a plain `a + b` on usize: panics when it overflows unless the code checks *)
Ovf(site)      == IF CheckedAdd THEN ErrR(site) ELSE PanicR(site)
(* garbage handed to ciborium                                                *)
CborR          == ErrR("cbor")

-----------------------------------------------------------------------------
(* SingleSignature::from_bytes_legacy                                        *)
RECURSIVE IdxLoop(_, _, _)
IdxLoop(v, nr, i) ==            \* for i in 0..nr { bytes.get(8 + i*8 .. 16 + i*8)? }
    IF i = nr THEN [ok |-> TRUE, it |-> i]
    ELSE IF 16 + i * 8 > v.n THEN [ok |-> FALSE, it |-> i + 1]
    ELSE IdxLoop(v, nr, i + 1)

SigLegacy(buf, v) ==
    IF v.n < 8 THEN ErrR("sig.hdr") ELSE
    LET nr == U64(buf, v.o)
        lp == IdxLoop(v, nr, 0)
    IN IF ~lp.ok THEN WithIt(ErrR("sig.nr_indexes"), lp.it) ELSE
       LET off == 8 + nr * 8 IN
       WithIt(IF off + 48 > v.n THEN ErrR("sig.sigma")
              ELSE IF ~BlsOk(buf, v.o + off, "sigma") THEN ErrR("sig.sigma.bls")
              ELSE IF off + 56 > v.n THEN ErrR("sig.signer")
              ELSE OkR(<<"sig", nr, v.o + off>>), lp.it)
SigFromBytes(buf, v) == IF HasCbor(buf, v) THEN CborR ELSE SigLegacy(buf, v)

(* ClosedRegistrationEntry::from_bytes_legacy                                *)
RegLegacy(buf, v) ==
    IF v.n < 96 THEN ErrR("reg.vk")
    ELSE IF ~BlsOk(buf, v.o, "vk") THEN ErrR("reg.vk.bls")
    ELSE IF v.n < 104 THEN ErrR("reg.stake")
    ELSE OkR(<<"reg", v.o>>)
RegFromBytes(buf, v) == IF HasCbor(buf, v) THEN CborR ELSE RegLegacy(buf, v)

(* SingleSignatureWithRegisteredParty::from_bytes_legacy                     *)
SigRegLegacy(buf, v) ==
    IF v.n < 8 THEN ErrR("sigreg.hdr") ELSE
    LET sr == U64(buf, v.o)
        e1 == 8 + sr                                      \* `8 + size_reg_party`
    IN IF e1 > MAXU THEN Ovf("sigreg.size_reg_party")
       ELSE IF e1 > v.n THEN ErrR("sigreg.size_reg_party")
       ELSE Then(RegFromBytes(buf, View(v.o + 8, sr)), LAMBDA rv :
            IF e1 + 8 > v.n THEN ErrR("sigreg.size_sig.hdr") ELSE  \* `sig_offset + 8` <= len: no overflow
            LET ss == U64(buf, v.o + e1)
                e2 == e1 + 8 + ss                         \* `sig_offset + 8 + size_sig`
            IN IF e2 > MAXU THEN Ovf("sigreg.size_sig")
               ELSE IF e2 > v.n THEN ErrR("sigreg.size_sig")
               ELSE Then(SigFromBytes(buf, View(v.o + e1 + 8, ss)), LAMBDA sv :
                         OkR(<<"sigreg", sv, rv>>)))
SigRegFromBytes(buf, v) == IF HasCbor(buf, v) THEN CborR ELSE SigRegLegacy(buf, v)

(* MerkleBatchPath::from_bytes_legacy -- every product and sum is checked    *)
RECURSIVE ChunkLoop(_, _, _, _, _)
ChunkLoop(v, n, i, sz, off) ==  \* for i in 0..n { get(i*sz + off .. (i+1)*sz + off)? }, checked
    IF i = n THEN [ok |-> TRUE, it |-> i]
    ELSE IF (i + 1) * sz + off > MAXU \/ (i + 1) * sz + off > v.n THEN [ok |-> FALSE, it |-> i + 1]
    ELSE ChunkLoop(v, n, i + 1, sz, off)

BPathLegacy(buf, v) ==
    IF v.n < 8 THEN ErrR("bpath.hdr") ELSE
    IF v.n < 16 THEN ErrR("bpath.hdr2") ELSE
    LET lv == U64(buf, v.o)
        li == U64(buf, v.o + 8)
        l1 == ChunkLoop(v, lv, 0, HASH, 16)
    IN IF ~l1.ok THEN WithIt(ErrR("bpath.len_v"), l1.it) ELSE
       LET off == lv * HASH + 16                          \* checked_mul / checked_add
           l2  == ChunkLoop(v, li, 0, 8, off)
       IN IF off > MAXU THEN WithIt(ErrR("bpath.len_v"), l1.it)
          ELSE IF ~l2.ok THEN WithIt(ErrR("bpath.len_i"), l1.it + l2.it)
          ELSE WithIt(OkR(<<"bpath", lv, li, v.o>>), l1.it + l2.it)
BPathFromBytes(buf, v) == IF HasCbor(buf, v) THEN CborR ELSE BPathLegacy(buf, v)

(* ConcatenationProof::from_bytes_legacy                                     *)
RECURSIVE SigRegLoop(_, _, _, _, _, _)
SigRegLoop(buf, v, total, k, bi, acc) ==
    IF k = total
    THEN Then(BPathFromBytes(buf, View(v.o + bi, v.n - bi)), LAMBDA pv : OkR(<<"concat", acc, pv>>))
    ELSE WithIt(
         IF bi + 8 > v.n THEN ErrR("agg.sig_hdr") ELSE    \* `bytes_index + 8` <= len: no overflow
         LET sz  == U64(buf, v.o + bi)
             end == bi + 8 + sz                           \* `bytes_index + 8 + sig_reg_size`
         IN IF end > MAXU THEN Ovf("agg.sig_reg_size")
            ELSE IF end > v.n THEN ErrR("agg.sig_reg_size")
            ELSE Then(SigRegFromBytes(buf, View(v.o + bi + 8, sz)), LAMBDA sv :
                      SigRegLoop(buf, v, total, k + 1, end, Append(acc, sv))), 1)

ConcatLegacy(buf, v) ==
    IF v.n < 8 THEN ErrR("agg.hdr") ELSE
    LET total == U64(buf, v.o)
        (* Vec::with_capacity(total_sigs) *)
        want  == IF CapPrealloc THEN Min(total, v.n \div 8) ELSE total
        bytes == want * ELEM
    IN IF bytes > ISIZE THEN PanicR("agg.total_sigs")                 \* capacity overflow
       ELSE IF bytes > AllocCap(buf) THEN AbortR("agg.total_sigs", bytes) \* handle_alloc_error
       ELSE WithAlloc(SigRegLoop(buf, v, total, 0, 8, <<>>), bytes)
ConcatFromBytes(buf, v) == IF HasCbor(buf, v) THEN CborR ELSE ConcatLegacy(buf, v)

(* AggregateSignature::from_bytes: CBOR when the first byte is 1 (then the   *)
(* legacy fallback, where type 1 is unknown without future_snark)            *)
AggFromBytes(buf, v) ==
    IF v.n = 0 THEN ErrR("agg.type")
    ELSE IF ByteAt(buf, v.o) # 0 THEN ErrR("agg.type")
    ELSE ConcatFromBytes(buf, View(v.o + 1, v.n - 1))

(* MerkleTreeBatchCommitment / AggregateVerificationKeyForConcatenation      *)
BCommitLegacy(buf, v) ==
    IF v.n < 8 THEN ErrR("bcommit.hdr") ELSE OkR(<<"bcommit", U64(buf, v.o), v.n - 8>>)
BCommitFromBytes(buf, v) == IF HasCbor(buf, v) THEN CborR ELSE BCommitLegacy(buf, v)
AvkLegacy(buf, v) ==
    IF v.n < 8 THEN ErrR("avk.stake")                     \* size.checked_sub(8)
    ELSE Then(BCommitFromBytes(buf, View(v.o, v.n - 8)), LAMBDA cv : OkR(<<"avk", cv>>))
AvkFromBytes(buf, v) == IF HasCbor(buf, v) THEN CborR ELSE AvkLegacy(buf, v)

(* MerkleTree::from_bytes_legacy                                             *)
RECURSIVE Pow2Above(_, _)
Pow2Above(n, p) == IF p >= n THEN p ELSE Pow2Above(n, 2 * p)
NextPow2(n) == Pow2Above(n, 1)
TreeLegacy(buf, v) ==
    IF v.n < 8 THEN ErrR("tree.hdr") ELSE
    LET n == U64(buf, v.o) IN
    IF n > ISIZE + 1 THEN Ovf("tree.n")                   \* next_power_of_two overflows
    ELSE LET s == n + NextPow2(n) IN                      \* `n + n.next_power_of_two() - 1`
         IF s > MAXU THEN Ovf("tree.n") ELSE
         LET num   == s - 1
             want  == IF CapPrealloc THEN Min(num, v.n \div HASH) ELSE num
             bytes == want * ELEM_NODE                    \* Vec::with_capacity(num_nodes)
             lp    == ChunkLoop(v, num, 0, HASH, 8)       \* plain arithmetic, bounded by get(..)
         IN IF bytes > ISIZE THEN PanicR("tree.n")
            ELSE IF bytes > AllocCap(buf) THEN AbortR("tree.n", bytes)
            ELSE WithAlloc(WithIt(IF lp.ok THEN OkR(<<"tree", n>>) ELSE ErrR("tree.nodes"), lp.it), bytes)
TreeFromBytes(buf, v) == IF HasCbor(buf, v) THEN CborR ELSE TreeLegacy(buf, v)

(* MerklePath::from_bytes_legacy (not exported; same shape as the batch path) *)
PathLegacy(buf, v) ==
    IF v.n < 16 THEN ErrR("path.hdr") ELSE
    LET n  == U64(buf, v.o + 8)
        lp == ChunkLoop(v, n, 0, HASH, 16)
    IN WithIt(IF lp.ok THEN OkR(<<"path", n>>) ELSE ErrR("path.len"), lp.it)

Decode(ty, buf) ==
    LET top == View(0, buf.len) IN
    CASE ty = "agg"     -> AggFromBytes(buf, top)
      [] ty = "sigreg"  -> SigRegFromBytes(buf, top)
      [] ty = "sig"     -> SigFromBytes(buf, top)
      [] ty = "bpath"   -> BPathFromBytes(buf, top)
      [] ty = "bcommit" -> BCommitFromBytes(buf, top)
      [] ty = "avk"     -> AvkFromBytes(buf, top)
      [] ty = "tree"    -> TreeFromBytes(buf, top)
      [] ty = "path"    -> PathLegacy(buf, top)

-----------------------------------------------------------------------------
(* Dispatch layer of mithril-common: the same bytes through the outer forms. *)
(* A binary payload is never a JSON document (first byte 0 / 0xff / BLS      *)
(* flag), so from_json_hex fails and the bytes-hex codec is reached.         *)
(* mithril-stm: the CBOR envelopes (aggregate signature, concatenation proof, signature with  *)
(* registered party) carry nested byte strings handed to the same versioned from_bytes, so a *)
(* legacy layout nested in the current format reaches the same legacy decoder.               *)
OuterForms == {"from_bytes", "from_bytes_hex", "key_json_then_bytes", "key_bytes_then_json",
               "key_deserialize", "message_field", "cbor_envelope"}
Outer(form, d) ==                            \* d = Decode(ty, buf)
    LET bytesHex == d                        \* hex decoding of hex(bytes) is the identity
        jsonHex  == ErrR("json")             \* serde_json on binary content
    IN CASE form = "from_bytes"          -> d
         [] form = "from_bytes_hex"      -> bytesHex
         [] form = "key_json_then_bytes" -> IF jsonHex.st = "ok" THEN jsonHex ELSE bytesHex
         [] form = "key_bytes_then_json" -> IF bytesHex.st = "err" THEN jsonHex ELSE bytesHex
         [] form = "key_deserialize"     -> IF jsonHex.st = "ok" THEN jsonHex ELSE bytesHex
         [] form = "message_field"       -> IF jsonHex.st = "ok" THEN jsonHex ELSE bytesHex
         [] form = "cbor_envelope"       -> d

-----------------------------------------------------------------------------
(* Independent classification of the bytes (what the harness recomputes from *)
(* the real mutated value): the first length / count field, in decoder       *)
(* order, that the decoder cannot honour.                                    *)
(*   huge  -- the arithmetic / the capacity overflows                        *)
(*   alloc -- the pre-allocation exceeds the bound                           *)
(*   big   -- exceeds the remaining input                                    *)
NoBad == [field |-> "none", cls |-> "fits"]
BadF(f, c) == [field |-> f, cls |-> c]
CountClass(buf, n, elem) ==
    IF n * elem > ISIZE THEN "huge" ELSE IF n * elem > AllocCap(buf) THEN "alloc" ELSE "fits"

WalkSig(buf, v) ==
    IF HasCbor(buf, v) \/ v.n < 8 THEN NoBad
    ELSE IF U64(buf, v.o) * 8 + 8 <= v.n THEN NoBad ELSE BadF("sig.nr_indexes", "big")
WalkSigReg(buf, v) ==
    IF HasCbor(buf, v) \/ v.n < 8 THEN NoBad ELSE
    LET e1 == 8 + U64(buf, v.o) IN
    IF e1 > MAXU THEN BadF("sigreg.size_reg_party", "huge")
    ELSE IF e1 > v.n THEN BadF("sigreg.size_reg_party", "big")
    ELSE IF e1 + 8 > v.n THEN NoBad ELSE
    LET e2 == e1 + 8 + U64(buf, v.o + e1) IN
    IF e2 > MAXU THEN BadF("sigreg.size_sig", "huge")
    ELSE IF e2 > v.n THEN BadF("sigreg.size_sig", "big")
    ELSE WalkSig(buf, View(v.o + e1 + 8, e2 - e1 - 8))
WalkBPath(buf, v) ==
    IF HasCbor(buf, v) \/ v.n < 16 THEN NoBad ELSE
    LET off == U64(buf, v.o) * HASH + 16 IN
    IF off > v.n THEN BadF("bpath.len_v", "big")
    ELSE IF U64(buf, v.o + 8) * 8 + off > v.n THEN BadF("bpath.len_i", "big") ELSE NoBad
RECURSIVE WalkLoop(_, _, _, _, _)
WalkLoop(buf, v, total, k, bi) ==
    IF k = total THEN WalkBPath(buf, View(v.o + bi, v.n - bi))
    ELSE IF bi + 8 > v.n THEN NoBad ELSE
    LET end == bi + 8 + U64(buf, v.o + bi) IN
    IF end > MAXU THEN BadF("agg.sig_reg_size", "huge")
    ELSE IF end > v.n THEN BadF("agg.sig_reg_size", "big")
    ELSE LET w == WalkSigReg(buf, View(v.o + bi + 8, end - bi - 8)) IN
         IF w # NoBad THEN w ELSE WalkLoop(buf, v, total, k + 1, end)
WalkConcat(buf, v) ==
    IF HasCbor(buf, v) \/ v.n < 8 THEN NoBad ELSE
    LET total == U64(buf, v.o)
        c == CountClass(buf, total, ELEM)
    IN IF c # "fits" THEN BadF("agg.total_sigs", c) ELSE WalkLoop(buf, v, total, 0, 8)
WalkTree(buf, v) ==
    IF HasCbor(buf, v) \/ v.n < 8 THEN NoBad ELSE
    LET n == U64(buf, v.o) IN
    IF n > ISIZE + 1 THEN BadF("tree.n", "huge")
    ELSE IF n + NextPow2(n) > MAXU THEN BadF("tree.n", "huge")
    ELSE LET num == n + NextPow2(n) - 1
             c   == CountClass(buf, num, ELEM_NODE)
         IN IF c # "fits" THEN BadF("tree.n", c)
            ELSE IF num * HASH + 8 > v.n THEN BadF("tree.n", "big") ELSE NoBad
Walk(ty, buf) ==
    LET top == View(0, buf.len) IN
    CASE ty = "agg"    -> IF top.n > 0 /\ ByteAt(buf, 0) = 0 THEN WalkConcat(buf, View(1, top.n - 1)) ELSE NoBad
      [] ty = "sigreg" -> WalkSigReg(buf, top)
      [] ty = "sig"    -> WalkSig(buf, top)
      [] ty = "bpath"  -> WalkBPath(buf, top)
      [] ty = "tree"   -> WalkTree(buf, top)
      [] OTHER         -> NoBad

-----------------------------------------------------------------------------
(* The value an honest buffer must decode to (from the layout, not from the  *)
(* decoder): used by RoundTrip.                                              *)
RECURSIVE HonestAt(_, _, _)
FieldOff(items, name) == OffOf(items, CHOOSE i \in DOMAIN items : items[i].t = "f" /\ items[i].name = name)
FieldV(items, name)   == items[CHOOSE i \in DOMAIN items : items[i].t = "f" /\ items[i].name = name].v
HonestSig(items, nIdx) ==
    LET k == FieldV(items, nIdx) IN <<"sig", k, FieldOff(items, nIdx) + 8 + 8 * k>>
HonestSigReg(items, nReg, nIdx) ==
    <<"sigreg", HonestSig(items, nIdx), <<"reg", FieldOff(items, nReg) + 8>>>>
HonestPath(items) == <<"bpath", FieldV(items, "lenv"), FieldV(items, "leni"), FieldOff(items, "lenv")>>
HonestAt(base, items, dummy) ==
    CASE base = "agg.k0"    -> <<"concat", <<>>, HonestPath(items)>>
      [] base = "agg.k1"    -> <<"concat", <<HonestSigReg(items, "s1.size_reg", "s1.nidx")>>, HonestPath(items)>>
      [] base = "agg.k2"    -> <<"concat", <<HonestSigReg(items, "s1.size_reg", "s1.nidx"),
                                            HonestSigReg(items, "s2.size_reg", "s2.nidx")>>, HonestPath(items)>>
      [] base = "sigreg.r2" -> HonestSigReg(items, "size_reg", "nidx")
      [] base = "sig.s2"    -> HonestSig(items, "nidx")
      [] base = "bpath.p12" -> HonestPath(items)
      [] base = "bcommit.c" -> <<"bcommit", 2, HASH>>
      [] base = "avk.a"     -> <<"avk", <<"bcommit", 2, HASH>>>>
      [] base = "tree.t2"   -> <<"tree", 2>>
HonestVal(b) == HonestAt(b.name, b.items, 0)
=============================================================================
