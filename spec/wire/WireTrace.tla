----------------------------- MODULE WireTrace -----------------------------
(***************************************************************************)
(* Contract trace spec for C05: accepts or rejects traces recorded from     *)
(* the real decoders of mithril-stm / mithril-common / mithril-merkle-tree. *)
(* It states the property and nothing else.                                 *)
(*                                                                          *)
(* Event (one per decode call, each call made in a child process under      *)
(* catch_unwind and a counting allocator):                                  *)
(*  Decode  entry      public entry point that was called                   *)
(*          len        length in bytes of the input handed to that entry    *)
(*          outcome    ok | err | panic | abort | timeout                   *)
(*          peak       largest single allocation request made during the    *)
(*                     call, in bytes (clamped to 2*10^9)                   *)
(*          honest     the input is the unmodified encoding of an honest    *)
(*                     value, in a form this entry point is meant to accept *)
(*          roundtrip  the decoded value equals that honest value           *)
(*          bad, cls   first length / count field of the legacy layout the  *)
(*                     decoder cannot honour, recomputed by the harness     *)
(*                     from the real bytes (only used to recognise listed   *)
(*                     known findings)                                      *)
(*          pred       outcome predicted by spec/wire/Wire.tla (drift only) *)
(***************************************************************************)
EXTENDS Naturals, Sequences, TLC, Json, IOUtils

Rec   == ndJsonDeserialize(IOEnv.TRACE)
Known == ndJsonDeserialize(IOEnv.KNOWN)

VARIABLE l
tvars == <<l>>
E == Rec[l]
IsEvent(name) == l <= Len(Rec) /\ Rec[l].ev = name /\ Rec[l].seq = l /\ l' = l + 1

TraceInit == l = 1

-----------------------------------------------------------------------------
(* "returns either a value or an error on every input: it does not panic,    *)
(*  abort, overflow, loop unboundedly ..."                                   *)
Total(e) == e.outcome \in {"ok", "err"}
(* "... or try to allocate memory out of proportion to the input size"       *)
AllocBound(n) == 64 * n + 1048576
Proportionate(e) == e.peak <= AllocBound(e.len)
(* "Decoding the encoding of any honest value returns an equal value."       *)
RoundTrip(e) == e.honest = TRUE => (e.outcome = "ok" /\ e.roundtrip = TRUE)

TDecode ==
    /\ IsEvent("Decode")
    /\ Total(E) /\ Proportionate(E) /\ RoundTrip(E)

-----------------------------------------------------------------------------
MatchesKnown(e, k) == \A f \in DOMAIN k.match : f \in DOMAIN e /\ e[f] = k.match[f]
TKnown ==
    /\ l <= Len(Rec) /\ Rec[l].seq = l
    /\ \E i \in DOMAIN Known :
          /\ MatchesKnown(Rec[l], Known[i])
          /\ PrintT(<<"KNOWN-USED", ToJson([id |-> Known[i].id, seq |-> l])>>)
    /\ l' = l + 1

TraceNext == TDecode \/ TKnown
TraceSpec == TraceInit /\ [][TraceNext]_tvars

TraceAccepted ==
    LET d == TLCGet("stats").diameter - 1 IN
    /\ PrintT(<<"TRACE-RESULT",
                ToJson([matched |-> d, total |-> Len(Rec),
                        first_unmatched |-> IF d < Len(Rec) THEN Rec[d + 1] ELSE [ev |-> "none"]])>>)
    /\ d = Len(Rec)
=============================================================================
