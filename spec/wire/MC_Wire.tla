------------------------------ MODULE MC_Wire ------------------------------
(* C05: exhaustive exploration of the class vectors of spec/wire/Wire.tla. Every state is one  *)
(* abstract input (base layout, <= 2 mutated length fields, optional truncation) together with  *)
(* what the implementation-shaped decoder model does on it. The invariants are the property;   *)
(* the listed known findings (KNOWN_FINDINGS.jsonl, same `match` records as the trace spec)    *)
(* are the only excuse. GenPrint prints every case with the predicted outcome for GEN.         *)
EXTENDS Wire, Json, IOUtils

Known == ndJsonDeserialize(IOEnv.KNOWN)

(* Which tree the model describes: the driver sets these from KNOWN_FINDINGS.jsonl -- while the   *)
(* legacy-decoder defects are listed as status "known" the model is the unfixed code; once they   *)
(* are fixed (work/proposed/C05_legacy_decoders.diff) the model caps / checks like the fix does.  *)
CapFromEnv     == "C05_CAP" \in DOMAIN IOEnv /\ IOEnv.C05_CAP = "1"
CheckedFromEnv == "C05_CHECKED" \in DOMAIN IOEnv /\ IOEnv.C05_CHECKED = "1"

(* per base: <<max mutated fields, max mutated fields combined with a truncation (or -1)>>    *)
PlanQuick == [agg_k0 |-> <<2, 1>>, agg_k1 |-> <<2, 1>>, agg_k2 |-> <<2, 0>>, sigreg_r2 |-> <<2, 1>>,
              sig_s2 |-> <<1, 1>>, bpath_p12 |-> <<2, 1>>, bcommit_c |-> <<1, 1>>, avk_a |-> <<1, 1>>,
              tree_t2 |-> <<1, 1>>]
PlanThorough == [agg_k0 |-> <<2, 2>>, agg_k1 |-> <<2, 2>>, agg_k2 |-> <<2, 1>>, sigreg_r2 |-> <<2, 2>>,
                 sig_s2 |-> <<1, 1>>, bpath_p12 |-> <<2, 2>>, bcommit_c |-> <<1, 1>>, avk_a |-> <<1, 1>>,
                 tree_t2 |-> <<1, 1>>]
CONSTANT Plan

VARIABLES b, muts, cut, res
vars == <<b, muts, cut, res>>

Run(bn, ms, c) ==
    LET base == Bases[bn]
        buf  == MkBuf(base.items, ms, c)
    IN [r |-> Decode(base.ty, buf), w |-> Walk(base.ty, buf), len |-> buf.len, cap |-> AllocCap(buf)]

Cuts(items) == {c \in 0..(HLen(items) + 1) :
                   c # HLen(items) /\ \E x \in Bounds(items) : c \in {x - 1, x, x + 1}}

Init == \E bn \in DOMAIN Plan :
           /\ b = bn /\ muts = <<>> /\ cut = -1
           /\ res = Run(bn, <<>>, -1)

Mutate ==
    /\ cut = -1 /\ Len(muts) < Plan[b][1]
    /\ \E i \in FieldIdx(Bases[b].items), k \in Classes :
          /\ Len(muts) > 0 => i > muts[Len(muts)].i
          /\ ClassOk(k, Bases[b].items[i].v)
          /\ muts' = Append(muts, [i |-> i, k |-> k])
          /\ res' = Run(b, muts', -1)
    /\ UNCHANGED <<b, cut>>

Truncate ==
    /\ cut = -1 /\ Len(muts) <= Plan[b][2]
    /\ \E c \in Cuts(Bases[b].items) :
          /\ cut' = c
          /\ res' = Run(b, muts, c)
    /\ UNCHANGED <<b, muts>>

Next == Mutate \/ Truncate
Spec == Init /\ [][Next]_vars

-----------------------------------------------------------------------------
Excused ==
    \E i \in DOMAIN Known :
        LET m == Known[i].match IN
        /\ "bad" \in DOMAIN m /\ "cls" \in DOMAIN m /\ "outcome" \in DOMAIN m
        /\ m.bad = res.w.field /\ m.cls = res.w.cls /\ m.outcome = res.r.st

(* the property, on the implementation-shaped model *)
Total              == res.r.st \in {"ok", "err"} \/ Excused
NoOverflow         == res.r.st = "panic" => Excused
AllocProportionate == res.r.alloc <= res.cap \/ Excused
Terminates         == res.r.it <= res.len + 2
RoundTrip          == (muts = <<>> /\ cut = -1) =>
                          /\ res.r.st = "ok"
                          /\ res.r.val = HonestVal(Bases[b])
(* every outer entry point reaches the same legacy decoder with the same bytes *)
Dispatch           == \A form \in OuterForms : Outer(form, res.r).st = res.r.st
(* model sanity: a crash is always attributed to the field the independent walker blames *)
WalkerAgrees       == res.r.st \in {"panic", "abort"} => res.r.site = res.w.field

GenPrint ==
    LET items == Bases[b].items IN
    PrintT(<<"CASE", ToJson([
        ty   |-> Bases[b].ty, base |-> Bases[b].name, hlen |-> HLen(items),
        muts |-> [m \in DOMAIN muts |-> [f   |-> items[muts[m].i].name,
                                        off |-> OffOf(items, muts[m].i),
                                        cls |-> ClassName(muts[m].k)]],
        cut  |-> cut, pred |-> res.r.st, site |-> res.r.site, bad |-> res.w.field, cls |-> res.w.cls,
        alloc |-> res.r.alloc, it |-> res.r.it, len |-> res.len,
        excused |-> (res.r.st \in {"panic", "abort"} /\ Excused)])>>)
=============================================================================
