CONSTANTS
    Party = {p1}
    Quorum = 1
    MaxEpoch = 3
    MaxImm = 1
    LabelChecked = TRUE
    AtomicSeal = FALSE
    RegSets = {{p1}}
    MaxCerts = 5
    MaxDepthHist = 0
    ExcuseDoubleCert = TRUE
    ExcuseRelabel = FALSE
SPECIFICATION Spec
VIEW view
CONSTRAINT Bound
INVARIANTS CertifiedHasCertificate TypeOK KeyInForce ParentRule StopsOnGap NoTwoArtifacts ArtifactRefsItsCertificate NoDoubleCertificationK AttributionK SignerListHonestK
CHECK_DEADLOCK FALSE
