CONSTANTS
    MaxEpoch = 4
    MaxLCerts = 4
    MaxOwn = 2
    MaxRegen = 1
    MaxLExpire = 1
    Warm = TRUE
    AtomicSync = FALSE
    OpenFirst = FALSE
    MarkEntity = FALSE
    ExcuseStop = TRUE
    ExcuseNonMsd = TRUE
    GenDepth = 60
SPECIFICATION SpecW
VIEW view
CONSTRAINT Bound
CONSTRAINT DownOnlyWhenIdle
INVARIANTS WitnessNonMsd
CHECK_DEADLOCK FALSE
