------------------------------ MODULE Aggregator ------------------------------
(***************************************************************************)
(* The aggregator: state machine, signer registration rounds, open         *)
(* messages, single signatures, certificate sealing, artifacts, restarts   *)
(* and process stops (properties C14, C15, C16).                           *)
(*                                                                         *)
(* Implementation-shaped model of                                          *)
(*   mithril-aggregator/src/runtime/state_machine.rs (cycle_idle/blocked/  *)
(*       ready/signing, epoch initialisation tasks, epoch-gap blocking)    *)
(*   mithril-aggregator/src/runtime/runner.rs                              *)
(*       (get_current_non_certified_open_message, is_open_message_outdated)*)
(*   mithril-aggregator/src/services/certifier/certifier_service.rs        *)
(*       (register_single_signature, create_certificate =                  *)
(*        select parent -> aggregate -> INSERT certificate -> MARK          *)
(*        certified: two separate persistence steps)                       *)
(*   mithril-aggregator/src/services/signed_entity.rs (artifact task)      *)
(*   mithril-aggregator/src/database/query/certificate/                    *)
(*       get_master_certificate.rs (parent selection)                      *)
(* Epoch offsets (mithril-common/src/entities/epoch.rs): registrations     *)
(* made during epoch e are RECORDED for epoch e+1; the signers of epoch e  *)
(* are those recorded for e-1.                                             *)
(*                                                                         *)
(* Everything persisted is a variable that survives Restart; the state     *)
(* machine's own state does not.                                           *)
(***************************************************************************)
EXTENDS Integers, Sequences, FiniteSets, TLC

CONSTANTS
    Party,          \* the pool operators
    Quorum,         \* number of distinct valid signers that win >= k lottery indices (abstract quorum)
    MaxEpoch, MaxImm,
    LabelChecked,   \* TRUE: a signature is stored only under the party whose key made it;
                    \* FALSE: the submitter's claimed party id is used as is (the code before fix 315eab251)
    AtomicSeal,     \* TRUE: certificate insert + mark-certified are one step; FALSE: two steps (current code)
    RegSets         \* the sets of parties that may register together (bounds the exploration)

VARIABLES
    epoch, imm,             \* the chain (environment)
    \* ---- persisted (database) ----
    recorded,               \* recorded[e] : parties registered for recording epoch e
    roundFor,               \* recording epoch of the open registration round (0: closed)
    open,                   \* set of [entity, epoch, certified, expired]
    sigs,                   \* set of [entity, label, owner]  (key = entity, label : insert-or-replace)
    buffered,               \* authenticated signatures that arrived before their open message existed
    certs,                  \* sequence of [entity, epoch, kind, parent, avkRec, signers]
    arts,                   \* set of [entity, cert]
    \* ---- in memory ----
    sm,                     \* [state, tpEpoch, entity]  state in idle/blocked/ready/signing
    sealing,                \* "none" | "inserted" | "marked" : progress inside create_certificate/artifact
    \* ---- history for schedule generation ----
    last
vars == <<epoch, imm, recorded, roundFor, open, sigs, buffered, certs, arts, sm, sealing, last>>
view == <<epoch, imm, recorded, roundFor, open, sigs, buffered, certs, arts, sm, sealing>>

NoEntity == <<"none">>
MSD(e) == <<"MSD", e>>
CDB(e, i) == <<"CDB", e, i>>
\* the Cardano stake distribution of epoch e is only final in epoch e + 1: it is signed (open message,
\* signer set, certificate epoch) in e + 1 (SignedEntityType::get_epoch_when_signed_entity_type_is_signed)
CSD(e) == <<"CSD", e>>
EntityEpoch(en) == IF en[1] = "CSD" THEN en[2] + 1 ELSE en[2]
Current(kind) == IF kind = "MSD" THEN MSD(epoch) ELSE IF kind = "CSD" THEN CSD(epoch - 1) ELSE CDB(epoch, imm)
CurrentEntities == {Current("MSD"), Current("CSD"), Current("CDB")}

SignersOf(e) == IF e - 1 \in DOMAIN recorded THEN recorded[e - 1] ELSE {}

Init ==
    /\ epoch = 1 /\ imm = 1
    /\ recorded = [e \in 0..(MaxEpoch + 1) |-> IF e <= 1 THEN Party ELSE {}]
    /\ roundFor = 0
    /\ open = {} /\ sigs = {} /\ buffered = {}
    /\ certs = <<[entity |-> MSD(1), epoch |-> 1, kind |-> "genesis", parent |-> 0, avkRec |-> 0, signers |-> {}]>>
    /\ arts = {}
    /\ sm = [state |-> "idle", tpEpoch |-> 0, entity |-> NoEntity]
    /\ sealing = "none"
    /\ last = [a |-> "Init"]

-----------------------------------------------------------------------------
(* environment *)
EpochUp(n) ==
    /\ epoch + n <= MaxEpoch
    /\ epoch' = epoch + n
    /\ last' = [a |-> "EpochUp", n |-> n]
    /\ UNCHANGED <<imm, recorded, roundFor, open, sigs, buffered, certs, arts, sm, sealing>>

ImmUp ==
    /\ imm < MaxImm
    /\ imm' = imm + 1
    /\ last' = [a |-> "ImmUp"]
    /\ UNCHANGED <<epoch, recorded, roundFor, open, sigs, buffered, certs, arts, sm, sealing>>

(* signer registration: accepted only while a round is open, recorded for the round's epoch *)
Register(S) ==
    /\ roundFor # 0 /\ S # {}
    /\ roundFor = epoch + 1            \* a registration names the epoch it is for: current epoch + 1
    /\ recorded' = [recorded EXCEPT ![roundFor] = @ \cup S]
    /\ last' = [a |-> "Register", who |-> S]
    /\ UNCHANGED <<epoch, imm, roundFor, open, sigs, buffered, certs, arts, sm, sealing>>

(* a peer submits party p's signature for the open message `en` under the name `lbl` *)
Sign(p, lbl, en) ==
    /\ \E m \in open : m.entity = en /\ ~m.certified /\ ~m.expired
    /\ p \in SignersOf(EntityEpoch(en))             \* the signature verifies (key found by its slot)
    /\ lbl \in SignersOf(EntityEpoch(en))           \* storage needs a registration of the label
    /\ (LabelChecked => lbl = p)
    /\ sigs' = {s \in sigs : ~(s.entity = en /\ s.label = lbl)} \cup {[entity |-> en, label |-> lbl, owner |-> p]}
    /\ last' = [a |-> "Sign", who |-> p, label |-> lbl, entity |-> en]
    /\ UNCHANGED <<epoch, imm, recorded, roundFor, open, buffered, certs, arts, sm, sealing>>

(* party p's valid signature submitted under another registered party's name: refused since the key   *)
(* the signature was made with is compared with the key registered by the named party (no state       *)
(* change); part of the environment so that generated schedules contain the attempt                    *)
SignRelabelRefused(p, lbl, en) ==
    /\ LabelChecked /\ p # lbl
    /\ \E m \in open : m.entity = en /\ ~m.certified /\ ~m.expired
    /\ p \in SignersOf(EntityEpoch(en)) /\ lbl \in SignersOf(EntityEpoch(en))
    /\ last' = [a |-> "Sign", who |-> p, label |-> lbl, entity |-> en]
    /\ UNCHANGED <<epoch, imm, recorded, roundFor, open, sigs, buffered, certs, arts, sm, sealing>>

(* an authenticated signature for the current beacon of a type whose open message does not exist yet *)
(* is buffered (BufferedCertifierService) and handed over when the open message is created            *)
SignEarly(p, lbl, en) ==
    /\ en \in CurrentEntities
    /\ ~\E m \in open : m.entity = en
    /\ p \in SignersOf(EntityEpoch(en)) /\ lbl \in SignersOf(EntityEpoch(en))
    /\ (LabelChecked => lbl = p)
    /\ buffered' = buffered \cup {[entity |-> en, label |-> lbl, owner |-> p]}
    /\ last' = [a |-> "Sign", who |-> p, label |-> lbl, entity |-> en]
    /\ UNCHANGED <<epoch, imm, recorded, roundFor, open, sigs, certs, arts, sm, sealing>>

(* a late or repeated signature for an entity whose open message is already certified or expired: *)
(* refused (no state change); part of the environment so that generated schedules contain it      *)
SignLate(p, en) ==
    /\ \E m \in open : m.entity = en /\ (m.certified \/ m.expired)
    /\ p \in SignersOf(EntityEpoch(en))
    /\ last' = [a |-> "Sign", who |-> p, label |-> p, entity |-> en]
    /\ UNCHANGED <<epoch, imm, recorded, roundFor, open, sigs, buffered, certs, arts, sm, sealing>>

(* a signature that party p made for ANOTHER message (e.g. replayed from an earlier round), submitted *)
(* for the open message en, flagged authenticated: it does not verify for en's message and is refused *)
SignBad(p, lbl, en) ==
    /\ \E m \in open : m.entity = en /\ ~m.certified /\ ~m.expired
    /\ p \in SignersOf(EntityEpoch(en)) /\ lbl \in SignersOf(EntityEpoch(en))
    /\ last' = [a |-> "Sign", who |-> p, label |-> lbl, entity |-> en, variant |-> "bad"]
    /\ UNCHANGED <<epoch, imm, recorded, roundFor, open, sigs, buffered, certs, arts, sm, sealing>>

Expire(en) ==
    /\ \E m \in open : m.entity = en /\ ~m.certified /\ ~m.expired
    /\ open' = {IF m.entity = en THEN [m EXCEPT !.expired = TRUE] ELSE m : m \in open}
    /\ last' = [a |-> "Expire", entity |-> en]
    /\ UNCHANGED <<epoch, imm, recorded, roundFor, sigs, buffered, certs, arts, sm, sealing>>

-----------------------------------------------------------------------------
(* the state machine, one action per cycle branch *)
LastCertEpoch == certs[Len(certs)].epoch
GenesisEpoch  == certs[1].epoch

(* IDLE: epoch initialisation tasks when the epoch changed, then chain validity *)
(* the epoch service needs the signers of the epoch and of the next one: without them the epoch     *)
(* initialisation fails after the round was closed, the state is kept and the cycle is retried      *)
EpochDataMissing == recorded[epoch - 1] = {} \/ recorded[epoch] = {}
TickIdleStalled ==
    /\ sm.state = "idle" /\ sealing = "none"
    /\ sm.tpEpoch < epoch /\ EpochDataMissing
    /\ roundFor' = 0
    /\ last' = [a |-> "Tick"]
    /\ UNCHANGED <<epoch, imm, recorded, open, sigs, buffered, certs, arts, sm, sealing>>

TickIdle ==
    /\ sm.state = "idle" /\ sealing = "none"
    /\ ~(sm.tpEpoch < epoch /\ EpochDataMissing)
    /\ LET init == sm.tpEpoch < epoch IN
       /\ roundFor' = IF init THEN epoch + 1 ELSE roundFor       \* close the round, open the next
       /\ open' = IF init THEN {m \in open : m.epoch >= epoch - 1} ELSE open   \* inform_epoch clean-up
       /\ sigs' = IF init THEN {s \in sigs : EntityEpoch(s.entity) >= epoch - 1} ELSE sigs
       /\ sm' = IF epoch - LastCertEpoch > 1 THEN [state |-> "blocked", tpEpoch |-> epoch, entity |-> NoEntity]
                ELSE IF GenesisEpoch = epoch THEN [state |-> "blocked", tpEpoch |-> epoch, entity |-> NoEntity]
                ELSE [state |-> "ready", tpEpoch |-> epoch, entity |-> NoEntity]
    /\ buffered' = {b \in buffered : EntityEpoch(b.entity) >= epoch}
    /\ last' = [a |-> "Tick"]
    /\ UNCHANGED <<epoch, imm, recorded, certs, arts, sealing>>

TickBlocked ==
    /\ sm.state = "blocked" /\ sealing = "none"
    /\ sm' = IF sm.tpEpoch < epoch THEN [state |-> "idle", tpEpoch |-> sm.tpEpoch, entity |-> NoEntity] ELSE sm
    /\ last' = [a |-> "Tick"]
    /\ UNCHANGED <<epoch, imm, recorded, roundFor, open, sigs, buffered, certs, arts, sealing>>

(* READY: first signable entity type without a certified / expired open message *)
Candidates == <<Current("MSD"), Current("CSD"), Current("CDB")>>   \* discriminant order
OpenFor(en) == {m \in open : m.entity = en}
Pick ==   \* index in Candidates of the first entity to work on, 0 if none
    LET Workable(i) == OpenFor(Candidates[i]) = {} \/ \E m \in OpenFor(Candidates[i]) : ~m.certified /\ ~m.expired IN
    IF Workable(1) THEN 1 ELSE IF Workable(2) THEN 2 ELSE IF Workable(3) THEN 3 ELSE 0
TickReady ==
    /\ sm.state = "ready" /\ sealing = "none"
    /\ IF sm.tpEpoch < epoch
       THEN /\ sm' = [state |-> "idle", tpEpoch |-> sm.tpEpoch, entity |-> NoEntity]
            /\ UNCHANGED open
       ELSE IF Pick = 0
            THEN /\ sm' = [sm EXCEPT !.tpEpoch = epoch] /\ UNCHANGED open
            ELSE LET en == Candidates[Pick] IN
                 /\ open' = IF OpenFor(en) = {}
                            THEN open \cup {[entity |-> en, epoch |-> epoch, certified |-> FALSE, expired |-> FALSE]}
                            ELSE open
                 /\ sm' = [state |-> "signing", tpEpoch |-> epoch, entity |-> en]
    \* hand-over of the buffered signatures of the entity whose open message was just created
    /\ IF sm.state = "ready" /\ ~(sm.tpEpoch < epoch) /\ Pick # 0 /\ OpenFor(Candidates[Pick]) = {}
       THEN LET en == Candidates[Pick]
                mine == {b \in buffered : b.entity = en} IN
            /\ sigs' = {s \in sigs : ~(s.entity = en /\ \E b \in mine : b.label = s.label)} \cup mine
            /\ buffered' = buffered \ mine
       ELSE UNCHANGED <<sigs, buffered>>
    /\ last' = [a |-> "Tick"]
    /\ UNCHANGED <<epoch, imm, recorded, roundFor, certs, arts, sealing>>

Outdated(en) ==
    \/ \E m \in OpenFor(en) : m.expired
    \/ en # Current(en[1])

ValidOwners(en) == {s.owner : s \in {t \in sigs : t.entity = en}} \cap SignersOf(EntityEpoch(en))
Labels(en)      == {s.label : s \in {t \in sigs : t.entity = en}}

(* master certificate: first certificate of the epoch, else first of the previous epoch *)
FirstIdxOf(e) == IF \E i \in DOMAIN certs : certs[i].epoch = e
                 THEN CHOOSE i \in DOMAIN certs : certs[i].epoch = e /\ \A j \in DOMAIN certs : certs[j].epoch = e => i <= j
                 ELSE 0
ParentFor(e) == IF FirstIdxOf(e) # 0 THEN FirstIdxOf(e) ELSE FirstIdxOf(e - 1)

NewCert(en) == [entity |-> en, epoch |-> EntityEpoch(en), kind |-> "std", parent |-> ParentFor(EntityEpoch(en)),
                avkRec |-> EntityEpoch(en) - 1, signers |-> Labels(en) \cap SignersOf(EntityEpoch(en))]

(* SIGNING, leaving branches *)
TickSigningLeave ==
    /\ sm.state = "signing" /\ sealing = "none"
    /\ sm.tpEpoch < epoch \/ Outdated(sm.entity)
    /\ sm' = IF sm.tpEpoch < epoch THEN [state |-> "idle", tpEpoch |-> sm.tpEpoch, entity |-> NoEntity]
             ELSE [state |-> "ready", tpEpoch |-> sm.tpEpoch, entity |-> NoEntity]
    /\ last' = [a |-> "Tick"]
    /\ UNCHANGED <<epoch, imm, recorded, roundFor, open, sigs, buffered, certs, arts, sealing>>

CanSeal(en) ==
    /\ \E m \in OpenFor(en) : ~m.certified /\ ~m.expired
    /\ Cardinality(ValidOwners(en)) >= Quorum
    /\ ParentFor(EntityEpoch(en)) # 0

(* SIGNING, not enough signatures: the cycle fails and the state is kept *)
TickSigningWait ==
    /\ sm.state = "signing" /\ sealing = "none"
    /\ ~(sm.tpEpoch < epoch) /\ ~Outdated(sm.entity) /\ ~CanSeal(sm.entity)
    /\ last' = [a |-> "Tick"]
    /\ UNCHANGED <<epoch, imm, recorded, roundFor, open, sigs, buffered, certs, arts, sm, sealing>>

(* create_certificate, persistence step 1: the certificate row *)
InsertCertificate ==
    /\ sm.state = "signing" /\ sealing = "none"
    /\ ~(sm.tpEpoch < epoch) /\ ~Outdated(sm.entity) /\ CanSeal(sm.entity)
    /\ certs' = Append(certs, NewCert(sm.entity))
    /\ IF AtomicSeal
       THEN /\ open' = {IF m.entity = sm.entity THEN [m EXCEPT !.certified = TRUE] ELSE m : m \in open}
            /\ sealing' = "marked"
       ELSE /\ sealing' = "inserted" /\ UNCHANGED open
    /\ last' = [a |-> "Tick", step |-> "insert"]
    /\ UNCHANGED <<epoch, imm, recorded, roundFor, sigs, buffered, arts, sm>>

(* create_certificate, persistence step 2: the open message is marked certified *)
MarkCertified ==
    /\ sealing = "inserted"
    /\ open' = {IF m.entity = sm.entity THEN [m EXCEPT !.certified = TRUE] ELSE m : m \in open}
    /\ sealing' = "marked"
    /\ last' = [a |-> "Internal", step |-> "mark"]
    /\ UNCHANGED <<epoch, imm, recorded, roundFor, sigs, buffered, certs, arts, sm>>

(* artifact task: compute + store the signed entity (unique per entity), back to READY *)
StoreArtifact ==
    /\ sealing = "marked"
    /\ arts' = IF \E a \in arts : a.entity = sm.entity THEN arts
               ELSE arts \cup {[entity |-> sm.entity, cert |-> Len(certs)]}
    /\ sealing' = "none"
    /\ sm' = [state |-> "ready", tpEpoch |-> sm.tpEpoch, entity |-> NoEntity]
    /\ last' = [a |-> "Internal", step |-> "artifact"]
    /\ UNCHANGED <<epoch, imm, recorded, roundFor, open, sigs, buffered, certs>>

(* the process stops (at any point, in particular between the persistence steps) and restarts *)
Restart ==
    /\ sm' = [state |-> "idle", tpEpoch |-> 0, entity |-> NoEntity]
    /\ sealing' = "none"
    /\ last' = [a |-> IF sealing = "none" THEN "Restart" ELSE "Crash", at |-> sealing]
    /\ UNCHANGED <<epoch, imm, recorded, roundFor, open, sigs, buffered, certs, arts>>

(* a stop right before the first persistence step of sealing (nothing of it persisted yet) *)
StopBeforeInsert ==
    /\ sm.state = "signing" /\ sealing = "none"
    /\ ~(sm.tpEpoch < epoch) /\ ~Outdated(sm.entity) /\ CanSeal(sm.entity)
    /\ sm' = [state |-> "idle", tpEpoch |-> 0, entity |-> NoEntity]
    /\ last' = [a |-> "Crash", at |-> "before_insert"]
    /\ UNCHANGED <<epoch, imm, recorded, roundFor, open, sigs, buffered, certs, arts, sealing>>

Tick == TickIdle \/ TickIdleStalled \/ TickBlocked \/ TickReady \/ TickSigningLeave \/ TickSigningWait \/ InsertCertificate
Internal == MarkCertified \/ StoreArtifact
OpenEntities == {m.entity : m \in open}
Env == \/ \E n \in 1..2 : EpochUp(n)
       \/ ImmUp
       \/ \E S \in RegSets : Register(S)
       \/ \E p, lbl \in Party : \E en \in OpenEntities : Sign(p, lbl, en)
       \/ \E p, lbl \in Party : \E en \in CurrentEntities : SignEarly(p, lbl, en)
       \/ \E p \in Party : \E en \in OpenEntities : SignLate(p, en)
       \/ \E p, lbl \in Party : \E en \in OpenEntities : SignBad(p, lbl, en)
       \/ \E p, lbl \in Party : \E en \in OpenEntities : SignRelabelRefused(p, lbl, en)
       \/ \E en \in OpenEntities : Expire(en)
       \/ Restart \/ StopBeforeInsert

Next == Tick \/ Internal \/ Env
Spec == Init /\ [][Next]_vars

-----------------------------------------------------------------------------
(* The property clauses *)
StdIdx == {i \in DOMAIN certs : certs[i].kind = "std"}

(* carries the aggregate key of the signers registered for its epoch *)
KeyInForce == \A i \in StdIdx : certs[i].avkRec = certs[i].epoch - 1

(* links to the first certificate of its epoch, or if it is the first to the first of the previous epoch; *)
(* never across a gap *)
ParentRule ==
    \A i \in StdIdx :
        LET f == FirstIdxOf(certs[i].epoch) IN
        IF f < i THEN certs[i].parent = f
        ELSE certs[i].parent # 0 /\ certs[certs[i].parent].epoch = certs[i].epoch - 1
                                /\ certs[i].parent = FirstIdxOf(certs[i].epoch - 1)

NoDoubleCertification == \A i, j \in DOMAIN certs : certs[i].entity = certs[j].entity => i = j

(* C15 *)
(* a round flagged certified has its certificate (else it would never be retried) *)
CertifiedHasCertificate == \A m \in open : m.certified => \E i \in DOMAIN certs : certs[i].entity = m.entity
NoTwoArtifacts == \A a, b \in arts : a.entity = b.entity => a = b
ArtifactRefsItsCertificate == \A a \in arts : a.cert \in DOMAIN certs /\ certs[a.cert].entity = a.entity

(* C16 *)
Attribution == \A s \in sigs : s.owner = s.label
SignerListHonest ==   \* the published signer list names only parties whose own key signed
    \A i \in StdIdx : \A p \in certs[i].signers :
        \/ \E s \in sigs : s.entity = certs[i].entity /\ s.owner = p
        \/ ~\E s \in sigs : s.entity = certs[i].entity        \* (rows cleaned at a later epoch)

(* never certifies across a skipped epoch *)
StopsOnGap == \A i \in StdIdx : i > 1 => certs[i].epoch - certs[i - 1].epoch <= 1

TypeOK == sm.state \in {"idle", "blocked", "ready", "signing"} /\ sealing \in {"none", "inserted", "marked"}
=============================================================================
