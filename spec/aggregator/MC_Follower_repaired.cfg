CONSTANTS
    MaxEpoch = 5
    MaxLCerts = 5
    MaxOwn = 3
    MaxRegen = 1
    MaxLExpire = 1
    Warm = TRUE
    AtomicSync = TRUE
    OpenFirst = FALSE
    MarkEntity = TRUE
    ExcuseStop = FALSE
    ExcuseNonMsd = FALSE
SPECIFICATION Spec
VIEW view
CONSTRAINT Bound
INVARIANTS TypeOK Closed AllReachGenesis ParentRule StopsOnGap NoDoubleCertificationK
CHECK_DEADLOCK FALSE
