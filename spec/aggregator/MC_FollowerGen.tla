---------------------------- MODULE MC_FollowerGen ----------------------------
EXTENDS MC_Follower

(* GEN: simulation with a history of the actions taken; one schedule per behaviour.  Same actions as   *)
(* Follower.tla, paced so that behaviours are productive: the chain advances for the two nodes more or *)
(* less together, ticks that do nothing and faults (leader down, restarts, stops inside the            *)
(* synchroniser, re-bootstraps, late signatures, epoch jumps) are rationed.                            *)
VARIABLES hist, cnt
CONSTANT GenDepth

Ration(f, n) == cnt[f] < n /\ cnt' = [cnt EXCEPT ![f] = @ + 1]
B(x) == IF x THEN 1 ELSE 0
LDone == ~LCanCertify("MSD") /\ ~LCanCertify("CSD")
FInitDone == (fepoch + 1) \in fstk            \* the epoch initialisation of the follower's epoch was at least attempted
FDone == \/ fsm.state = "blocked" /\ fsm.tp = fepoch
         \/ fsm.state = "ready" /\ fsm.tp = fepoch /\ Pick = "none"
         \/ fsm.state = "idle" /\ (FInitDone \/ lepoch > fepoch)
GenNext ==
    \/ (\E k \in {"MSD", "CSD"} : LCertify(k)) /\ UNCHANGED cnt
    \/ LExpire /\ UNCHANGED cnt
    \/ LRegenesis /\ Len(fcerts) >= 2 /\ UNCHANGED cnt
    \/ /\ LEpochUp
       /\ lepoch <= fepoch + 1
       /\ LET early == ~LDone \/ (lepoch = fepoch /\ ~FDone) IN
          /\ early => cnt.lskip < 2
          /\ lepoch > fepoch => cnt.lahead < 1
          /\ cnt' = [cnt EXCEPT !.lskip = @ + B(early), !.lahead = @ + B(lepoch > fepoch)]
    \/ LToggle /\ Len(fcerts) >= 1 /\ (IF lup THEN Ration("down", 2) ELSE UNCHANGED cnt)
    \/ FTickIdleWait /\ Ration("wait", 5)
    \/ FTickIdle /\ (IF last'.step = "stall" THEN Ration("stall", 8) ELSE UNCHANGED cnt)
    \/ FSyncOpen /\ UNCHANGED cnt
    \/ FSyncStore /\ UNCHANGED cnt
    \/ FTickBlocked /\ (IF fsm' = fsm THEN Ration("noop", 6) ELSE UNCHANGED cnt)
    \/ FTickReady /\ (IF fsm' = fsm THEN Ration("noop", 6) ELSE UNCHANGED cnt)
    \/ FSigningLeave /\ UNCHANGED cnt
    \/ FSigningWait /\ Ration("sigwait", 4)
    \/ FSeal /\ UNCHANGED cnt
    \/ (\E k \in {"MSD", "CSD"} : FSignLate(k)) /\ Ration("late", 4)
    \/ /\ FEpochUp(1)
       /\ ~FDone => cnt.fskip < 1
       /\ fepoch >= lepoch => cnt.fahead < 1
       /\ cnt' = [cnt EXCEPT !.fskip = @ + B(~FDone), !.fahead = @ + B(fepoch >= lepoch)]
    \/ FEpochUp(2) /\ nown >= 1 /\ Ration("jump", 1)
    \/ FRestart /\ Len(fcerts) >= 1 /\ Ration("restart", 2)
    \/ FStopInSync /\ Ration("stop", 2)
    \/ FStopInSyncOpenFirst /\ Ration("stop", 2)

SpecH == /\ Init /\ hist = <<>>
         /\ cnt = [lahead |-> 0, lskip |-> 0, down |-> 0, wait |-> 0, stall |-> 0, noop |-> 0, sigwait |-> 0, late |-> 0, fahead |-> 0, fskip |-> 0,
                   jump |-> 0, restart |-> 0, stop |-> 0]
         /\ [][GenNext /\ hist' = Append(hist, last')]_<<vars, hist, cnt>>

DupCauses == {IF fcerts[pr[1]].entity \in stopped THEN "stop_in_sync" ELSE "synced_master_not_msd" :
                 pr \in {q \in LiveStd \X LiveStd : q[1] < q[2] /\ fcerts[q[1]].entity = fcerts[q[2]].entity}}
Syncs == {i \in DOMAIN hist : "step" \in DOMAIN hist[i] /\ hist[i].step = "store"}
Sched == ToJson([steps |-> hist, warm |-> Warm, nf |-> Len(fcerts), nown |-> nown,
                 nsync |-> Cardinality(Syncs), nl |-> Len(lcerts),
                 dup |-> ~NoDoubleCertification, dupcauses |-> DupCauses])
GenPrint == Len(hist) \in {GenDepth, (GenDepth * 3) \div 4, GenDepth \div 2} => PrintT(<<"SCHED", Sched>>)

(* DIRECTED GEN: breadth-first search of the unpaced model (states identified without the history: the history  *)
(* of a state is one shortest way to it) up to the first state that exhibits a listed finding: a shortest        *)
(* behaviour leading to it, printed as a schedule.                                                              *)
SpecW == /\ Init /\ hist = <<>>
         /\ cnt = [lahead |-> 0, lskip |-> 0, down |-> 0, wait |-> 0, stall |-> 0, noop |-> 0, sigwait |-> 0, late |-> 0, fahead |-> 0, fskip |-> 0,
                   jump |-> 0, restart |-> 0, stop |-> 0]
         /\ [][Next /\ hist' = Append(hist, last') /\ UNCHANGED cnt]_<<vars, hist, cnt>>
Witness(cause) == cause \in DupCauses => (PrintT(<<"SCHED", Sched>>) /\ FALSE)
WitnessStop   == Witness("stop_in_sync")
WitnessNonMsd == Witness("synced_master_not_msd")
=============================================================================
