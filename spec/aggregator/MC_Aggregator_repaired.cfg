CONSTANTS
    Party = {p1, p2}
    Quorum = 2
    MaxEpoch = 3
    MaxImm = 1
    LabelChecked = TRUE
    AtomicSeal = TRUE
    RegSets = {{p1, p2}, {p1}}
    MaxCerts = 3
    MaxDepthHist = 0
    ExcuseDoubleCert = FALSE
    ExcuseRelabel = FALSE
SPECIFICATION Spec
VIEW view
CONSTRAINT Bound
INVARIANTS CertifiedHasCertificate TypeOK KeyInForce ParentRule StopsOnGap NoTwoArtifacts ArtifactRefsItsCertificate NoDoubleCertificationK AttributionK SignerListHonestK
CHECK_DEADLOCK FALSE
