------------------------------- MODULE Follower -------------------------------
(***************************************************************************)
(* The FOLLOWER aggregator (property C14, follower part "C14F"): a node    *)
(* configured with `leader_aggregator_endpoint` that copies the leader's   *)
(* certificate chain and signer registrations and then certifies by itself *)
(* on top of the copied chain.                                             *)
(*                                                                         *)
(* Implementation-shaped model of                                          *)
(*   mithril-aggregator/src/runtime/state_machine.rs                       *)
(*       cycle_idle_follower: wait until the leader serves the same epoch, *)
(*       common idle tasks (epoch initialisation incl. the signer          *)
(*       synchronisation, chain validity), force_sync = validity error,    *)
(*       synchronize_follower_aggregator_certificate_chain, the RESULT OF  *)
(*       THE SYNCHRONISATION replaces the validity result,                 *)
(*       transition_from_idle; cycle_blocked / ready / signing             *)
(*   services/certificate_chain_synchronizer/synchronizer_service.rs       *)
(*       check_sync_state, latest remote certificate, epoch-gap check,     *)
(*       walk to genesis keeping the first certificate of every epoch (the *)
(*       starting certificate is dropped when its parent is in its epoch), *)
(*       insert_or_replace_many = ONE sql statement (`insert or replace    *)
(*       into certificate values (..),(..)`: a replaced row is deleted and *)
(*       re-inserted, i.e. moves to the end of the rowid order), then in a *)
(*       SEPARATE statement the certified open message                     *)
(*       MithrilStakeDistribution(latest.epoch), only if epoch settings    *)
(*       exist for that epoch                                              *)
(*   services/signer_registration/follower.rs  (synchronize_all_signers:   *)
(*       needs the stake distribution of the epoch, stores the leader's    *)
(*       next signers under the current epoch, then recomputes the epoch   *)
(*       data, which needs the signers of the previous epoch)              *)
(*   database/query/certificate/get_master_certificate.rs (parent of a new *)
(*       certificate = most recently stored row among the certificates of  *)
(*       epochs e-1..e that are genesis or whose parent is of another      *)
(*       epoch)                                                            *)
(*                                                                         *)
(* The leader is environment: its store grows as Aggregator.tla's          *)
(* certificate chain does (several certificates per epoch, first of the    *)
(* epoch is the MithrilStakeDistribution one unless that round expired),   *)
(* it may be re-bootstrapped with a new genesis, be ahead of or behind the *)
(* follower, and be unreachable.                                           *)
(*                                                                         *)
(* Everything persisted is a variable that survives FRestart; fsm / phase  *)
(* do not.                                                                 *)
(***************************************************************************)
EXTENDS Integers, Sequences, FiniteSets, TLC

CONSTANTS
    MaxEpoch,
    MaxLCerts,      \* bound on the leader's store
    MaxOwn,         \* bound on the certificates the follower seals itself
    MaxRegen,       \* re-bootstraps of the leader
    MaxLExpire,     \* MithrilStakeDistribution rounds that expire at the leader
    Warm,           \* TRUE: the follower's stores hold stakes + signers of the genesis window
    AtomicSync,     \* TRUE: certificates + open message stored in one step (repaired); FALSE: two steps
    OpenFirst,      \* (two steps) FALSE: certificates, then open message (code); TRUE: open message, then certificates (repaired)
    MarkEntity      \* TRUE: the open message marked certified is the one of the last synchronised
                    \*       certificate's own signed entity (repaired); FALSE: always MSD(epoch) (code)

VARIABLES
    \* ---- the leader (environment) ----
    lepoch,         \* epoch the leader serves (its epoch service)
    lcerts,         \* the leader's certificate table in rowid order: [id, epoch, kind, parent, entity]
    lup,            \* reachable
    lexp,           \* signed entities whose round expired at the leader
    nid,            \* next certificate id of the leader
    \* ---- the follower, persisted ----
    fepoch,         \* (the chain as the follower sees it)
    fcerts,         \* certificate table in rowid order: [id, epoch, kind, parent, entity, origin]
    fopen,          \* open messages: [entity, certified]
    fstk,           \* epochs with a stored stake distribution
    fsig,           \* recording epochs with stored signer registrations
    fset,           \* epochs with stored epoch settings
    nown,           \* number of certificates the follower sealed
    \* ---- the follower, in memory ----
    fsm,            \* [state, tp, entity]
    phase,          \* "none" | "stored" | "opened": inside the synchroniser, between its two persistence steps
    pend,           \* the validated chain the synchroniser holds in memory (while phase # "none")
    \* ---- history ----
    stopped,        \* entities of the last synchronised certificate of an interrupted synchronisation
    last
vars == <<lepoch, lcerts, lup, lexp, nid, fepoch, fcerts, fopen, fstk, fsig, fset, nown, fsm, phase, pend, stopped, last>>
view == <<lepoch, lcerts, lup, lexp, nid, fepoch, fcerts, fopen, fstk, fsig, fset, nown, fsm, phase, pend, stopped>>

lvars == <<lepoch, lcerts, lup, lexp, nid>>
fpers == <<fepoch, fcerts, fopen, fstk, fsig, fset, nown>>

Kinds == <<"MSD", "CSD">>          \* discriminant order
NoEntity == <<"none", 0>>
NoCert == [id |-> 0, epoch |-> 0, kind |-> "none", parent |-> 0, entity |-> NoEntity]
Abs(x) == IF x < 0 THEN -x ELSE x
MaxOf(S) == CHOOSE x \in S : \A y \in S : y <= x
MinOf(S) == CHOOSE x \in S : \A y \in S : x <= y

Init ==
    /\ lepoch = 1
    /\ lcerts = <<[id |-> 1, epoch |-> 1, kind |-> "genesis", parent |-> 0, entity |-> <<"GEN", 1>>]>>
    /\ lup = TRUE /\ lexp = {} /\ nid = 2
    /\ fepoch = 1 /\ fcerts = <<>> /\ fopen = {}
    /\ fstk = IF Warm THEN {0, 1} ELSE {}
    /\ fsig = IF Warm THEN {0, 1} ELSE {}
    /\ fset = {0, 1, 2}                     \* start-up: epoch settings of e-1, e, e+1
    /\ nown = 0
    /\ fsm = [state |-> "idle", tp |-> 0, entity |-> NoEntity]
    /\ phase = "none" /\ pend = <<>>
    /\ stopped = {}
    /\ last = [a |-> "Init"]

-----------------------------------------------------------------------------
(* the leader *)
LGenIdx  == {i \in DOMAIN lcerts : lcerts[i].kind = "genesis"}
LLastGen == MaxOf(LGenIdx)
LLive    == {i \in DOMAIN lcerts : i >= LLastGen}
LFirst(e) == IF \E i \in LLive : lcerts[i].epoch = e THEN MinOf({i \in LLive : lcerts[i].epoch = e}) ELSE 0
LMaster(e) == IF LFirst(e) # 0 THEN LFirst(e) ELSE LFirst(e - 1)
LCertified(en) == \E i \in DOMAIN lcerts : lcerts[i].kind = "std" /\ lcerts[i].entity = en

LCanCertify(k) ==
    LET en == <<k, lepoch>> IN
    /\ lcerts[LLastGen].epoch # lepoch                       \* blocked in the genesis epoch
    /\ lepoch - lcerts[Len(lcerts)].epoch <= 1                \* blocked on an epoch gap
    /\ LMaster(lepoch) # 0
    /\ ~LCertified(en) /\ en \notin lexp
    /\ k = "CSD" => (LCertified(<<"MSD", lepoch>>) \/ <<"MSD", lepoch>> \in lexp)

LCertify(k) ==
    /\ LCanCertify(k) /\ Len(lcerts) < MaxLCerts
    /\ lcerts' = Append(lcerts, [id |-> nid, epoch |-> lepoch, kind |-> "std",
                                 parent |-> lcerts[LMaster(lepoch)].id, entity |-> <<k, lepoch>>])
    /\ nid' = nid + 1
    /\ last' = [a |-> "LCertify", entity |-> k]
    /\ UNCHANGED <<lepoch, lup, lexp, fpers, fsm, phase, pend, stopped>>

LExpire ==
    /\ LCanCertify("MSD") /\ Cardinality(lexp) < MaxLExpire
    /\ lexp' = lexp \cup {<<"MSD", lepoch>>}
    /\ last' = [a |-> "LExpire", entity |-> "MSD"]
    /\ UNCHANGED <<lepoch, lcerts, lup, nid, fpers, fsm, phase, pend, stopped>>

LRegenesis ==
    /\ Cardinality(LGenIdx) <= MaxRegen /\ Len(lcerts) < MaxLCerts
    /\ lcerts[LLastGen].epoch # lepoch
    /\ lcerts' = Append(lcerts, [id |-> nid, epoch |-> lepoch, kind |-> "genesis", parent |-> 0, entity |-> <<"GEN", lepoch>>])
    /\ nid' = nid + 1
    /\ last' = [a |-> "LRegenesis"]
    /\ UNCHANGED <<lepoch, lup, lexp, fpers, fsm, phase, pend, stopped>>

LEpochUp ==
    /\ lepoch < MaxEpoch
    /\ lepoch' = lepoch + 1
    /\ last' = [a |-> "LEpochUp"]
    /\ UNCHANGED <<lcerts, lup, lexp, nid, fpers, fsm, phase, pend, stopped>>

LToggle ==
    /\ lup' = ~lup
    /\ last' = [a |-> IF lup THEN "LeaderDown" ELSE "LeaderUp"]
    /\ UNCHANGED <<lepoch, lcerts, lexp, nid, fpers, fsm, phase, pend, stopped>>

-----------------------------------------------------------------------------
(* the follower's store *)
FIds      == {fcerts[i].id : i \in DOMAIN fcerts}
FHas(id)  == id \in FIds
FIdx(id)  == CHOOSE i \in DOMAIN fcerts : fcerts[i].id = id
FGenIdx   == {i \in DOMAIN fcerts : fcerts[i].kind = "genesis"}
FLastGen  == IF FGenIdx = {} THEN 0 ELSE MaxOf(FGenIdx)

(* get_master_certificate.rs *)
MasterCandidates(cs, e) ==
    {i \in DOMAIN cs :
        /\ cs[i].epoch \in {e - 1, e}
        /\ \/ cs[i].kind = "genesis"
           \/ \E j \in DOMAIN cs : cs[j].id = cs[i].parent /\ cs[j].epoch # cs[i].epoch}
FMaster(e) == IF MasterCandidates(fcerts, e) = {} THEN 0 ELSE MaxOf(MasterCandidates(fcerts, e))

(* certifier_service.rs verify_certificate_chain: the LAST stored certificate, gap check, walk to genesis *)
RECURSIVE ReachesGenesis(_, _, _)
ReachesGenesis(cs, id, fuel) ==
    IF fuel = 0 \/ ~\E i \in DOMAIN cs : cs[i].id = id THEN FALSE
    ELSE LET c == cs[CHOOSE i \in DOMAIN cs : cs[i].id = id] IN
         IF c.kind = "genesis" THEN TRUE ELSE ReachesGenesis(cs, c.parent, fuel - 1)
Validity ==
    IF FLastGen = 0 THEN "ok"                                      \* no genesis: nothing to validate
    ELSE LET c == fcerts[Len(fcerts)] IN
         IF Abs(fepoch - c.epoch) > 1 THEN "gap"
         ELSE IF ReachesGenesis(fcerts, c.id, Len(fcerts) + 1) THEN "ok" ELSE "invalid"

(* synchronizer_service.rs *)
LIdx(id) == CHOOSE i \in DOMAIN lcerts : lcerts[i].id = id
RECURSIVE Walk(_, _)
Walk(c, acc) ==
    IF c.kind = "genesis" THEN <<c>> \o acc
    ELSE LET p == lcerts[LIdx(c.parent)] IN
         Walk(p, IF acc # <<>> \/ p.epoch # c.epoch THEN <<c>> \o acc ELSE acc)
Batch == LET w == Walk(lcerts[Len(lcerts)], <<>>) IN
         [i \in DOMAIN w |-> [id |-> w[i].id, epoch |-> w[i].epoch, kind |-> w[i].kind, parent |-> w[i].parent,
                              entity |-> w[i].entity, origin |-> "leader"]]
BatchIds(b) == {b[i].id : i \in DOMAIN b}
Stored(b) == SelectSeq(fcerts, LAMBDA c : c.id \notin BatchIds(b)) \o b      \* insert or replace, genesis first

SyncNeeded(force) ==
    \/ force
    \/ FLastGen = 0
    \/ fcerts[FLastGen].id # lcerts[LLastGen].id

(* the open message the synchroniser stores for the last synchronised certificate c *)
SyncEntity(c) == IF MarkEntity /\ c.kind = "std" THEN c.entity ELSE <<"MSD", c.epoch>>
WithSyncOpen(open, c) ==
    IF c.epoch \in fset
    THEN {m \in open : m.entity # SyncEntity(c)} \cup {[entity |-> SyncEntity(c), certified |-> TRUE]}
    ELSE open

(* transition_from_idle with an Ok result, on the store cs *)
AfterIdle(cs) ==
    LET g == {i \in DOMAIN cs : cs[i].kind = "genesis"} IN
    IF g = {} \/ cs[MaxOf(g)].epoch = fepoch
    THEN [state |-> "blocked", tp |-> fepoch, entity |-> NoEntity]
    ELSE [state |-> "ready", tp |-> fepoch, entity |-> NoEntity]

-----------------------------------------------------------------------------
(* IDLE *)
FTickIdleWait ==      \* the leader is unreachable (error, state kept) or serves another epoch
    /\ fsm.state = "idle" /\ phase = "none"
    /\ ~lup \/ lepoch # fepoch
    /\ last' = [a |-> "Tick", node |-> "F"]
    /\ UNCHANGED <<lvars, fpers, fsm, phase, pend, stopped>>

FIdle(br) ==
    /\ fsm.state = "idle" /\ phase = "none"
    /\ lup /\ lepoch = fepoch
    /\ LET init   == fsm.tp < fepoch
           stall1 == init /\ fepoch \notin fstk                 \* no stake distribution for the epoch
           sig1   == IF init /\ ~stall1 THEN fsig \cup {fepoch} ELSE fsig
           stall2 == init /\ ~stall1 /\ (fepoch - 1) \notin sig1   \* no signer of the current epoch
           force  == Validity # "ok"
           start  == lcerts[Len(lcerts)]
           open1  == IF init THEN {m \in fopen : m.entity[2] >= fepoch - 1} ELSE fopen   \* inform_epoch clean-up
           branch == IF stall1 \/ stall2 THEN "stall"
                     ELSE IF ~SyncNeeded(force) THEN "skip_sync"
                     ELSE IF Abs(fepoch - start.epoch) > 1 THEN "sync_gap"
                     ELSE IF force THEN "forced" ELSE IF FLastGen = 0 THEN "first" ELSE "regenesis"
       IN
       /\ br = branch
       \* epoch initialisation (persisted even when the cycle then fails)
       /\ fstk' = IF init THEN fstk \cup {fepoch + 1} ELSE fstk
       /\ fset' = IF init THEN fset \cup {fepoch + 1} ELSE fset
       /\ fsig' = sig1
       /\ CASE branch = "stall" ->
                 /\ fopen' = open1
                 /\ UNCHANGED <<fcerts, fsm, phase, pend>>
            [] branch = "skip_sync" ->
                 /\ fopen' = open1
                 /\ fsm' = AfterIdle(fcerts)
                 /\ UNCHANGED <<fcerts, phase, pend>>
            [] branch = "sync_gap" ->                                      \* CertificateEpochGap -> Blocked
                 /\ fopen' = open1
                 /\ fsm' = [state |-> "blocked", tp |-> fepoch, entity |-> NoEntity]
                 /\ UNCHANGED <<fcerts, phase, pend>>
            [] OTHER ->
                 LET b == Batch
                     c == b[Len(b)] IN
                 /\ IF AtomicSync
                    THEN /\ fopen' = WithSyncOpen(open1, c)
                         /\ fcerts' = Stored(b)
                         /\ fsm' = AfterIdle(Stored(b))
                         /\ UNCHANGED <<phase, pend>>
                    ELSE IF OpenFirst
                    THEN /\ fopen' = WithSyncOpen(open1, c)
                         /\ phase' = "opened" /\ pend' = b
                         /\ UNCHANGED <<fsm, fcerts>>
                    ELSE /\ fopen' = open1
                         /\ fcerts' = Stored(b)
                         /\ phase' = "stored" /\ pend' = b
                         /\ UNCHANGED fsm
       /\ last' = [a |-> "Tick", node |-> "F", step |-> IF branch \in {"forced", "first", "regenesis"} THEN "store" ELSE branch,
                   how |-> branch]
    /\ UNCHANGED <<lvars, fepoch, nown, stopped>>

FIdleStall      == fsm.state = "idle" /\ FIdle("stall")
FIdleSkipSync   == fsm.state = "idle" /\ FIdle("skip_sync")
FIdleSyncGap    == fsm.state = "idle" /\ FIdle("sync_gap")
FIdleSyncFirst  == fsm.state = "idle" /\ FIdle("first")
FIdleSyncForced == fsm.state = "idle" /\ FIdle("forced")
FIdleSyncRegenesis == fsm.state = "idle" /\ FIdle("regenesis")
FTickIdle == FIdleStall \/ FIdleSkipSync \/ FIdleSyncGap \/ FIdleSyncFirst \/ FIdleSyncForced \/ FIdleSyncRegenesis

(* synchroniser, second persistence step, then transition_from_idle *)
FSyncOpen ==          \* (code order) the certified open message
    /\ phase = "stored"
    /\ fopen' = WithSyncOpen(fopen, pend[Len(pend)])
    /\ fsm' = AfterIdle(fcerts)
    /\ phase' = "none" /\ pend' = <<>>
    /\ last' = [a |-> "Internal", step |-> "sync_open", skipped |-> pend[Len(pend)].epoch \notin fset]
    /\ UNCHANGED <<lvars, fepoch, fcerts, fstk, fsig, fset, nown, stopped>>

FSyncStore ==         \* (repaired order) the certificates
    /\ phase = "opened"
    /\ fcerts' = Stored(pend)
    /\ fsm' = AfterIdle(Stored(pend))
    /\ phase' = "none" /\ pend' = <<>>
    /\ last' = [a |-> "Internal", step |-> "sync_store"]
    /\ UNCHANGED <<lvars, fepoch, fopen, fstk, fsig, fset, nown, stopped>>

(* BLOCKED *)
FTickBlocked ==
    /\ fsm.state = "blocked" /\ phase = "none"
    /\ fsm' = IF fsm.tp < fepoch THEN [state |-> "idle", tp |-> fsm.tp, entity |-> NoEntity] ELSE fsm
    /\ last' = [a |-> "Tick", node |-> "F"]
    /\ UNCHANGED <<lvars, fpers, phase, pend, stopped>>

(* READY: first signable entity type without a certified open message *)
Workable(k) == ~\E m \in fopen : m.entity = <<k, fepoch>> /\ m.certified
Pick == IF Workable("MSD") THEN "MSD" ELSE IF Workable("CSD") THEN "CSD" ELSE "none"
FTickReady ==
    /\ fsm.state = "ready" /\ phase = "none"
    /\ IF fsm.tp < fepoch
       THEN /\ fsm' = [state |-> "idle", tp |-> fsm.tp, entity |-> NoEntity] /\ UNCHANGED fopen
       ELSE IF Pick = "none"
            THEN UNCHANGED <<fsm, fopen>>
            ELSE LET en == <<Pick, fepoch>> IN
                 /\ fopen' = IF \E m \in fopen : m.entity = en THEN fopen ELSE fopen \cup {[entity |-> en, certified |-> FALSE]}
                 /\ fsm' = [state |-> "signing", tp |-> fepoch, entity |-> en]
    /\ last' = [a |-> "Tick", node |-> "F"]
    /\ UNCHANGED <<lvars, fepoch, fcerts, fstk, fsig, fset, nown, phase, pend, stopped>>

(* SIGNING *)
CanSeal == /\ \E m \in fopen : m.entity = fsm.entity /\ ~m.certified
           /\ FMaster(fepoch) # 0
FSigningLeave ==
    /\ fsm.state = "signing" /\ phase = "none"
    /\ fsm.tp < fepoch
    /\ fsm' = [state |-> "idle", tp |-> fsm.tp, entity |-> NoEntity]
    /\ last' = [a |-> "Tick", node |-> "F"]
    /\ UNCHANGED <<lvars, fpers, phase, pend, stopped>>

FSigningWait ==          \* not enough signatures (yet): the cycle fails and the state is kept
    /\ fsm.state = "signing" /\ phase = "none"
    /\ ~(fsm.tp < fepoch)
    /\ last' = [a |-> "Tick", node |-> "F"]
    /\ UNCHANGED <<lvars, fpers, fsm, phase, pend, stopped>>

(* the signers registered for the epoch have sent a quorum of signatures for the open message;       *)
(* create_certificate: parent = master certificate of the follower's OWN store                       *)
FSeal ==
    /\ fsm.state = "signing" /\ phase = "none"
    /\ ~(fsm.tp < fepoch) /\ CanSeal /\ nown < MaxOwn
    /\ fcerts' = Append(fcerts, [id |-> 100 + nown, epoch |-> fepoch, kind |-> "std",
                                 parent |-> fcerts[FMaster(fepoch)].id, entity |-> fsm.entity, origin |-> "own"])
    /\ fopen' = {IF m.entity = fsm.entity THEN [m EXCEPT !.certified = TRUE] ELSE m : m \in fopen}
    /\ nown' = nown + 1
    /\ fsm' = [state |-> "ready", tp |-> fsm.tp, entity |-> NoEntity]
    /\ last' = [a |-> "Tick", node |-> "F", step |-> "seal", entity |-> fsm.entity[1]]
    /\ UNCHANGED <<lvars, fepoch, fstk, fsig, fset, phase, pend, stopped>>
FTickSigning == FSigningLeave \/ FSigningWait \/ FSeal

(* the signers send signatures for an open message that is already certified (refused: no state change) *)
FSignLate(k) ==
    /\ \E m \in fopen : m.entity = <<k, fepoch>> /\ m.certified
    /\ last' = [a |-> "Sign", node |-> "F", entity |-> k, late |-> TRUE]
    /\ UNCHANGED <<lvars, fpers, fsm, phase, pend, stopped>>

FEpochUp(n) ==
    /\ phase = "none"            \* (a cycle works on the time point it read when it started)
    /\ fepoch + n <= MaxEpoch
    /\ fepoch' = fepoch + n
    /\ last' = [a |-> "EpochUp", node |-> "F", n |-> n]
    /\ UNCHANGED <<lvars, fcerts, fopen, fstk, fsig, fset, nown, fsm, phase, pend, stopped>>

(* the follower process stops (also between the synchroniser's two persistence steps) and restarts; *)
(* start-up needs the leader (network configuration) and completes the epoch settings e-1, e, e+1   *)
FRestartAt(ph) ==
    /\ lup /\ fepoch <= lepoch /\ phase = ph      \* (the leader must serve the configuration of epochs e-1, e, e+1)
    /\ fsm' = [state |-> "idle", tp |-> 0, entity |-> NoEntity]
    /\ phase' = "none" /\ pend' = <<>>
    /\ fset' = fset \cup {fepoch - 1, fepoch, fepoch + 1}
    /\ stopped' = IF ph = "stored" THEN stopped \cup {SyncEntity(pend[Len(pend)])} ELSE stopped
    /\ last' = [a |-> IF ph = "none" THEN "Restart" ELSE "Crash", node |-> "F", at |-> ph]
    /\ UNCHANGED <<lvars, fepoch, fcerts, fopen, fstk, fsig, nown>>
FRestart    == phase = "none" /\ FRestartAt("none")
FStopInSync == phase = "stored" /\ FRestartAt("stored")
FStopInSyncOpenFirst == phase = "opened" /\ FRestartAt("opened")

FTick == FTickIdleWait \/ FTickIdle \/ FTickBlocked \/ FTickReady \/ FTickSigning
Leader == (\E k \in {"MSD", "CSD"} : LCertify(k)) \/ LExpire \/ LRegenesis \/ LEpochUp \/ LToggle
Env == (\E k \in {"MSD", "CSD"} : FSignLate(k)) \/ (\E n \in 1..2 : FEpochUp(n)) \/ FRestart \/ FStopInSync \/ FStopInSyncOpenFirst

Next == FTick \/ FSyncOpen \/ FSyncStore \/ Leader \/ Env
Spec == Init /\ [][Next]_vars

-----------------------------------------------------------------------------
(* The property (C14, on the FOLLOWER's store), stated independently of the code.                       *)
(*                                                                                                      *)
(* The LIVE CHAIN is what the node extends and serves as its current chain: the certificates stored at  *)
(* or after the most recently stored genesis certificate.  Certificates stored before it (an earlier    *)
(* chain: before a re-bootstrap, or the node's own certificates that a forced synchronisation put       *)
(* aside) only have to stay verifiable.                                                                 *)
StdIdx == {i \in DOMAIN fcerts : fcerts[i].kind = "std"}
Live   == {i \in DOMAIN fcerts : FLastGen # 0 /\ i >= FLastGen}
LiveStd == Live \cap StdIdx

(* closed under parents: a client of the follower fetches every parent from the follower *)
Closed == \A i \in StdIdx : FHas(fcerts[i].parent)
AllReachGenesis == \A i \in DOMAIN fcerts : ReachesGenesis(fcerts, fcerts[i].id, Len(fcerts) + 1)

FirstLive(e) == IF \E i \in Live : fcerts[i].epoch = e THEN MinOf({i \in Live : fcerts[i].epoch = e}) ELSE 0
(* links to the first certificate of its epoch, or if it is the first to the first of the previous epoch; never across a gap *)
ParentRule ==
    \A i \in LiveStd :
        LET f == FirstLive(fcerts[i].epoch) IN
        IF f < i THEN fcerts[i].parent = fcerts[f].id
        ELSE /\ FirstLive(fcerts[i].epoch - 1) # 0
             /\ fcerts[i].parent = fcerts[FirstLive(fcerts[i].epoch - 1)].id

NoDoubleCertification == \A i, j \in LiveStd : fcerts[i].entity = fcerts[j].entity => i = j

(* never certifies across a skipped epoch: consecutive certificates of the live chain are at most one epoch apart *)
StopsOnGap == \A i \in Live : (i > FLastGen) => fcerts[i].epoch - fcerts[i - 1].epoch \in {0, 1}

(* nothing older than the live chain is ever produced: what a cycle adds or moves is in the live chain *)
TypeOK == /\ fsm.state \in {"idle", "blocked", "ready", "signing"}
          /\ phase \in {"none", "stored", "opened"}
          /\ \A i, j \in DOMAIN fcerts : fcerts[i].id = fcerts[j].id => i = j
=============================================================================
