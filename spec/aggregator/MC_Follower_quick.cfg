CONSTANTS
    MaxEpoch = 4
    MaxLCerts = 4
    MaxOwn = 2
    MaxRegen = 1
    MaxLExpire = 1
    Warm = TRUE
    AtomicSync = FALSE
    OpenFirst = FALSE
    MarkEntity = FALSE
    ExcuseStop = TRUE
    ExcuseNonMsd = TRUE
SPECIFICATION Spec
VIEW view
CONSTRAINT Bound
CONSTRAINT DownOnlyWhenIdle
INVARIANTS TypeOK Closed AllReachGenesis ParentRule StopsOnGap NoDoubleCertificationK
CHECK_DEADLOCK FALSE
