---------------------------- MODULE FollowerTrace ----------------------------
(***************************************************************************)
(* Contract trace spec for C14 on a FOLLOWER aggregator ("C14F"): accepts  *)
(* or rejects traces of a real follower runtime synchronising from a real  *)
(* leader runtime (harness c14_follower).  After every external stimulus   *)
(* (to the leader, to the follower, to the link between them) the harness  *)
(* logs the whole abstract state of the FOLLOWER's store projected from    *)
(* its database:                                                           *)
(*                                                                         *)
(*  obs = [state, epoch, imm,                                              *)
(*         certs = << [id, parent, epoch, kind, entity, etype, signers,    *)
(*                     avk_rec_epochs, verifies, origin] >>  rowid order   *)
(*         open  = << [entity, certified, expired, past_expiry, epoch] >>  *)
(*         sigs, arts ]                                                    *)
(*                                                                         *)
(*   verifies   the certificate verifies with its whole chain through the  *)
(*              public verifier, every parent being fetched from the       *)
(*              FOLLOWER's own store                                       *)
(*   parent     id of the parent certificate, 0 when the follower's store  *)
(*              does not hold it                                           *)
(*   origin     "leader": the leader's store holds (held) this very        *)
(*              certificate; "own": the follower sealed it                 *)
(*   avk_rec_epochs  recording epochs whose signer set (as registered with *)
(*              the leader) reproduces the certificate's aggregate key     *)
(*                                                                         *)
(* The clauses are those of C14, stated on the follower's store.  The LIVE *)
(* CHAIN of a store is the part stored at or after its most recently       *)
(* stored genesis certificate: the chain the node extends.  What was       *)
(* stored before it (the chain before a re-bootstrap of the leader; the    *)
(* follower's own certificates that a forced re-synchronisation put aside) *)
(* only has to remain verifiable from the follower's store.  A             *)
(* re-synchronisation may therefore re-store certificates (they move to    *)
(* the end of the store): the store is not append-only, but whatever a     *)
(* step adds or moves must form the tail of the new live chain, and a      *)
(* replaced live chain consists of the leader's certificates only.         *)
(***************************************************************************)
EXTENDS Integers, Sequences, FiniteSets, TLC, Json, IOUtils

Rec   == ndJsonDeserialize(IOEnv.TRACE)
Known == ndJsonDeserialize(IOEnv.KNOWN)

VARIABLES l, prev, stopped
\* stopped: signed entities of the last certificate stored by a synchronisation that was interrupted before
\*          its open message was stored (used only to identify the listed known finding)
tvars == <<l, prev, stopped>>
E == Rec[l]
IsEvent(name) == l <= Len(Rec) /\ Rec[l].ev = name /\ Rec[l].seq = l /\ l' = l + 1

Range(s) == {s[i] : i \in DOMAIN s}
MaxOf(S) == CHOOSE x \in S : \A y \in S : y <= x
MinOf(S) == CHOOSE x \in S : \A y \in S : x <= y

MatchesKnown(e, k) == \A f \in DOMAIN k.match : f \in DOMAIN e /\ e[f] = k.match[f]
KnownFor(e) == \E i \in DOMAIN Known :
                  /\ MatchesKnown(e, Known[i])
                  /\ PrintT(<<"KNOWN-USED", ToJson([id |-> Known[i].id, seq |-> l])>>)

-----------------------------------------------------------------------------
(* on one observation *)
Ids(o)    == {o.certs[i].id : i \in DOMAIN o.certs}
Std(o)    == {i \in DOMAIN o.certs : o.certs[i].kind = "std"}
GenIdx(o) == {i \in DOMAIN o.certs : o.certs[i].kind = "genesis"}
LiveStart(o) == IF GenIdx(o) = {} THEN 0 ELSE MaxOf(GenIdx(o))
Live(o)    == {i \in DOMAIN o.certs : LiveStart(o) # 0 /\ i >= LiveStart(o)}
LiveStd(o) == Live(o) \cap Std(o)

(* every stored certificate verifies with its whole chain, fetched from the follower *)
ChainVerifies(o) == \A i \in DOMAIN o.certs : o.certs[i].verifies
(* closed under parents *)
Closed(o) == \A i \in Std(o) : o.certs[i].parent \in Ids(o)

KeyInForce(o) == \A i \in Std(o) : (o.certs[i].epoch - 1) \in Range(o.certs[i].avk_rec_epochs)

HasLive(o, e)   == \E i \in Live(o) : o.certs[i].epoch = e
FirstLive(o, e) == MinOf({i \in Live(o) : o.certs[i].epoch = e})
(* links to the first certificate of its epoch or, being the first, to the first of the preceding epoch *)
ParentRule(o) ==
    \A i \in LiveStd(o) :
        LET c == o.certs[i]  f == FirstLive(o, c.epoch) IN
        IF f < i THEN c.parent = o.certs[f].id
        ELSE HasLive(o, c.epoch - 1) /\ c.parent = o.certs[FirstLive(o, c.epoch - 1)].id

(* never a chain with an epoch gap *)
NoGap(o) == \A i \in Live(o) : i > LiveStart(o) => (o.certs[i].epoch - o.certs[i - 1].epoch) \in {0, 1}

(* no signed entity certified twice *)
DupLive(o) == {o.certs[a].entity : a \in {x \in LiveStd(o) : \E y \in LiveStd(o) : x # y /\ o.certs[x].entity = o.certs[y].entity}}
NoDoubleCertification(o) ==
    \A en \in DupLive(o) :
        \/ en \in stopped /\ KnownFor([ev |-> "DoubleCertification", cause |-> "stop_between_sync_store_and_open_message"])
        \/ /\ \E x \in LiveStd(o) : /\ o.certs[x].entity = en /\ o.certs[x].origin = "leader"
                                    /\ o.certs[x].etype # "MSD" /\ FirstLive(o, o.certs[x].epoch) = x
           /\ KnownFor([ev |-> "DoubleCertification", cause |-> "synced_epoch_master_is_not_msd"])

ObsInv(o) ==
    /\ ChainVerifies(o) /\ Closed(o)
    /\ KeyInForce(o)
    /\ ParentRule(o) /\ NoGap(o)
    /\ NoDoubleCertification(o)

-----------------------------------------------------------------------------
(* on two consecutive observations p, o (o follows the action e.action) *)
PosIn(o, id) == CHOOSE i \in DOMAIN o.certs : o.certs[i].id = id
NewIdx(p, o) == {i \in DOMAIN o.certs : o.certs[i].id \notin Ids(p)}
(* a certificate was stored again (a re-stored row goes to the end of the store) when one that used to follow it now precedes it *)
Restored(p, o) == {i \in DOMAIN o.certs :
                     /\ o.certs[i].id \in Ids(p)
                     /\ \E j \in DOMAIN o.certs : /\ j < i /\ o.certs[j].id \in Ids(p)
                                                  /\ PosIn(p, o.certs[j].id) > PosIn(p, o.certs[i].id)}
Moved(p, o) == NewIdx(p, o) \cup Restored(p, o)          \* what the step added or stored again

NewOwnRules(p, o, i) ==
    LET c == o.certs[i] IN
    /\ c.kind = "std"
    /\ c.epoch = o.epoch
    \* never certifies across a skipped epoch
    /\ Live(p) # {} /\ c.epoch - MaxOf({p.certs[j].epoch : j \in Live(p)}) <= 1
    \* sealed for an open message that was open
    /\ \E m \in DOMAIN p.open : /\ p.open[m].entity = c.entity /\ ~p.open[m].certified
                                /\ ~p.open[m].expired /\ ~p.open[m].past_expiry
    /\ Range(c.signers) # {}

StepOk(p, e) ==
    LET o == e.obs  ch == Moved(p, o) IN
    ch # {} =>
        /\ \A i \in ch : \A j \in DOMAIN o.certs : j > i => j \in ch      \* what is stored is stored at the end
        /\ LiveStart(o) # 0 /\ \A i \in ch : i >= LiveStart(o)             \* ... and is (the tail of) the live chain
        /\ \A i \in ch :
              IF o.certs[i].origin = "own" THEN i \in NewIdx(p, o) /\ NewOwnRules(p, o, i) ELSE o.certs[i].origin = "leader"
        \* a replaced live chain is a chain of the leader's certificates
        /\ LiveStart(o) \in ch => \A i \in Live(o) : o.certs[i].origin = "leader"

-----------------------------------------------------------------------------
TraceInit == l = 1 /\ prev = [none |-> TRUE] /\ stopped = {}

TStart ==
    /\ IsEvent("Start")
    /\ stopped' = {}
    /\ prev' = E.obs
    /\ E.obs.certs = <<>> \/ (ObsInv(E.obs) = TRUE)

TObs ==
    /\ IsEvent("Obs")
    /\ stopped' = IF E.action.a = "Crash" /\ "hit" \in DOMAIN E.result /\ E.result.hit /\ E.result.at = "sync.after_store"
                  THEN stopped \cup {E.result.entity} ELSE stopped
    /\ StepOk(prev, E) = TRUE
    /\ ObsInv(E.obs) = TRUE
    /\ prev' = E.obs

TraceNext == TStart \/ TObs
TraceSpec == TraceInit /\ [][TraceNext]_tvars

(* which clause the first unexplained event breaks (diagnostic only) *)
Why(d) ==
    LET o == Rec[d + 1].obs IN
    [verifies |-> ChainVerifies(o), closed |-> Closed(o), key_in_force |-> KeyInForce(o), parent_rule |-> ParentRule(o),
     no_gap |-> NoGap(o), duplicated |-> DupLive(o),
     step |-> IF d >= 1 /\ Rec[d + 1].ev = "Obs" THEN StepOk(Rec[d].obs, Rec[d + 1]) ELSE TRUE,
     certs |-> [i \in DOMAIN o.certs |-> <<o.certs[i].id, o.certs[i].parent, o.certs[i].epoch, o.certs[i].entity, o.certs[i].origin>>]]

TraceAccepted ==
    LET d == TLCGet("stats").diameter - 1 IN
    /\ PrintT(<<"TRACE-RESULT",
                ToJson([matched |-> d, total |-> Len(Rec),
                        first_unmatched |-> IF d < Len(Rec)
                                            THEN [ev |-> Rec[d + 1].ev, seq |-> Rec[d + 1].seq,
                                                  action |-> IF "action" \in DOMAIN Rec[d + 1] THEN Rec[d + 1].action ELSE [a |-> "none"],
                                                  why |-> Why(d)]
                                            ELSE [ev |-> "none", seq |-> 0, action |-> [a |-> "none"], why |-> [none |-> TRUE]]])>>)
    /\ d = Len(Rec)
=============================================================================
