CONSTANTS
    MaxEpoch = 7
    MaxLCerts = 10
    MaxOwn = 6
    MaxRegen = 1
    MaxLExpire = 2
    Warm = TRUE
    AtomicSync = FALSE
    OpenFirst = FALSE
    MarkEntity = FALSE
    ExcuseStop = TRUE
    ExcuseNonMsd = TRUE
    GenDepth = 60
SPECIFICATION SpecH
CONSTRAINT Bound
INVARIANTS TypeOK Closed AllReachGenesis ParentRule StopsOnGap NoDoubleCertificationK GenPrint
CHECK_DEADLOCK FALSE
