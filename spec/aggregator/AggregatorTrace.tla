--------------------------- MODULE AggregatorTrace ---------------------------
(***************************************************************************)
(* Contract trace spec for C14 / C15 / C16: accepts or rejects traces of   *)
(* the real aggregator runtime.  After every external stimulus the harness *)
(* logs the whole abstract state projected from the database:              *)
(*                                                                         *)
(*  obs = [state, epoch, imm,                                              *)
(*         certs = << [id, parent, epoch, kind, entity, signers,           *)
(*                     avk_rec_epochs, verifies] >>   in creation order    *)
(*         open  = << [entity, certified, expired, past_expiry, epoch] >>  *)
(*         sigs  = << [entity, label, reg_epoch, owner, sigma] >>          *)
(*         arts  = << [entity, cert] >> ]                                  *)
(*                                                                         *)
(*   verifies        the certificate verifies with its whole chain through *)
(*                   the public path a client uses                         *)
(*   avk_rec_epochs  the recording epochs whose registered signer set      *)
(*                   reproduces the certificate's aggregate key            *)
(*   label / owner   the party a signature row is stored under / the party *)
(*                   whose registered key really verifies it (-1: nobody)  *)
(*                                                                         *)
(* The contract states the property clauses on every observation and on    *)
(* every pair of consecutive observations; it does not require the steps   *)
(* to be transitions of the implementation-shaped Aggregator.tla.          *)
(***************************************************************************)
EXTENDS Integers, Sequences, FiniteSets, TLC, Json, IOUtils

Rec   == ndJsonDeserialize(IOEnv.TRACE)
Known == ndJsonDeserialize(IOEnv.KNOWN)

VARIABLES l, prev, crashed, stopped
\* crashed: entities whose certification was interrupted between the certificate insert and the
\*          open-message update (used only to identify the listed known finding)
\* stopped: a process stop was injected earlier in this run (the aggregator has been restarted from its database since)
tvars == <<l, prev, crashed, stopped>>
E == Rec[l]
IsEvent(name) == l <= Len(Rec) /\ Rec[l].ev = name /\ Rec[l].seq = l /\ l' = l + 1

Range(s) == {s[i] : i \in DOMAIN s}
MaxOf(S) == CHOOSE x \in S : \A y \in S : y <= x

MatchesKnown(e, k) == \A f \in DOMAIN k.match : f \in DOMAIN e /\ e[f] = k.match[f]
KnownFor(e) == \E i \in DOMAIN Known :
                  /\ MatchesKnown(e, Known[i])
                  /\ PrintT(<<"KNOWN-USED", ToJson([id |-> Known[i].id, seq |-> l])>>)

-----------------------------------------------------------------------------
(* C14 -- on one observation *)
Std(o) == {i \in DOMAIN o.certs : o.certs[i].kind = "std"}

ChainVerifies(o) == \A i \in DOMAIN o.certs : o.certs[i].verifies

KeyInForce(o) ==     \* the aggregate key is the one of the signers registered for that epoch
    \A i \in Std(o) : (o.certs[i].epoch - 1) \in Range(o.certs[i].avk_rec_epochs)

FirstOfEpoch(o, e) == CHOOSE i \in DOMAIN o.certs :
                         /\ o.certs[i].epoch = e
                         /\ \A j \in DOMAIN o.certs : o.certs[j].epoch = e => i <= j
HasEpoch(o, e) == \E i \in DOMAIN o.certs : o.certs[i].epoch = e
ParentRule(o) ==
    \A i \in Std(o) :
        LET c == o.certs[i]  f == FirstOfEpoch(o, c.epoch) IN
        IF f < i THEN c.parent = o.certs[f].id
        ELSE HasEpoch(o, c.epoch - 1) /\ c.parent = o.certs[FirstOfEpoch(o, c.epoch - 1)].id

DupEntities(o) == {o.certs[i].entity : i \in {a \in DOMAIN o.certs :
                                                 \E b \in DOMAIN o.certs : a # b /\ o.certs[a].entity = o.certs[b].entity}}
NoDoubleCertification(o) ==
    \A en \in DupEntities(o) :
        en \in crashed /\ KnownFor([ev |-> "DoubleCertification", cause |-> "stop_between_cert_insert_and_mark"])

(* C15 -- a round flagged certified has its certificate: otherwise it is never retried nor superseded *)
CertifiedHasCertificate(o) ==
    \A m \in DOMAIN o.open : o.open[m].certified => \E i \in DOMAIN o.certs : o.certs[i].entity = o.open[m].entity

(* C15 -- artifacts *)
NoTwoArtifacts(o) == \A a, b \in DOMAIN o.arts : o.arts[a].entity = o.arts[b].entity => a = b
ArtifactRefsItsCertificate(o) ==
    \A a \in DOMAIN o.arts : \E i \in DOMAIN o.certs :
        o.certs[i].id = o.arts[a].cert /\ o.certs[i].entity = o.arts[a].entity

(* C16 -- attribution *)
(* the listed known finding covers exactly: a VALID signature (some registered party's key verifies *)
(* it for this open message) stored under another registered party's name.  A row whose signature   *)
(* nobody's key verifies (owner = -1) is never excused.                                             *)
Attribution(o) ==
    \A s \in DOMAIN o.sigs :
        \/ o.sigs[s].owner = o.sigs[s].label
        \/ (o.sigs[s].owner >= 0 /\ KnownFor([ev |-> "SigRow", relabelled |-> TRUE]))
OnePlace(o) ==
    \A a, b \in DOMAIN o.sigs :
        (o.sigs[a].entity = o.sigs[b].entity /\ o.sigs[a].sigma = o.sigs[b].sigma
            /\ o.sigs[a].label # o.sigs[b].label)
        => (o.sigs[a].owner >= 0 /\ KnownFor([ev |-> "SigRow", relabelled |-> TRUE]))

(* which clauses this run enforces: the check of each property enforces that property's clauses *)
Prop == IOEnv.PROP
C14 == Prop = "C14"
C15 == Prop = "C15"
C16 == Prop = "C16"

ObsInv(o) ==
    /\ (C14 \/ C15) => ChainVerifies(o)
    /\ C14 => (KeyInForce(o) /\ ParentRule(o))
    /\ (C14 \/ C15) => NoDoubleCertification(o)
    /\ C15 => (NoTwoArtifacts(o) /\ ArtifactRefsItsCertificate(o) /\ CertifiedHasCertificate(o))
    /\ C16 => (Attribution(o) /\ OnePlace(o))

-----------------------------------------------------------------------------
(* on two consecutive observations p, o (o follows the action e.action) *)
AppendOnly(p, o) ==
    /\ Len(p.certs) <= Len(o.certs)
    /\ \A i \in DOMAIN p.certs : o.certs[i].id = p.certs[i].id /\ o.certs[i].entity = p.certs[i].entity

NewCerts(p, o) == {i \in DOMAIN o.certs : i > Len(p.certs)}
OwnersFor(p, en) == {p.sigs[s].owner : s \in {t \in DOMAIN p.sigs : p.sigs[t].entity = en}}
LabelsFor(p, en) == {p.sigs[s].label : s \in {t \in DOMAIN p.sigs : p.sigs[t].entity = en}}

NewCertRules(p, o) ==
    \A i \in NewCerts(p, o) :
        LET c == o.certs[i] IN
        c.kind = "std" =>
            /\ c.epoch = o.epoch
            \* StopsOnGap: never certifies across a skipped epoch
            /\ p.certs # <<>> /\ c.epoch - MaxOf({p.certs[j].epoch : j \in DOMAIN p.certs}) <= 1
            \* sealed for an open message that was open, with signatures of parties registered for the epoch
            \* (past_expiry: the expiry date of the row had passed before the tick, whatever the flag says)
            /\ \E m \in DOMAIN p.open : p.open[m].entity = c.entity /\ ~p.open[m].expired /\ ~p.open[m].past_expiry
                                        /\ (~p.open[m].certified \/ c.entity \in crashed)
            /\ Range(c.signers) # {}

(* C16: a submission never makes another party's stored contribution disappear or change *)
KeepsOthers(p, e) ==
    e.action.a = "Sign" /\ e.result.ok =>
        \A s \in DOMAIN p.sigs :
            LET r == p.sigs[s] IN
            (r.entity = e.result.entity /\ r.owner = r.label /\ r.owner # e.action.who)
                => \/ \E t \in DOMAIN e.obs.sigs : e.obs.sigs[t] = r
                   \/ (e.action.who # e.action.label /\ e.action.variant = "ok"
                          /\ KnownFor([ev |-> "SigRow", relabelled |-> TRUE]))

(* C16: submissions consumed as one batch (message-queue path): another party's submission in the same     *)
(* batch -- refused or not, before or after -- does not make an honest contribution disappear: a signature *)
(* that the named party's own registered key verifies, for an open message that is open, is recorded       *)
OpenAt(p, en) == \E m \in DOMAIN p.open : p.open[m].entity = en /\ ~p.open[m].certified /\ ~p.open[m].expired
                                          /\ ~p.open[m].past_expiry
BatchDelivers(p, e) ==
    e.action.a = "SignBatch" =>
        /\ \A i \in DOMAIN e.result.items :
              LET it == e.result.items[i] IN
              (it.built /\ it.owner >= 0 /\ it.owner = it.label /\ OpenAt(p, it.entity))
                  => \E t \in DOMAIN e.obs.sigs : /\ e.obs.sigs[t].entity = it.entity
                                                 /\ e.obs.sigs[t].label = it.label /\ e.obs.sigs[t].owner = it.label
        /\ \A s \in DOMAIN p.sigs :                 \* rows of honest parties are kept
              (p.sigs[s].owner = p.sigs[s].label) => \E t \in DOMAIN e.obs.sigs : e.obs.sigs[t] = p.sigs[s]

(* C16: the published signer list names only parties whose own key signed *)
SignerListHonest(p, o) ==
    \A i \in NewCerts(p, o) :
        o.certs[i].kind = "std" =>
            \/ Range(o.certs[i].signers) \subseteq OwnersFor(p, o.certs[i].entity)
            \/ /\ \A q \in Range(o.certs[i].signers) :       \* every listed name has a row holding a valid signature
                     \E s \in DOMAIN p.sigs : p.sigs[s].entity = o.certs[i].entity /\ p.sigs[s].label = q
                                               /\ p.sigs[s].owner >= 0
               /\ KnownFor([ev |-> "SigRow", relabelled |-> TRUE])

StepOk(p, e) ==
    /\ AppendOnly(p, e.obs)
    /\ C14 => (NewCertRules(p, e.obs) /\ SignerListHonest(p, e.obs))   \* "... on which signers registered for that epoch HAD SIGNED"
    /\ C16 => (KeepsOthers(p, e) /\ BatchDelivers(p, e) /\ SignerListHonest(p, e.obs))

-----------------------------------------------------------------------------
TraceInit == l = 1 /\ prev = [none |-> TRUE] /\ crashed = {} /\ stopped = FALSE

TStart ==
    /\ IsEvent("Start")
    /\ crashed' = {} /\ stopped' = FALSE
    /\ prev' = E.obs
    /\ LET saved == crashed IN ObsInv(E.obs)

TObs ==
    /\ IsEvent("Obs")
    /\ crashed' = IF E.action.a = "Crash" /\ E.result.hit /\ E.result.at = "certifier.after_cert_insert"
                  THEN crashed \cup {E.result.entity} ELSE crashed
    /\ stopped' = (stopped \/ (E.action.a = "Crash" /\ E.result.hit))
    \* C15 "resumable": once restarted after a stop, the aggregator does not die by itself on what the stop left behind
    \* (a panic of the code under test is recorded by the harness as `panic` in the result, followed by a restart)
    /\ C15 => ~(stopped /\ "panic" \in DOMAIN E.result)
    /\ StepOk(prev, E)
    /\ ObsInv(E.obs)
    /\ prev' = E.obs

(* C15 progress: after the fault-free epilogue the harness appends to a crash scenario, the        *)
(* aggregator certified again                                                                     *)
TProgress ==
    /\ IsEvent("Progress")
    /\ ~C15 \/ E.certified_after_recovery \/ KnownFor([ev |-> "Progress", certified_after_recovery |-> FALSE,
                                              after |-> E.after])
    /\ UNCHANGED <<prev, crashed, stopped>>

TraceNext == TStart \/ TObs \/ TProgress
TraceSpec == TraceInit /\ [][TraceNext]_tvars

TraceAccepted ==
    LET d == TLCGet("stats").diameter - 1 IN
    /\ PrintT(<<"TRACE-RESULT",
                ToJson([matched |-> d, total |-> Len(Rec),
                        first_unmatched |-> IF d < Len(Rec)
                                            THEN [ev |-> Rec[d + 1].ev, seq |-> Rec[d + 1].seq,
                                                  action |-> IF "action" \in DOMAIN Rec[d + 1] THEN Rec[d + 1].action ELSE "none"]
                                            ELSE [ev |-> "none", seq |-> 0, action |-> "none"]])>>)
    /\ d = Len(Rec)
=============================================================================
