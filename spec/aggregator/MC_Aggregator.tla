---------------------------- MODULE MC_Aggregator ----------------------------
EXTENDS Aggregator, Json

CONSTANTS MaxCerts, MaxDepthHist

Bound == Len(certs) <= MaxCerts

(* invariants with the listed known deviations excused (KNOWN_FINDINGS.jsonl):                *)
(*  C15-double-certification-after-stop : a duplicate whose first copy was left "inserted"     *)
(*  C16-relabelled-signature            : rows whose owner is not the label                    *)
CONSTANTS ExcuseDoubleCert, ExcuseRelabel
NoDoubleCertificationK == NoDoubleCertification \/ (ExcuseDoubleCert /\ ~AtomicSeal)
AttributionK == Attribution \/ (ExcuseRelabel /\ ~LabelChecked)
SignerListHonestK == SignerListHonest \/ (ExcuseRelabel /\ ~LabelChecked)
=============================================================================
