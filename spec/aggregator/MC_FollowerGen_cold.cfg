CONSTANTS
    MaxEpoch = 8
    MaxLCerts = 10
    MaxOwn = 6
    MaxRegen = 1
    MaxLExpire = 2
    Warm = FALSE
    AtomicSync = FALSE
    OpenFirst = FALSE
    MarkEntity = FALSE
    ExcuseStop = TRUE
    ExcuseNonMsd = TRUE
    GenDepth = 70
SPECIFICATION SpecH
CONSTRAINT Bound
INVARIANTS TypeOK Closed AllReachGenesis ParentRule StopsOnGap NoDoubleCertificationK GenPrint
CHECK_DEADLOCK FALSE
