CONSTANTS
    MaxEpoch = 6
    MaxLCerts = 5
    MaxOwn = 2
    MaxRegen = 1
    MaxLExpire = 1
    Warm = FALSE
    AtomicSync = FALSE
    OpenFirst = FALSE
    MarkEntity = FALSE
    ExcuseStop = TRUE
    ExcuseNonMsd = TRUE
SPECIFICATION Spec
VIEW view
CONSTRAINT Bound
CONSTRAINT DownOnlyWhenIdle
INVARIANTS TypeOK Closed AllReachGenesis ParentRule StopsOnGap NoDoubleCertificationK
CHECK_DEADLOCK FALSE
