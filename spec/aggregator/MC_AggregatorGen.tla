--------------------------- MODULE MC_AggregatorGen ---------------------------
EXTENDS MC_Aggregator

(* GEN: simulation with a history of the actions taken; one schedule per behaviour.  The         *)
(* environment is the same as in Aggregator.tla but paced so that behaviours are productive:     *)
(* the chain advances when the aggregator has nothing left to do, a round gets one registration, *)
(* faults (restarts, stops, expiry, epoch jumps, relabelled submissions) are rationed.           *)
VARIABLES hist, cnt
CONSTANT GenDepth
NothingToDo == (sm.state = "ready" /\ Pick = 0) \/ sm.state = "blocked"
GenEnv ==
    \/ NothingToDo /\ recorded[epoch + 1] # {} /\ EpochUp(1) /\ UNCHANGED cnt
    \/ cnt.jumps < 1 /\ Len(certs) >= 3 /\ recorded[epoch + 1] # {} /\ EpochUp(2) /\ cnt' = [cnt EXCEPT !.jumps = @ + 1]
    \/ sm.state = "ready" /\ Pick = 0 /\ ImmUp /\ UNCHANGED cnt
    \/ roundFor # 0 /\ recorded[roundFor] = {} /\ (\E S \in RegSets : Register(S)) /\ UNCHANGED cnt
    \/ \E p \in Party : \E en \in OpenEntities : Sign(p, p, en) /\ UNCHANGED cnt
    \/ cnt.early < 3 /\ sm.state = "ready" /\ (\E p \in Party : \E en \in CurrentEntities : SignEarly(p, p, en))
          /\ cnt' = [cnt EXCEPT !.early = @ + 1]
    \/ cnt.relabels < 3 /\ (\E p, lbl \in Party : \E en \in OpenEntities :
                               p # lbl /\ (Sign(p, lbl, en) \/ SignRelabelRefused(p, lbl, en)))
          /\ cnt' = [cnt EXCEPT !.relabels = @ + 1]
    \/ cnt.late < 6 /\ (\E p \in Party : \E en \in OpenEntities : SignLate(p, en)) /\ cnt' = [cnt EXCEPT !.late = @ + 1]
    \/ cnt.bad < 4 /\ (\E p, lbl \in Party : \E en \in OpenEntities : SignBad(p, lbl, en)) /\ cnt' = [cnt EXCEPT !.bad = @ + 1]
    \/ cnt.expires < 2 /\ (\E en \in OpenEntities : Expire(en)) /\ cnt' = [cnt EXCEPT !.expires = @ + 1]
    \/ sealing = "none" /\ cnt.restarts < 2 /\ Len(certs) >= 2 /\ Restart /\ cnt' = [cnt EXCEPT !.restarts = @ + 1]
    \/ sealing # "none" /\ cnt.crashes < 2 /\ Restart /\ cnt' = [cnt EXCEPT !.crashes = @ + 1]
    \/ cnt.crashes < 2 /\ StopBeforeInsert /\ cnt' = [cnt EXCEPT !.crashes = @ + 1]
GenNext == ((Tick \/ Internal) /\ UNCHANGED cnt) \/ GenEnv
SpecH == /\ Init /\ hist = <<>> /\ cnt = [jumps |-> 0, relabels |-> 0, expires |-> 0, restarts |-> 0, crashes |-> 0, early |-> 0, late |-> 0, bad |-> 0]
         /\ [][GenNext /\ hist' = Append(hist, last')]_<<vars, hist, cnt>>
GenPrint == Len(hist) = GenDepth => PrintT(<<"SCHED", ToJson([steps |-> hist, ncerts |-> Len(certs), narts |-> Cardinality(arts)])>>)
=============================================================================
