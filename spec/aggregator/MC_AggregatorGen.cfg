CONSTANTS
    Party = {p1, p2, p3}
    Quorum = 2
    MaxEpoch = 5
    MaxImm = 4
    LabelChecked = TRUE
    AtomicSeal = FALSE
    RegSets = {{p1, p2, p3}, {p1, p2}, {p3}}
    MaxCerts = 8
    MaxDepthHist = 0
    ExcuseDoubleCert = TRUE
    ExcuseRelabel = FALSE
    GenDepth = 70
SPECIFICATION SpecH
CONSTRAINT Bound
INVARIANTS CertifiedHasCertificate TypeOK KeyInForce ParentRule StopsOnGap NoTwoArtifacts ArtifactRefsItsCertificate NoDoubleCertificationK AttributionK SignerListHonestK GenPrint
CHECK_DEADLOCK FALSE
