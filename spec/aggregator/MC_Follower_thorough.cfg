CONSTANTS
    MaxEpoch = 5
    MaxLCerts = 5
    MaxOwn = 3
    MaxRegen = 1
    MaxLExpire = 1
    Warm = TRUE
    AtomicSync = FALSE
    OpenFirst = FALSE
    MarkEntity = FALSE
    ExcuseStop = TRUE
    ExcuseNonMsd = TRUE
SPECIFICATION Spec
VIEW view
CONSTRAINT Bound
INVARIANTS TypeOK Closed AllReachGenesis ParentRule StopsOnGap NoDoubleCertificationK
CHECK_DEADLOCK FALSE
