----------------------------- MODULE MC_Follower -----------------------------
EXTENDS Follower, Json

(* invariants with the listed known deviations excused (KNOWN_FINDINGS.jsonl):                        *)
(*  C14-follower-double-certification-after-stop-in-sync : the synchroniser's two persistence steps    *)
(*      were separated by a process stop (certificates stored, certified open message not)             *)
(*  C14-follower-synced-epoch-master-not-msd : the last synchronised certificate is not the            *)
(*      MithrilStakeDistribution one, yet MSD(epoch) is what gets marked certified                     *)
CONSTANTS ExcuseStop, ExcuseNonMsd
DupExcused(i, j) ==
    \/ ExcuseStop /\ ~AtomicSync /\ fcerts[i].entity \in stopped
    \/ /\ ExcuseNonMsd /\ ~MarkEntity
       /\ \E x \in {i, j} : /\ fcerts[x].origin = "leader" /\ fcerts[x].entity[1] # "MSD"
                            /\ FirstLive(fcerts[x].epoch) = x
NoDoubleCertificationK ==
    \A i, j \in LiveStd : (fcerts[i].entity = fcerts[j].entity /\ i # j) => DupExcused(i, j)

Bound == Len(fcerts) <= MaxLCerts + MaxOwn
(* quick tier: an unreachable leader only matters while the follower is idle (or starts): states in which the   *)
(* leader is down while the follower is blocked / ready / signing are not expanded                              *)
DownOnlyWhenIdle == lup \/ fsm.state = "idle"
=============================================================================
