CONSTANTS
    Bound = 40
    ErrFactor = 3
    XNums = {0, 1, 2, 3, 4, 5, 6, 7, 8, 9, 10, 11, 12}
    XDen = 4
    CmpDen = 4
    CmpMaxNum = 100
    Order = 8
    ExcuseKnown = TRUE
SPECIFICATION Spec
INVARIANTS ExactInv Terminates GenPrint
CHECK_DEADLOCK FALSE
