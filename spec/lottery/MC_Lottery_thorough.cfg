CONSTANTS
    Bound = 40
    ErrFactor = 3
    XNums = {0, 1, 2, 3, 4, 5, 6}
    XDen = 2
    CmpDen = 8
    CmpMaxNum = 200
    Order = 8
    ExcuseKnown = TRUE
SPECIFICATION Spec
INVARIANTS ExactInv Terminates GenPrint
CHECK_DEADLOCK FALSE
