--------------------------------- MODULE Rat ---------------------------------
(* Exact rationals as normalised pairs <<num, den>>, den > 0.  TLC integers are   *)
(* 32-bit and TLC stops with "Overflow" instead of wrapping, so a result is either *)
(* exact or a loud tool error -- never silently wrong.                             *)
EXTENDS Integers

Abs(a) == IF a < 0 THEN -a ELSE a
RECURSIVE Gcd(_, _)
Gcd(a, b) == IF b = 0 THEN a ELSE Gcd(b, a % b)

Norm(n, d) == LET g == Gcd(Abs(n), d) IN IF g = 0 THEN <<0, 1>> ELSE <<n \div g, d \div g>>
R(n, d)    == Norm(n, d)                       \* d > 0
RInt(n)    == <<n, 1>>

Add(a, b) == LET g == Gcd(a[2], b[2]) IN
             Norm(a[1] * (b[2] \div g) + b[1] * (a[2] \div g), (a[2] \div g) * b[2])
Neg(a)    == <<-a[1], a[2]>>
Sub(a, b) == Add(a, Neg(b))
Mul(a, b) == LET g1 == Gcd(Abs(a[1]), b[2])
                 g2 == Gcd(Abs(b[1]), a[2])
                 h1 == IF g1 = 0 THEN 1 ELSE g1
                 h2 == IF g2 = 0 THEN 1 ELSE g2
             IN Norm((a[1] \div h1) * (b[1] \div h2), (a[2] \div h2) * (b[2] \div h1))
DivInt(a, k) == LET g == Gcd(Abs(a[1]), k) IN
                LET h == IF g = 0 THEN 1 ELSE g IN Norm(a[1] \div h, a[2] * (k \div h))   \* k > 0
AbsR(a)   == <<Abs(a[1]), a[2]>>
\* comparisons by cross multiplication over the reduced common part
Lt(a, b)  == LET g == Gcd(a[2], b[2]) IN a[1] * (b[2] \div g) < b[1] * (a[2] \div g)
Gt(a, b)  == Lt(b, a)
Le(a, b)  == ~Lt(b, a)
=============================================================================
