---------------------------- MODULE LotteryTrace ----------------------------
(***************************************************************************)
(* Contract trace spec for C08.                                            *)
(*  Taylor    cmp_n cmp_d x_n x_d won          the real taylor_comparison  *)
(*            judged against the exact rational enclosure of exp(x)        *)
(*  ZeroStake won / PhiOne won                  always lost / always won   *)
(*  MonoPair  d_draw_le0 d_stake_ge0 won1 won2  never flips won -> lost    *)
(*  Agreement signer verifier                   same index sets            *)
(*  Probe     abs_err_e12 side x_milli          decision threshold found   *)
(*            by bisection vs 1-(1-phi_f)^w (harness f64 arithmetic:       *)
(*            smaller-trust sub-result), tolerance 2e-13 absolute           *)
(***************************************************************************)
EXTENDS Rat, Sequences, TLC, Json, IOUtils

INSTANCE Lottery WITH Bound <- 0, ErrFactor <- 3, cmp <- <<0, 1>>, x <- <<0, 1>>, newX <- <<0, 1>>,
                      phi <- <<0, 1>>, divisor <- 1, iter <- 0, result <- "running"

Rec   == ndJsonDeserialize(IOEnv.TRACE)
Known == ndJsonDeserialize(IOEnv.KNOWN)

VARIABLE l
tvars == <<l>>
E == Rec[l]
IsEvent(name) == l <= Len(Rec) /\ Rec[l].ev = name /\ Rec[l].seq = l /\ l' = l + 1
TraceInit == l = 1

OrderFor(xx) == IF Lt(xx, RInt(1)) THEN 5 ELSE 8
TaylorOk(e) ==
    LET c == R(e.cmp_n, e.cmp_d)  xx == R(e.x_n, e.x_d)  n == OrderFor(xx) IN
    /\ Lt(c, ExpLo(xx, n)) => e.won = TRUE
    /\ Gt(c, ExpHi(xx, n)) => e.won = FALSE

MatchesKnown(e, k) == \A f \in DOMAIN k.match : f \in DOMAIN e /\ e[f] = k.match[f]
KnownFor(e) == \E i \in DOMAIN Known :
                  /\ MatchesKnown(e, Known[i])
                  /\ PrintT(<<"KNOWN-USED", ToJson([id |-> Known[i].id, seq |-> l])>>)

TTaylor ==
    /\ IsEvent("Taylor")
    /\ (E.won # E.predicted_won) => PrintT(<<"DRIFT", ToJson([seq |-> l])>>)
    /\ TaylorOk(E) \/ KnownFor(E)

TZeroStake == IsEvent("ZeroStake") /\ E.won = FALSE
TPhiOne    == IsEvent("PhiOne") /\ E.won = TRUE
TMonoPair  == IsEvent("MonoPair") /\ ((E.d_draw_le0 /\ E.d_stake_ge0 /\ E.won1 = TRUE) => E.won2 = TRUE)
TAgreement == IsEvent("Agreement") /\ E.signer = E.verifier
\* 2e-13 absolute: the decision is exact for x <= 2.65 (rigorous error bound), the harness oracle is f64
\* arithmetic on a probability (absolute error of a few 1e-16), the bisection resolves 2^-128
ProbeOk(e) == e.abs_err_e15 <= 200
TProbe     == IsEvent("Probe") /\ (ProbeOk(E) \/ KnownFor(E))

TraceNext == TTaylor \/ TZeroStake \/ TPhiOne \/ TMonoPair \/ TAgreement \/ TProbe
TraceSpec == TraceInit /\ [][TraceNext]_tvars

TraceAccepted ==
    LET d == TLCGet("stats").diameter - 1 IN
    /\ PrintT(<<"TRACE-RESULT",
                ToJson([matched |-> d, total |-> Len(Rec),
                        first_unmatched |-> IF d < Len(Rec) THEN Rec[d + 1] ELSE [ev |-> "none"]])>>)
    /\ d = Len(Rec)
=============================================================================
