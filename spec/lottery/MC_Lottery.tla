----------------------------- MODULE MC_Lottery -----------------------------
EXTENDS Lottery, Json

CONSTANTS XNums, XDen, CmpDen, CmpMaxNum, Order, ExcuseKnown

Grid == {<<c, xx>> \in (CmpDen..CmpMaxNum) \X XNums : TRUE}

Init == \E g \in Grid : InitWith(R(g[1], CmpDen), R(g[2], XDen))
Spec == Init /\ [][Next]_vars

OrderOf == IF Lt(x, RInt(1)) THEN 5 ELSE Order
ExactInv == Exact(OrderOf) \/ (ExcuseKnown /\ KnownLargeX(OrderOf))

(* GEN: every terminated grid point with the model's decision *)
GenPrint ==
    result # "running" =>
        PrintT(<<"CASE", ToJson([cmp_n |-> cmp[1], cmp_d |-> cmp[2], x_n |-> x[1], x_d |-> x[2],
                                 decision |-> result, iters |-> iter])>>)
=============================================================================
