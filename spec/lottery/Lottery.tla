------------------------------- MODULE Lottery -------------------------------
(***************************************************************************)
(* The signing lottery's decision procedure (property C08).                *)
(*                                                                         *)
(* Implementation-shaped: a line-by-line transcription of                  *)
(*   mithril-stm/src/proof_system/concatenation/eligibility.rs             *)
(*       taylor_comparison(bound, cmp, x)     "is cmp < exp(x) ?"          *)
(* as a state machine (one action per loop iteration, the two early exits, *)
(* `false` on exhaustion), over exact rationals.                           *)
(*                                                                         *)
(* The property: the decision equals the exact comparison of cmp with      *)
(* exp(x) outside a negligible band.  exp(x) is enclosed between the       *)
(* partial sum ExpLo and ExpLo + geometric remainder bound ExpHi, both     *)
(* exact rationals; inside [ExpLo, ExpHi] either answer is allowed.        *)
(***************************************************************************)
EXTENDS Rat, Sequences, TLC

CONSTANTS Bound,        \* iteration cap of the code (1000); the model uses what the grid needs
          ErrFactor     \* the `M` of the code's error term: 3

VARIABLES cmp, x,               \* the inputs (rationals)
          newX, phi, divisor,   \* the loop variables of the code
          iter, result          \* "running" | "won" | "lost"
vars == <<cmp, x, newX, phi, divisor, iter, result>>

InitWith(c, xx) ==
    /\ cmp = c /\ x = xx
    /\ newX = xx /\ phi = RInt(1) /\ divisor = 1
    /\ iter = 0 /\ result = "running"

(* one loop iteration *)
Step ==
    /\ result = "running" /\ iter < Bound
    /\ LET phi1  == Add(phi, newX)
           div1  == divisor + 1
           newX1 == DivInt(Mul(newX, x), div1)
           err   == Mul(AbsR(newX1), RInt(ErrFactor))
       IN /\ phi' = phi1 /\ divisor' = div1 /\ newX' = newX1
          /\ result' = IF Gt(cmp, Add(phi1, err)) THEN "lost"
                       ELSE IF Lt(cmp, Sub(phi1, err)) THEN "won"
                       ELSE "running"
    /\ iter' = iter + 1
    /\ UNCHANGED <<cmp, x>>

(* `false` when the iteration cap is reached *)
Exhaust ==
    /\ result = "running" /\ iter >= Bound
    /\ result' = "lost"
    /\ UNCHANGED <<cmp, x, newX, phi, divisor, iter>>

Next == Step \/ Exhaust

-----------------------------------------------------------------------------
(* rational enclosure of exp(xx), xx >= 0, order n, requires xx < n + 2       *)
RECURSIVE PartialSum(_, _, _, _)
PartialSum(xx, n, k, term) ==        \* sum_{j=k..n} of terms, term = xx^k/k!
    IF k > n THEN RInt(0)
    ELSE Add(term, PartialSum(xx, n, k + 1, DivInt(Mul(term, xx), k + 1)))
RECURSIVE Term(_, _)
Term(xx, k) == IF k = 0 THEN RInt(1) ELSE DivInt(Mul(Term(xx, k - 1), xx), k)

ExpLo(xx, n) == PartialSum(xx, n, 0, RInt(1))
ExpHi(xx, n) ==
    \* remainder <= t_{n+1} * (n+2) / (n+2 - xx)
    LET t == Term(xx, n + 1)
        d == Sub(RInt(n + 2), xx)                     \* > 0
    IN Add(ExpLo(xx, n), Mul(Mul(t, RInt(n + 2)), <<d[2], d[1]>>))

(* The property, on a terminated run *)
Exact(n) ==
    result # "running" =>
        /\ Lt(cmp, ExpLo(x, n)) => result = "won"
        /\ Gt(cmp, ExpHi(x, n)) => result = "lost"

(* known deviation C08-error-bound-large-x: for x > 2.65 the error term 3*|next term| *)
(* under-estimates the remainder and the first iterations answer "lost" too early      *)
KnownLargeX(n) == Gt(x, R(53, 20)) /\ result = "lost" /\ Lt(cmp, ExpLo(x, n))

Terminates == iter <= Bound
=============================================================================
