--------------------------- MODULE MC_MerkleBatch ---------------------------
EXTENDS MerkleBatch, Json

CONSTANTS MaxN, MaxBatch, MaxValues, Mode      \* Mode: "sound" | "complete" | "gen"

VARIABLES n, vals, proof
vars == <<n, vals, proof>>

Leaves(k) == [i \in 1..k |-> i]                         \* committed leaf values 1..k
Foreign   == 99                                         \* a value that is not committed
AllNodes(k) == {Node(Leaves(k), i) : i \in 0..(NumNodes(k) - 1)}
Universe(k) == AllNodes(k) \cup {L(Foreign), Z, <<"J", 1>>}
SortedSubsets(k) == {s \in UNION {[1..j -> 0..(k - 1)] : j \in 1..k} :
                        \A i \in 1..(Len(s) - 1) : s[i] < s[i + 1]}

InitSound ==
    /\ n \in 1..MaxN
    /\ \E b \in 0..MaxBatch :
          /\ vals \in [1..b -> (1..n) \cup {Foreign}]
          /\ \E ix \in [1..b -> 0..(n + 2)] : \E nv \in 0..MaxValues :
                \E vs \in [1..nv -> Universe(n)] : proof = [values |-> vs, indices |-> ix]

InitComplete ==
    /\ n \in 1..MaxN
    /\ \E s \in SortedSubsets(n) :
          /\ vals = [j \in DOMAIN s |-> s[j] + 1]
          /\ proof = BatchPath(Leaves(n), s)

(* GEN: honest proofs and every proof one change away from an honest one *)
Variants(k, s) ==
    LET hp == BatchPath(Leaves(k), s)
        hv == [j \in DOMAIN s |-> s[j] + 1] IN
    {[vals |-> hv, proof |-> hp]}
    \cup {[vals |-> hv, proof |-> [hp EXCEPT !.values[i] = u]] : i \in DOMAIN hp.values, u \in Universe(k)}
    \cup {[vals |-> hv, proof |-> [hp EXCEPT !.values = SubSeq(hp.values, 1, Len(hp.values) - 1)]]}
    \cup {[vals |-> hv, proof |-> [hp EXCEPT !.values = Append(hp.values, u)]] : u \in {Z, L(Foreign)}}
    \cup {[vals |-> hv, proof |-> [hp EXCEPT !.indices[j] = x]] : j \in DOMAIN s, x \in 0..(k + 2)}
    \cup {[vals |-> [hv EXCEPT ![j] = w], proof |-> hp] : j \in DOMAIN s, w \in (1..k) \cup {Foreign}}
    \cup {[vals |-> Append(hv, w), proof |-> [hp EXCEPT !.indices = Append(hp.indices, x)]] :
              w \in {1, Foreign}, x \in {s[Len(s)], k - 1, k, k + 1}}
    \cup {[vals |-> hv \o hv, proof |-> [hp EXCEPT !.indices = hp.indices \o hp.indices,
                                                  !.values = hp.values \o hp.values]]}
InitGen ==
    /\ n \in 1..MaxN
    /\ \E s \in SortedSubsets(n) : \E v \in Variants(n, s) : vals = v.vals /\ proof = v.proof

Init == CASE Mode = "sound" -> InitSound [] Mode = "complete" -> InitComplete [] OTHER -> InitGen
Next == UNCHANGED vars
Spec == Init /\ [][Next]_vars

SoundInv    == Sound(Leaves(n), vals, proof)
CompleteInv == Mode = "complete" => VerifyBatch(Root(Leaves(n)), n, vals, proof)
GenPrint ==
    Mode = "gen" =>
        PrintT(<<"CASE", ToJson([n |-> n, vals |-> vals, values |-> proof.values, indices |-> proof.indices,
                                 root |-> Root(Leaves(n)),
                                 impl |-> VerifyBatch(Root(Leaves(n)), n, vals, proof)])>>)
=============================================================================
