---------------------------- MODULE MerkleTrace ----------------------------
(***************************************************************************)
(* Contract trace spec for C09 (all three structures).                     *)
(*  HonestProof structure n indices accepted                               *)
(*        a proof generated for a non-empty selection of committed leaves  *)
(*        must verify against the commitment                               *)
(*  BatchVerify n vouched accepted        (signer-registration tree)       *)
(*  MkVerify    n root_ok vouched accepted   (generic tree)                *)
(*  MapVerify   root_ok vouched accepted     (nested block-range map)      *)
(*        vouched = what the proof object vouches for, each with           *)
(*        committed = it really is a committed leaf at the stated position *)
(*        (recomputed by the harness from the values handed to the real    *)
(*        verifier); a proof accepted against the commitment may only      *)
(*        vouch for committed items                                        *)
(***************************************************************************)
EXTENDS Naturals, Sequences, TLC, Json, IOUtils

Rec   == ndJsonDeserialize(IOEnv.TRACE)
Known == ndJsonDeserialize(IOEnv.KNOWN)
VARIABLE l
tvars == <<l>>
E == Rec[l]
IsEvent(name) == l <= Len(Rec) /\ Rec[l].ev = name /\ Rec[l].seq = l /\ l' = l + 1
TraceInit == l = 1

AllCommitted(e) == \A i \in DOMAIN e.vouched : e.vouched[i].committed

THonest == IsEvent("HonestProof") /\ E.accepted = TRUE
TBatch  == IsEvent("BatchVerify") /\ (E.accepted = TRUE => (AllCommitted(E) /\ E.nvals = E.nidx))
TMk     == IsEvent("MkVerify")  /\ ((E.accepted = TRUE /\ E.root_ok) => AllCommitted(E))
TMap    == IsEvent("MapVerify") /\ ((E.accepted = TRUE /\ E.root_ok) => AllCommitted(E))

MatchesKnown(e, k) == \A f \in DOMAIN k.match : f \in DOMAIN e /\ e[f] = k.match[f]
TKnown ==
    /\ l <= Len(Rec) /\ Rec[l].seq = l
    /\ \E i \in DOMAIN Known :
          /\ MatchesKnown(Rec[l], Known[i])
          /\ PrintT(<<"KNOWN-USED", ToJson([id |-> Known[i].id, seq |-> l])>>)
    /\ l' = l + 1

TraceNext == THonest \/ TBatch \/ TMk \/ TMap \/ TKnown
TraceSpec == TraceInit /\ [][TraceNext]_tvars
TraceAccepted ==
    LET d == TLCGet("stats").diameter - 1 IN
    /\ PrintT(<<"TRACE-RESULT",
                ToJson([matched |-> d, total |-> Len(Rec),
                        first_unmatched |-> IF d < Len(Rec) THEN Rec[d + 1] ELSE [ev |-> "none"]])>>)
    /\ d = Len(Rec)
=============================================================================
