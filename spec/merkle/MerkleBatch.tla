----------------------------- MODULE MerkleBatch -----------------------------
(***************************************************************************)
(* The signer-registration Merkle tree of mithril-stm and its batch        *)
(* ("octopus") membership proofs (property C09, first structure).          *)
(*                                                                         *)
(* Implementation-shaped transcription of                                  *)
(*   mithril-stm/src/membership_commitment/merkle_tree/tree.rs             *)
(*       MerkleTree::new, compute_merkle_tree_batch_path                   *)
(*   mithril-stm/src/membership_commitment/merkle_tree/commitment.rs       *)
(*       verify_leaves_membership_from_batch_path                          *)
(* iteration by iteration (heap indices, sibling pairing, values consumed  *)
(* from the front, zero-hash padding, the sortedness / length pre-checks   *)
(* and the final "one node left and it is the root" test).                 *)
(*                                                                         *)
(* Hashes are free term constructors, hence injective:                     *)
(*   <<"L", v>>  leaf hash of value v     <<"H", l, r>>  node hash         *)
(*   <<"Z">>     the padding hash         <<"J", i>>     junk              *)
(* (assumes a leaf's byte string is never the single byte 0 nor 64 bytes   *)
(* long, true for the 104-byte registration leaves)                        *)
(***************************************************************************)
EXTENDS Naturals, Sequences, FiniteSets, TLC

L(v)    == <<"L", v>>
H(l, r) == <<"H", l, r>>
Z       == <<"Z">>

RECURSIVE NextPow2From(_, _)
NextPow2From(n, p) == IF p >= n THEN p ELSE NextPow2From(n, 2 * p)
NextPow2(n) == NextPow2From(n, 1)
Parent(i)  == (i - 1) \div 2
Sibling(i) == IF i % 2 = 1 THEN i + 1 ELSE i - 1

NumNodes(n) == n + NextPow2(n) - 1
LeafOff(n)  == NextPow2(n) - 1

(* MerkleTree::new : nodes[0..num_nodes-1] *)
RECURSIVE Node(_, _)
Node(leaves, i) ==
    LET n == Len(leaves)  nn == NumNodes(n) IN
    IF i >= nn THEN Z
    ELSE IF i >= LeafOff(n) THEN L(leaves[i - LeafOff(n) + 1])
    ELSE H(Node(leaves, 2 * i + 1), Node(leaves, 2 * i + 2))
Root(leaves) == Node(leaves, 0)

(* compute_merkle_tree_batch_path(indices): indices sorted, 0-based, in range *)
RECURSIVE PathLevel(_, _, _, _)
PathLevel(leaves, oi, i, acc) ==      \* one pass over the current level; returns [proof, next]
    IF i > Len(oi) THEN acc
    ELSE LET sib == Sibling(oi[i])
             nxt == Append(acc.next, Parent(oi[i])) IN
         IF i < Len(oi) /\ oi[i + 1] = sib
         THEN PathLevel(leaves, oi, i + 2, [acc EXCEPT !.next = nxt])
         ELSE IF sib < NumNodes(Len(leaves))
              THEN PathLevel(leaves, oi, i + 1,
                             [proof |-> Append(acc.proof, Node(leaves, sib)), next |-> nxt])
              ELSE PathLevel(leaves, oi, i + 1, [acc EXCEPT !.next = nxt])
RECURSIVE PathRounds(_, _, _, _)
PathRounds(leaves, oi, idx, proof) ==
    IF idx = 0 THEN proof
    ELSE LET r == PathLevel(leaves, oi, 1, [proof |-> proof, next |-> <<>>])
         IN PathRounds(leaves, r.next, Parent(idx), r.proof)
BatchPath(leaves, indices) ==
    LET oi == [j \in DOMAIN indices |-> indices[j] + LeafOff(Len(leaves))]
    IN [values |-> PathRounds(leaves, oi, oi[1], <<>>), indices |-> indices]

(* verify_leaves_membership_from_batch_path(batch_val, proof) against (root, nr_leaves) *)
IsSorted(s) == \A i \in 1..(Len(s) - 1) : s[i] <= s[i + 1]

RECURSIVE VerLevel(_, _, _, _, _)
VerLevel(nn, oi, hs, i, acc) ==
    \* acc = [ok, values, hashes, next]; hs = current hashes aligned with oi
    IF ~acc.ok \/ i > Len(oi) THEN acc
    ELSE LET nxt == Append(acc.next, Parent(oi[i])) IN
         IF oi[i] % 2 = 0
         THEN IF acc.values = <<>> THEN [acc EXCEPT !.ok = FALSE]
              ELSE VerLevel(nn, oi, hs, i + 1,
                            [ok |-> TRUE, values |-> Tail(acc.values),
                             hashes |-> Append(acc.hashes, H(Head(acc.values), hs[i])), next |-> nxt])
         ELSE LET sib == oi[i] + 1 IN
              IF i < Len(oi) /\ oi[i + 1] = sib
              THEN VerLevel(nn, oi, hs, i + 2,
                            [acc EXCEPT !.hashes = Append(acc.hashes, H(hs[i], hs[i + 1])), !.next = nxt])
              ELSE IF sib < nn
                   THEN IF acc.values = <<>> THEN [acc EXCEPT !.ok = FALSE]
                        ELSE VerLevel(nn, oi, hs, i + 1,
                                      [ok |-> TRUE, values |-> Tail(acc.values),
                                       hashes |-> Append(acc.hashes, H(hs[i], Head(acc.values))),
                                       next |-> nxt])
                   ELSE VerLevel(nn, oi, hs, i + 1,
                                 [acc EXCEPT !.hashes = Append(acc.hashes, H(hs[i], Z)), !.next = nxt])
RECURSIVE VerRounds(_, _, _, _, _)
VerRounds(nn, oi, hs, values, idx) ==
    IF idx = 0 THEN [ok |-> TRUE, hashes |-> hs]
    ELSE LET r == VerLevel(nn, oi, hs, 1, [ok |-> TRUE, values |-> values, hashes |-> <<>>, next |-> <<>>])
         IN IF ~r.ok THEN [ok |-> FALSE, hashes |-> <<>>]
            ELSE VerRounds(nn, r.next, r.hashes, r.values, Parent(idx))

VerifyBatch(root, nrLeaves, batchVals, proof) ==
    /\ Len(batchVals) = Len(proof.indices)
    /\ IsSorted(proof.indices)
    /\ Len(proof.indices) > 0            \* (the code indexes ordered_indices[0]: panics when empty)
    /\ LET off == LeafOff(nrLeaves)
           oi  == [j \in DOMAIN proof.indices |-> proof.indices[j] + off]
           hs  == [j \in DOMAIN batchVals |-> L(batchVals[j])]
           r   == VerRounds(NumNodes(nrLeaves), oi, hs, proof.values, oi[1])
       IN r.ok /\ Len(r.hashes) = 1 /\ r.hashes[1] = root

-----------------------------------------------------------------------------
(* The property (C09) for this structure *)
Complete(leaves, indices) ==
    VerifyBatch(Root(leaves), Len(leaves), [j \in DOMAIN indices |-> leaves[indices[j] + 1]],
                BatchPath(leaves, indices))
Sound(leaves, batchVals, proof) ==
    VerifyBatch(Root(leaves), Len(leaves), batchVals, proof) =>
        \A j \in DOMAIN batchVals :
            /\ proof.indices[j] < Len(leaves)
            /\ batchVals[j] = leaves[proof.indices[j] + 1]
=============================================================================
