CONSTANTS
    MaxN = 5
    MaxBatch = 2
    MaxValues = 2
    Mode = "gen"
SPECIFICATION Spec
INVARIANTS SoundInv CompleteInv GenPrint
CHECK_DEADLOCK FALSE
