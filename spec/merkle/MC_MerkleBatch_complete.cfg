CONSTANTS
    MaxN = 5
    MaxBatch = 2
    MaxValues = 2
    Mode = "complete"
SPECIFICATION Spec
INVARIANTS SoundInv CompleteInv GenPrint
CHECK_DEADLOCK FALSE
