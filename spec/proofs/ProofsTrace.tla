---------------------------- MODULE ProofsTrace ----------------------------
(***************************************************************************)
(* Contract trace spec for C11: accepts or rejects traces recorded from    *)
(* the real client-side verification of aggregator responses               *)
(* (...ProofsMessage::verify, MessageBuilder::compute_cardano_*_message,   *)
(* CertificateMessage::match_message).                                     *)
(*                                                                         *)
(*  ProofCheck  fmt items lbn_ok off_ok accepted ...                       *)
(*      one (possibly altered) response checked against the certificate of *)
(*      the certified chain.  accepted = the real verify succeeded AND the *)
(*      recomputed protocol message matches the certificate's signed       *)
(*      message, i.e. the client reports the items as certified.           *)
(*      items[i].committed: the i-th item the client reports (taken from   *)
(*      the real Verified... value) is, field by field, an item of the     *)
(*      certified chain for the kind of tree the certificate signs;        *)
(*      lbn_ok / off_ok: the block number / offset the client reports are  *)
(*      the signed ones.  All recomputed by the harness from real values.  *)
(*  StakeCheck  same epoch_ok accepted tamper                              *)
(*      one (possibly edited) stake distribution; same = the mapping the   *)
(*      client holds equals the certified mapping, entry by entry.         *)
(*                                                                         *)
(* The property is one-directional: reported as certified => exactly as    *)
(* signed.  Real code that rejects more is fine.                           *)
(***************************************************************************)
EXTENDS Naturals, Sequences, TLC, Json, IOUtils

Rec   == ndJsonDeserialize(IOEnv.TRACE)
Known == ndJsonDeserialize(IOEnv.KNOWN)
VARIABLE l
tvars == <<l>>
E == Rec[l]
IsEvent(name) == l <= Len(Rec) /\ Rec[l].ev = name /\ Rec[l].seq = l /\ l' = l + 1
TraceInit == l = 1

ReportedAsSigned(e) ==
    /\ \A i \in DOMAIN e.items : e.items[i].committed
    /\ e.lbn_ok
    /\ e.off_ok
TProof == IsEvent("ProofCheck") /\ (E.accepted => ReportedAsSigned(E))
TStake == IsEvent("StakeCheck") /\ (E.accepted => (E.same /\ E.epoch_ok))

MatchesKnown(e, k) == \A f \in DOMAIN k.match : f \in DOMAIN e /\ e[f] = k.match[f]
TKnown ==
    /\ l <= Len(Rec) /\ Rec[l].seq = l
    /\ \E i \in DOMAIN Known :
          /\ MatchesKnown(Rec[l], Known[i])
          /\ PrintT(<<"KNOWN-USED", ToJson([id |-> Known[i].id, seq |-> l])>>)
    /\ l' = l + 1

TraceNext == TProof \/ TStake \/ TKnown
TraceSpec == TraceInit /\ [][TraceNext]_tvars
TraceAccepted ==
    LET d == TLCGet("stats").diameter - 1 IN
    /\ PrintT(<<"TRACE-RESULT",
                ToJson([matched |-> d, total |-> Len(Rec),
                        first_unmatched |-> IF d < Len(Rec) THEN Rec[d + 1] ELSE [ev |-> "none"]])>>)
    /\ d = Len(Rec)
=============================================================================
