CONSTANTS
    RangeLen = 15
    StakeSep = ""
    RawLeafMerge = TRUE
    MaxOps = 2
    ExcuseStakeConcat = TRUE
    ExcuseRawLeaf = TRUE
    Gen = TRUE
    TwoPoolStakes = {2}
SPECIFICATION Spec
VIEW View
INVARIANTS ContractInv GenPrint
CHECK_DEADLOCK FALSE
