CONSTANTS
    RangeLen = 15
    StakeSep = ""
    RawLeafMerge = TRUE
    Shapes <- ShapesQuick
    Fmts = {"legacy", "tx", "blk"}
    MaxOps = 2
    MaxItemIdx = 2
    CertMix = TRUE
    Gen = FALSE
    ExcuseRawLeaf = TRUE
SPECIFICATION Spec
VIEW View
INVARIANTS ContractInv
CHECK_DEADLOCK FALSE
