CONSTANTS
    RangeLen = 15
    StakeSep = ""
    RawLeafMerge = TRUE
    Doms = {"served"}
    ExcuseStakeConcat = TRUE
SPECIFICATION Spec
INVARIANTS InjServed
CHECK_DEADLOCK FALSE
