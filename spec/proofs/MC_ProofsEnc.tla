---------------------------- MODULE MC_ProofsEnc ----------------------------
(***************************************************************************)
(* C11 layer 1: are the leaf encodings injective?  Identifiers range over  *)
(* all strings of a tiny alphabet, numbers over a few values with one and  *)
(* two digits.  One state per element x of a domain; the invariant         *)
(* compares x with every y of the (served) domain.                         *)
(*  stake   pool id over {a,1,2}, length 1..3, stake 0..30:                *)
(*          leaf = pool id immediately followed by the decimal stake.      *)
(*          NOT injective (known finding C11-stake-leaf-concatenation):    *)
(*          every colliding pair is printed as COLLISION for the harness.  *)
(*  leaf    x: a leaf a signer can have committed (hashes are hex strings: *)
(*          non-empty, no '/'), y: any item an aggregator can serve        *)
(*          (hash strings over {a,/,1}, length 0..2; the served strings    *)
(*          are not validated).  Committed-vs-served must be injective,    *)
(*          across the two leaf kinds as well.                             *)
(*  served  x, y both arbitrary served items: NOT injective ('/' moves     *)
(*          characters between the fields) -- shows that the separator     *)
(*          alone does not make the encoding injective; it is the hex      *)
(*          alphabet of what signers commit that does.  Informational.     *)
(*  pm      the preimage of the signed message hash: key names and values  *)
(*          concatenated without delimiters; root over {c,1} (hex of any   *)
(*          length -- the served proof's root is not length-checked),      *)
(*          numbers with one and two digits.                               *)
(***************************************************************************)
EXTENDS Proofs, Json

CONSTANTS Doms, ExcuseStakeConcat

VARIABLES dom, x
vars == <<dom, x>>

Strs(A, lo, hi) == {Flat(s) : s \in UNION {[1..k -> A] : k \in lo..hi}}
PoolIds  == Strs({"a", "1", "2"}, 1, 3)
StakeDom == {[pool |-> p, stake |-> n] : p \in PoolIds, n \in 0..30}
ServedH  == Strs({"a", "/", "1"}, 0, 2)
HonestH  == Strs({"a", "1"}, 1, 2)
Nums     == {1, 11}
Served   == {[k |-> "tx", th |-> a, bh |-> b, bn |-> n, slot |-> s] : a \in ServedH, b \in ServedH, n \in Nums, s \in Nums}
            \cup {[k |-> "blk", bh |-> b, bn |-> n, slot |-> s] : b \in ServedH, n \in Nums, s \in Nums}
IsCommittable(it) == it.bh \in HonestH /\ (it.k = "tx" => it.th \in HonestH)
Committable == {it \in Served : IsCommittable(it)}
Enc(it) == IF it.k = "tx" THEN EncTx(it) ELSE EncBlock(it)
PMDom == {[root |-> r, lbn |-> l, off |-> o] : r \in Strs({"c", "1"}, 1, 3), l \in {0, 1, 2, 10, 11, 12, 21}, o \in {0, 1, 2, 10, 11, 12, 21}}

Domain(d) == CASE d = "stake" -> StakeDom [] d = "leaf" -> Committable [] d = "served" -> Served [] d = "pm" -> PMDom
Init == dom \in Doms /\ x \in Domain(dom)
Next == UNCHANGED vars
Spec == Init /\ [][Next]_vars

StakeCollides(y) == y # x /\ EncStake(y.pool, y.stake) = EncStake(x.pool, x.stake)
InjStake ==
    dom = "stake" =>
        \A y \in StakeDom :
            StakeCollides(y) =>
                /\ Len(x.pool) < Len(y.pool) =>
                      PrintT(<<"COLLISION", ToJson([leaf |-> EncStake(x.pool, x.stake), a |-> x, b |-> y])>>)
                /\ ExcuseStakeConcat
InjCommitted == dom = "leaf" => \A y \in Served : Enc(y) = Enc(x) => y = x
InjServed    == dom = "served" => \A y \in Served : Enc(y) = Enc(x) => y = x
InjPM        == dom = "pm" => \A y \in PMDom : EncPM(y.root, y.lbn, y.off) = EncPM(x.root, x.lbn, x.off) => y = x
=============================================================================
