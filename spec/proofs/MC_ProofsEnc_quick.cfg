CONSTANTS
    RangeLen = 15
    StakeSep = ""
    RawLeafMerge = TRUE
    Doms = {"stake", "leaf", "pm"}
    ExcuseStakeConcat = TRUE
SPECIFICATION Spec
INVARIANTS InjStake InjCommitted InjPM
CHECK_DEADLOCK FALSE
