CONSTANTS
    RangeLen = 15
    StakeSep = ""
    RawLeafMerge = TRUE
    Shapes <- ShapesTiny
    Fmts = {"legacy", "tx", "blk"}
    MaxOps = 3
    MaxItemIdx = 2
    CertMix = TRUE
    Gen = FALSE
    ExcuseRawLeaf = TRUE
SPECIFICATION Spec
VIEW View
INVARIANTS ContractInv
CHECK_DEADLOCK FALSE
