CONSTANTS
    RangeLen = 15
    StakeSep = ""
    RawLeafMerge = TRUE
    Doms = {"stake"}
    ExcuseStakeConcat = FALSE
SPECIFICATION Spec
INVARIANTS InjStake
CHECK_DEADLOCK FALSE
