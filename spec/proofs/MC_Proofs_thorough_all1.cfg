CONSTANTS
    RangeLen = 15
    StakeSep = ""
    RawLeafMerge = TRUE
    Shapes <- ShapesAll
    Fmts = {"legacy", "tx", "blk"}
    MaxOps = 1
    MaxItemIdx = 2
    CertMix = TRUE
    Gen = FALSE
    ExcuseRawLeaf = TRUE
SPECIFICATION Spec
VIEW View
INVARIANTS ContractInv
CHECK_DEADLOCK FALSE
