CONSTANTS
    RangeLen = 15
    StakeSep = ""
    RawLeafMerge = TRUE
    MaxOps = 2
    ExcuseStakeConcat = TRUE
    ExcuseRawLeaf = FALSE
    Gen = FALSE
    TwoPoolStakes = {1, 2, 12}
SPECIFICATION Spec
VIEW View
INVARIANTS ContractInv
CHECK_DEADLOCK FALSE
