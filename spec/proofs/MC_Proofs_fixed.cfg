CONSTANTS
    RangeLen = 15
    StakeSep = ""
    RawLeafMerge = FALSE
    Shapes <- ShapesQuick
    Fmts = {"legacy", "tx", "blk"}
    MaxOps = 2
    MaxItemIdx = 2
    CertMix = TRUE
    Gen = FALSE
    ExcuseRawLeaf = FALSE
SPECIFICATION Spec
VIEW View
INVARIANTS ContractInv
CHECK_DEADLOCK FALSE
