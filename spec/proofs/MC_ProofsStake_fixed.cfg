CONSTANTS
    RangeLen = 15
    StakeSep = "/"
    RawLeafMerge = FALSE
    MaxOps = 2
    ExcuseStakeConcat = FALSE
    ExcuseRawLeaf = FALSE
    Gen = FALSE
    TwoPoolStakes = {1, 2, 12}
SPECIFICATION Spec
VIEW View
INVARIANTS ContractInv
CHECK_DEADLOCK FALSE
