------------------------------- MODULE Proofs -------------------------------
(***************************************************************************)
(* C11 -- certified transaction / block / stake sets are reported exactly  *)
(* as signed.  Implementation-shaped model, in four layers, of             *)
(*                                                                         *)
(*  1 LEAF ENCODINGS (strings)                                             *)
(*      mithril-common/src/entities/cardano_block_transaction_mktree_node.rs *)
(*          leaf_identifier : "Tx/<tx hash>/<block hash>/<n>/<slot>"       *)
(*                            "Block/<block hash>/<n>/<slot>"              *)
(*      mithril-common/src/entities/cardano_transaction.rs                 *)
(*          (legacy) leaf = the transaction hash string itself             *)
(*      mithril-common/src/signable_builder/cardano_stake_distribution.rs  *)
(*          StakeDistributionEntry -> format!("{}{}", pool_id, stake)      *)
(*      mithril-common/src/entities/block_range.rs  key = "<start>-<end>"  *)
(*  2 SET PROOFS over the nested block-range map                           *)
(*      internal/mithril-merkle-tree/src/merkle_map.rs MKMapProof::verify, *)
(*          ::contains  (a leaf of the master proof OR of any sub-proof)   *)
(*      mithril-common/src/entities/mk_set_proof.rs  MkSetProof::verify    *)
(*      mithril-common/src/entities/cardano_transactions_set_proof.rs      *)
(*  3 MESSAGE VERIFICATION                                                 *)
(*      messages/cardano_transactions_proof.rs (legacy: every set proof    *)
(*          verifies, all roots equal, at least one)                       *)
(*      messages/proof_v2/{cardano_transactions_proof,cardano_blocks_proof,*)
(*          verify}.rs (one optional set proof, block number and offset)   *)
(*  4 RECOMPUTATION mithril-client/src/message.rs compute_cardano_*_message*)
(*      and CertificateMessage::match_message                              *)
(*                                                                         *)
(* Identifiers are TLC strings (TLC concatenates strings with \o); hashes  *)
(* of the Merkle structures are free term constructors (injective):        *)
(*   <<"I", s>>        a leaf whose bytes are the string s (leaves are NOT *)
(*                     hashed: MKTreeNode::new(leaf_identifier bytes))     *)
(*   <<"R", S>>        root of the tree of one block range with leaf set S *)
(*   <<"K", r, root>>  leaf of the master tree: key(r) + root              *)
(*   <<"M", S>>        root of the master tree with leaf set S             *)
(*   <<"J">>           junk                                                *)
(* A Merkle (mountain range) proof object is abstracted to                 *)
(*   [root, leaves] with  verify  <=>  leaves # {} and every claimed leaf  *)
(* is accepted for the tree `root` stands for -- what the proof algorithm  *)
(* itself guarantees is the subject of C09.  Accepted = it is a leaf of    *)
(* that tree, OR (RawLeafMerge, as coded) it is such a leaf with           *)
(* characters cut off at the side where its sibling node sits: leaves are  *)
(* raw variable-length byte strings and a parent is blake2s(left || right) *)
(* (merkle_tree.rs `Add for &MKTreeNode`) without any length prefix, and   *)
(* the sibling is an opaque node of the proof, so the cut characters can   *)
(* be moved into it.  In the mountain range the leaf at an even 0-based    *)
(* index is a left operand (of its right sibling, or -- last leaf of an    *)
(* odd-sized tree -- of the bagged peaks: hash(right peak, left peak)),    *)
(* the leaf at an odd index a right operand.                               *)
(***************************************************************************)
EXTENDS Integers, Sequences, FiniteSets, TLC

CONSTANTS RangeLen,     \* BlockRange::LENGTH (15)
          StakeSep,     \* "" as coded; a non-empty separator models a hypothetical fix
          RawLeafMerge  \* TRUE as coded; FALSE models leaves hashed (or length-prefixed) before merging

-----------------------------------------------------------------------------
(* Layer 1: leaf encodings                                                   *)
DigitStr == <<"0", "1", "2", "3", "4", "5", "6", "7", "8", "9">>
RECURSIVE Dec(_)
Dec(n) == IF n < 10 THEN DigitStr[n + 1] ELSE Dec(n \div 10) \o DigitStr[(n % 10) + 1]
RECURSIVE Flat(_)                       \* char sequence -> string
Flat(s) == IF s = <<>> THEN "" ELSE Head(s) \o Flat(Tail(s))

EncTx(t)    == "Tx/" \o t.th \o "/" \o t.bh \o "/" \o Dec(t.bn) \o "/" \o Dec(t.slot)
EncBlock(b) == "Block/" \o b.bh \o "/" \o Dec(b.bn) \o "/" \o Dec(b.slot)
EncStake(pool, stake) == pool \o StakeSep \o Dec(stake)
EncRange(r) == Dec(r * RangeLen) \o "-" \o Dec(r * RangeLen + RangeLen)

(* ProtocolMessage::compute_hash preimage: key names and values concatenated without any  *)
(* delimiter, in key order (only the parts this property is about, abbreviated key names  *)
(* that keep the first character of the real ones)                                        *)
EncPM(root, lbn, off) ==
    "c_root" \o root \o "n_avk" \o "K" \o "l_bn" \o Dec(lbn) \o "c_off" \o Dec(off)

-----------------------------------------------------------------------------
(* Layer 2: items, trees, proofs                                             *)
(* items: legacy [th] | tx [th, bh, bn, slot] | blk [bh, bn, slot]           *)
TreeKind(fmt) == IF fmt = "legacy" THEN "legacy" ELSE "v2"
ItemLeaf(fmt, it) ==
    CASE fmt = "legacy" -> <<"I", it.th>>
      [] fmt = "tx"     -> <<"I", EncTx(it)>>
      [] fmt = "blk"    -> <<"I", EncBlock(it)>>

(* a world (chain) is a sequence of blocks [bh, bn, slot, txs]               *)
TxItem(b, j) == [th |-> b.txs[j], bh |-> b.bh, bn |-> b.bn, slot |-> b.slot]
BlkItem(b)   == [bh |-> b.bh, bn |-> b.bn, slot |-> b.slot]
AllRanges    == 0..1
InRange(b, r) == b.bn \div RangeLen = r
Rg(q) == {q[i] : i \in DOMAIN q}
(* leaves of block range r in tree order: legacy = the repository's order (block number, then *)
(* transaction hash); v2 = the BTreeSet order of CardanoBlockTransactionMkTreeNode (blocks      *)
(* first, then transactions, by block number, slot, block hash, transaction hash). Both are the *)
(* listing order of the chains built in MC_Proofs (hashes of a block listed alphabetically)     *)
RECURSIVE BlkLeaves(_, _, _)
BlkLeaves(w, r, i) ==
    IF i > Len(w) THEN <<>>
    ELSE (IF InRange(w[i], r) THEN <<<<"I", EncBlock(BlkItem(w[i]))>>>> ELSE <<>>) \o BlkLeaves(w, r, i + 1)
RECURSIVE TxLeaves(_, _, _, _)
TxLeaves(w, kind, r, i) ==
    IF i > Len(w) THEN <<>>
    ELSE (IF InRange(w[i], r)
          THEN [j \in DOMAIN w[i].txs |-> IF kind = "legacy" THEN <<"I", w[i].txs[j]>> ELSE <<"I", EncTx(TxItem(w[i], j))>>]
          ELSE <<>>) \o TxLeaves(w, kind, r, i + 1)
LeafSeqOf(w, kind, r) == IF kind = "legacy" THEN TxLeaves(w, "legacy", r, 1)
                         ELSE BlkLeaves(w, r, 1) \o TxLeaves(w, "v2", r, 1)
(* the trees of a world: T[r] = leaf sequence of block range r (computed once per world) *)
TreeOf(w, kind) == [r \in AllRanges |-> LeafSeqOf(w, kind, r)]
TRanges(T)      == {r \in AllRanges : T[r] # <<>>}
TAllLeaves(T)   == UNION {Rg(T[r]) : r \in AllRanges}
TSubRoot(T, r)  == <<"R", T[r]>>
MLeaf(r, root)  == <<"K", r, root>>
TRoot(T)        == <<"M", {MLeaf(r, TSubRoot(T, r)) : r \in TRanges(T)}>>
Root(w, kind)   == TRoot(TreeOf(w, kind))
Junk                == <<"J">>

(* MKProof::verify (abstracted, see header) and ::contains *)
Tails == {DigitStr[d] : d \in 1..10} \cup {"a", "b", "c", "d", "e", "f", "g", "h", "i", "j", "k", "l", "z"}
ProperPrefix(x, c) == \E t \in Tails : x \o t = c          \* one character cut (enough for the sizes explored)
ProperSuffix(x, c) == \E t \in Tails : t \o x = c
RECURSIVE LowBit(_)
LowBit(m) == IF m % 2 = 1 THEN 1 ELSE 2 * LowBit(m \div 2)
(* the node a cut leaf is merged with must be an opaque node of the proof, i.e. not computed   *)
(* from other claimed leaves: the sibling leaf; for the last leaf of an odd-sized tree the peak *)
(* before it (LowBit(n - 1) leaves)                                                            *)
LeafAccepted(l, p) ==
    IF p.root[1] = "M" THEN l \in p.root[2]
    ELSE LET q == p.root[2]  n == Len(q) IN
         \E i \in 1..n :
            \/ q[i] = l
            \/ /\ RawLeafMerge /\ l[1] = "I" /\ q[i][1] = "I" /\ q[i] \notin p.leaves
               /\ \/ /\ i % 2 = 1 /\ n >= 2 /\ ProperPrefix(l[2], q[i][2])
                     /\ IF i < n THEN q[i + 1] \notin p.leaves
                        ELSE \A j \in (n - LowBit(n - 1))..(n - 1) : q[j] \notin p.leaves
                  \/ i % 2 = 0 /\ ProperSuffix(l[2], q[i][2]) /\ q[i - 1] \notin p.leaves
VerifyMk(p) == /\ p.leaves # {}
               /\ p.root[1] \in {"R", "M"}
               /\ \A l \in p.leaves : LeafAccepted(l, p)

(* MKMapProof [master, subs = <<[key, p]>>]: verify -- every sub-proof verifies, the master *)
(* verifies, and (when there are sub-proofs) the master proof lists key + sub-root of each  *)
VerifyMap(mp) ==
    /\ \A i \in DOMAIN mp.subs : VerifyMk(mp.subs[i].p)
    /\ VerifyMk(mp.master)
    /\ \A i \in DOMAIN mp.subs : MLeaf(mp.subs[i].key, mp.subs[i].p.root) \in mp.master.leaves
(* MKMapProof::contains -- a leaf of the master proof or of any sub-proof *)
ContainsMap(mp, leaf) ==
    \/ leaf \in mp.master.leaves
    \/ \E i \in DOMAIN mp.subs : leaf \in mp.subs[i].p.leaves

(* MkSetProof::verify / CardanoTransactionsSetProof::verify *)
VerifySet(fmt, sp) ==
    /\ VerifyMap(sp.proof)
    /\ \A i \in DOMAIN sp.items : ContainsMap(sp.proof, ItemLeaf(fmt, sp.items[i]))
PRoot(sp) == sp.proof.master.root

(* the prover (MKMap::compute_proof): proof of the leaf set ls in world w *)
SortedRanges(S) == IF S = {0, 1} THEN <<0, 1>> ELSE IF S = {0} THEN <<0>> ELSE IF S = {1} THEN <<1>> ELSE <<>>
HonestProof(T, ls) ==
    LET rs == {r \in TRanges(T) : Rg(T[r]) \cap ls # {}}
        sr == SortedRanges(rs)
    IN  [master |-> [root |-> TRoot(T), leaves |-> {MLeaf(r, TSubRoot(T, r)) : r \in rs}],
         subs   |-> [i \in 1..Len(sr) |->
                       [key |-> sr[i], p |-> [root |-> TSubRoot(T, sr[i]), leaves |-> Rg(T[sr[i]]) \cap ls]]]]

-----------------------------------------------------------------------------
(* Layer 3: message verification. response = [fmt, parts = <<[items, proof]>>, lbn, off]    *)
(* (v2 messages carry zero or one part: Option<MkSetProofMessagePart>)                     *)
VerifyMsg(resp) ==
    IF resp.fmt = "legacy"
    THEN /\ \A i \in DOMAIN resp.parts : VerifySet("legacy", resp.parts[i])
         /\ \A i \in DOMAIN resp.parts : PRoot(resp.parts[i]) = PRoot(resp.parts[1])   \* NonMatchingMerkleRoot
         /\ resp.parts # <<>>                                                          \* NoCertifiedTransaction
    ELSE /\ Len(resp.parts) = 1                                                        \* NoCertifiedItem
         /\ VerifySet(resp.fmt, resp.parts[1])
VerifiedRoot(resp) == PRoot(resp.parts[1])
RECURSIVE ItemsFrom(_, _)
ItemsFrom(parts, i) == IF i > Len(parts) THEN <<>> ELSE parts[i].items \o ItemsFrom(parts, i + 1)
Reported(resp) == ItemsFrom(resp.parts, 1)

-----------------------------------------------------------------------------
(* Layer 4: signed protocol message, MessageBuilder, match_message.                        *)
(* message parts: ctx_root (CardanoTransactionsMerkleRoot), cbt_root                        *)
(* (CardanoBlocksTransactionsMerkleRoot), lbn (LatestBlockNumber), off                      *)
(* (CardanoBlocksTransactionsBlockNumberOffset); absent = <<"none">> / -1.  The hash of the *)
(* message is injective on the parts (EncPM above is checked separately)                    *)
NoRoot == <<"none">>
SignedPM(w, certKind, L, O) ==
    [ctx_root |-> IF certKind = "legacy" THEN Root(w, "legacy") ELSE NoRoot,
     cbt_root |-> IF certKind = "v2" THEN Root(w, "v2") ELSE NoRoot,
     lbn      |-> L,
     off      |-> IF certKind = "v2" THEN O ELSE -1]
Recompute(pm, resp) ==       \* certificate.protocol_message.clone() with the verified parts set
    IF resp.fmt = "legacy"
    THEN [pm EXCEPT !.ctx_root = VerifiedRoot(resp), !.lbn = resp.lbn]
    ELSE [pm EXCEPT !.cbt_root = VerifiedRoot(resp), !.lbn = resp.lbn, !.off = resp.off]
Accept(pm, resp) == VerifyMsg(resp) /\ Recompute(pm, resp) = pm

-----------------------------------------------------------------------------
(* THE PROPERTY, stated without reference to the code above                               *)
Blocks(w) == {w[i] : i \in DOMAIN w}
CommittedItem(w, fmt, it) ==
    CASE fmt = "legacy" -> \E b \in Blocks(w) : \E j \in DOMAIN b.txs : it = [th |-> b.txs[j]]
      [] fmt = "tx"     -> \E b \in Blocks(w) : \E j \in DOMAIN b.txs : it = TxItem(b, j)
      [] fmt = "blk"    -> \E b \in Blocks(w) : it = BlkItem(b)
ContractPM(pm, w, certKind, L, O, resp) ==      \* pm = the signed protocol message
    Accept(pm, resp) =>
        /\ TreeKind(resp.fmt) = certKind
        /\ \A i \in DOMAIN Reported(resp) : CommittedItem(w, resp.fmt, Reported(resp)[i])
        /\ resp.lbn = L
        /\ resp.fmt # "legacy" => resp.off = O
Contract(w, certKind, L, O, resp) == ContractPM(SignedPM(w, certKind, L, O), w, certKind, L, O, resp)

(* the known finding C11-raw-leaf-boundary: every reported item that is not committed has a    *)
(* leaf string that is a committed leaf string with characters cut off (moved into the sibling *)
(* node of the proof); everything else is as signed                                            *)
CutOfCommitted(w, fmt, it) ==
    \E c \in TAllLeaves(TreeOf(w, TreeKind(fmt))) :
        ProperPrefix(ItemLeaf(fmt, it)[2], c[2]) \/ ProperSuffix(ItemLeaf(fmt, it)[2], c[2])
OnlyLeafBoundaryMoved(pm, w, certKind, L, O, resp) ==
    /\ TreeKind(resp.fmt) = certKind
    /\ \A i \in DOMAIN Reported(resp) :
          CommittedItem(w, resp.fmt, Reported(resp)[i]) \/ CutOfCommitted(w, resp.fmt, Reported(resp)[i])
    /\ resp.lbn = L
    /\ resp.fmt # "legacy" => resp.off = O

-----------------------------------------------------------------------------
(* Stake distributions: d = function pool id (char sequence) -> stake.  The signed root is  *)
(* the root of the tree over the leaves pool || decimal(stake) in BTreeMap (pool id) order; *)
(* injective on the *sequence of leaf strings*.                                             *)
CharOrd(c) == CASE c = "1" -> 1 [] c = "2" -> 2 [] c = "a" -> 3 [] OTHER -> 4
RECURSIVE LexLess(_, _)
LexLess(s, t) ==
    IF s = <<>> THEN t # <<>>
    ELSE IF t = <<>> THEN FALSE
    ELSE IF CharOrd(Head(s)) # CharOrd(Head(t)) THEN CharOrd(Head(s)) < CharOrd(Head(t))
    ELSE LexLess(Tail(s), Tail(t))
RECURSIVE SortedSeq(_)
SortedSeq(S) == IF S = {} THEN <<>>
                ELSE LET m == CHOOSE x \in S : \A y \in S \ {x} : LexLess(x, y)
                     IN <<m>> \o SortedSeq(S \ {m})
LeafSeq(d) == LET ps == SortedSeq(DOMAIN d)
              IN [i \in DOMAIN ps |-> EncStake(Flat(ps[i]), d[ps[i]])]
(* the mountain range root over the leaf strings: leaves are merged raw, hash(l || r); peaks    *)
(* are bagged hash(right peak || left peak); a single leaf is its own root                        *)
StakeRootOf(ls, raw) ==
    LET n == Len(ls) IN
    IF ~raw \/ n = 0 \/ n > 4 THEN <<"S", ls>>
    ELSE CASE n = 1 -> <<"L", ls[1]>>
           [] n = 2 -> <<"H", ls[1] \o ls[2]>>
           [] n = 3 -> <<"B", ls[3], <<"H", ls[1] \o ls[2]>>>>
           [] n = 4 -> <<"N", <<"H", ls[1] \o ls[2]>>, <<"H", ls[3] \o ls[4]>>>>
StakeRoot(d) == StakeRootOf(LeafSeq(d), RawLeafMerge)
(* CardanoStakeDistributionSignableBuilder::compute_protocol_message and                    *)
(* MessageBuilder::compute_cardano_stake_distribution_message + match_message               *)
SignedSD(d, e)       == [epoch |-> e, root |-> StakeRoot(d)]
AcceptSD(signed, sv) == [epoch |-> sv.epoch, root |-> StakeRoot(sv.dist)] = signed
ContractSD(d, e, sv) == AcceptSD(SignedSD(d, e), sv) => (sv.dist = d /\ sv.epoch = e)
(* the known finding C11-stake-leaf-concatenation: a different mapping with the very same   *)
(* leaf strings                                                                             *)
SameLeafStrings(d, sv) == LeafSeq(sv.dist) = LeafSeq(d) /\ sv.dist # d
(* the known finding C11-raw-leaf-boundary on a stake distribution: different leaf strings,   *)
(* same root only because characters moved between the leaves of adjacent pools              *)
AdjacentLeavesMoved(d, sv) ==
    /\ LeafSeq(sv.dist) # LeafSeq(d)
    /\ StakeRootOf(LeafSeq(sv.dist), TRUE) = StakeRootOf(LeafSeq(d), TRUE)
    /\ StakeRootOf(LeafSeq(sv.dist), FALSE) # StakeRootOf(LeafSeq(d), FALSE)
=============================================================================
