----------------------------- MODULE MC_Proofs -----------------------------
(***************************************************************************)
(* C11, transactions and blocks: the certified chain W (<= 6 blocks in 2   *)
(* block ranges, <= 2 transactions per block), an honest response to a     *)
(* query in one of the three formats, then up to MaxOps alterations by the *)
(* aggregator.  The aggregator also owns a forged chain F (W with one      *)
(* transaction added, one moved to another block, one block added) for     *)
(* which it can produce perfectly valid proofs.                            *)
(* Invariant: Contract (accepted => every reported item is committed under *)
(* the signed root, block number and offset are the signed ones).          *)
(* With Gen = TRUE every reached response is printed as a CASE for the     *)
(* harness, with the verdict this model predicts.                          *)
(***************************************************************************)
EXTENDS Proofs, Json

CONSTANTS Shapes,       \* set of <<txcounts in range 0, txcounts in range 1>>
          Fmts,         \* subset of {"legacy", "tx", "blk"}
          MaxOps, MaxItemIdx, CertMix, Gen,
          ExcuseRawLeaf \* excuse the known finding C11-raw-leaf-boundary in the invariant

VARIABLES cx,           \* constant context of a behaviour: [w, f, certKind, fmt, T, pm, items]
                        \*   w: certified chain, f: forged chain, certKind: what the certificate
                        \*   signs ("legacy" = CardanoTransactions | "v2"), T[x]: trees of world x
                        \*   for the tree kind of fmt, pm: signed protocol message
          resp,         \* the response as served
          hist          \* alterations applied so far (op names)
vars == <<cx, resp, hist>>

BH == <<"p", "q", "r", "s", "t", "u">>
(* transaction hashes: two characters, so that one can be cut off *)
THP == <<<<"a", "1">>, <<"b", "2">>, <<"c", "3">>, <<"d", "4">>, <<"e", "5">>, <<"f", "6">>, <<"g", "7">>,
         <<"h", "8">>, <<"i", "9">>, <<"j", "1">>, <<"k", "2">>, <<"l", "3">>, <<"z", "9">>>>
TH == [k \in DOMAIN THP |-> THP[k][1] \o THP[k][2]]
L == 2 * RangeLen - 1           \* the signed beacon: both block ranges complete
O == 3                          \* the signed security offset

RECURSIVE SumTo(_, _)
SumTo(s, i) == IF i = 0 THEN 0 ELSE s[i] + SumTo(s, i - 1)
MkWorld(sh) ==
    LET counts == sh[1] \o sh[2]
        bnOf(i) == IF i <= Len(sh[1]) THEN i - 1 ELSE RangeLen + (i - Len(sh[1]) - 1)
    IN  [i \in 1..Len(counts) |->
            [bh |-> BH[i], bn |-> bnOf(i), slot |-> 2 * bnOf(i) + 13,
             txs |-> [j \in 1..counts[i] |-> TH[SumTo(counts, i - 1) + j]]]]
(* the forged chain: "z9" added to the first block, the first transaction moved to the last *)
(* block, a block "y" appended (transactions of a block stay in alphabetical = tree order)   *)
Foreign(ww) ==
    LET n  == Len(ww)
        mv == IF n >= 2 /\ ww[1].txs # <<>> THEN <<ww[1].txs[1]>> ELSE <<>>
        w1 == [ww EXCEPT ![1].txs = (IF mv # <<>> THEN Tail(@) ELSE @) \o <<"z9">>]
        w2 == IF mv # <<>> THEN [w1 EXCEPT ![n].txs = mv \o @] ELSE w1
    IN  Append(w2, [bh |-> "y", bn |-> ww[n].bn + 1, slot |-> 2 * ww[n].bn + 14, txs |-> <<>>])

RECURSIVE TxItemsFrom(_, _)
TxItemsFrom(ww, i) == IF i > Len(ww) THEN <<>>
                      ELSE [j \in DOMAIN ww[i].txs |-> TxItem(ww[i], j)] \o TxItemsFrom(ww, i + 1)
AllItems(ww, fmt) ==
    CASE fmt = "tx"     -> TxItemsFrom(ww, 1)
      [] fmt = "legacy" -> [k \in DOMAIN TxItemsFrom(ww, 1) |-> [th |-> TxItemsFrom(ww, 1)[k].th]]
      [] fmt = "blk"    -> [i \in DOMAIN ww |-> BlkItem(ww[i])]
RECURSIVE Pick(_, _, _)
Pick(s, Q, i) == IF i > Len(s) THEN <<>> ELSE (IF i \in Q THEN <<s[i]>> ELSE <<>>) \o Pick(s, Q, i + 1)
Leaves(fmt, items) == {ItemLeaf(fmt, items[i]) : i \in DOMAIN items}
RangeItems(s) == {s[i] : i \in DOMAIN s}
Queries(n) == {{}, {1}, {n}, {1, n}, {1, 2} \cap (1..n), 1..n}

Context(ww, ck, fmt) ==
    LET ff == Foreign(ww) IN
    [w |-> ww, f |-> ff, certKind |-> ck, fmt |-> fmt,
     T |-> [x \in {"W", "F"} |-> TreeOf(IF x = "W" THEN ww ELSE ff, TreeKind(fmt))],
     items |-> [x \in {"W", "F"} |-> AllItems(IF x = "W" THEN ww ELSE ff, fmt)],
     pm |-> SignedPM(ww, ck, L, O)]
HonestPart(x, items) == [items |-> items, proof |-> HonestProof(cx.T[x], Leaves(cx.fmt, items))]

Init ==
    /\ \E sh \in Shapes : \E fmt \in Fmts :
          \E ck \in (IF CertMix THEN {"legacy", "v2"} ELSE {TreeKind(fmt)}) : cx = Context(MkWorld(sh), ck, fmt)
    /\ \E Q \in Queries(Len(cx.items["W"])) :
          LET items == Pick(cx.items["W"], Q, 1) IN
          resp = [fmt |-> cx.fmt,
                  parts |-> IF items = <<>> THEN <<>> ELSE <<HonestPart("W", items)>>,
                  lbn |-> L, off |-> IF cx.fmt = "legacy" THEN -1 ELSE O]
    /\ hist = <<>>

-----------------------------------------------------------------------------
Step(name, r) == /\ Len(hist) < MaxOps
                 /\ r # resp
                 /\ resp' = r
                 /\ hist' = Append(hist, name)
                 /\ UNCHANGED cx
Part(p) == resp.parts[p]
SetItem(p, i, it) == [resp EXCEPT !.parts[p].items[i] = it]
SetProof(p, pr)   == [resp EXCEPT !.parts[p].proof = pr]
RemoveAt(s, i)    == SubSeq(s, 1, i - 1) \o SubSeq(s, i + 1, Len(s))

(* items added / renamed / moved to another block *)
AlterItem ==
    \E p \in DOMAIN resp.parts :
       \/ \E i \in DOMAIN Part(p).items : i <= MaxItemIdx /\
            LET it == Part(p).items[i] IN
            \/ resp.fmt # "blk"
               /\ \E v \in {cx.items["F"][k].th : k \in DOMAIN cx.items["F"]} :
                     Step("item_th", SetItem(p, i, [it EXCEPT !.th = v]))
            \/ resp.fmt # "legacy" /\ \E j \in DOMAIN cx.f :
                  \/ Step("item_bh",   SetItem(p, i, [it EXCEPT !.bh = cx.f[j].bh]))
                  \/ Step("item_bn",   SetItem(p, i, [it EXCEPT !.bn = cx.f[j].bn]))
                  \/ Step("item_slot", SetItem(p, i, [it EXCEPT !.slot = cx.f[j].slot]))
                  \/ Step("item_move", SetItem(p, i, [it EXCEPT !.bh = cx.f[j].bh, !.bn = cx.f[j].bn,
                                                                !.slot = cx.f[j].slot]))
            \* characters moved across the '/' separators of the leaf identifier
            \/ resp.fmt = "tx" /\
                  \/ Step("item_slash", SetItem(p, i, [it EXCEPT !.th = it.th \o "/" \o it.bh, !.bh = ""]))
                  \/ Step("item_slash", SetItem(p, i, [it EXCEPT !.th = "", !.bh = it.th \o "/" \o it.bh]))
            \/ resp.fmt = "blk" /\
                  Step("item_slash", SetItem(p, i, [it EXCEPT !.bh = it.bh \o "/" \o Dec(it.bn)]))
            \/ Step("item_drop", [resp EXCEPT !.parts[p].items = RemoveAt(@, i)])
            \/ i = 1 /\ Step("item_dup", [resp EXCEPT !.parts[p].items = Append(@, it)])
       \* an item only the forged chain commits
       \/ \E it \in RangeItems(cx.items["F"]) \ RangeItems(cx.items["W"]) :
             Step("item_add_foreign", [resp EXCEPT !.parts[p].items = Append(@, it)])
       \* an item the certified chain commits but this proof does not prove
       \/ \E it \in RangeItems(cx.items["W"]) :
             /\ ~ContainsMap(Part(p).proof, ItemLeaf(resp.fmt, it))
             /\ Step("item_add_unproven", [resp EXCEPT !.parts[p].items = Append(@, it)])

(* proofs swapped between items, foreign proofs, sub-proofs detached / re-keyed / swapped *)
AlterProof ==
    \E p \in DOMAIN resp.parts :
       LET pr  == Part(p).proof
           ils == Leaves(resp.fmt, Part(p).items) IN
       \/ \E x \in {"W", "F"} :
             LET T == cx.T[x]  all == TAllLeaves(cx.T[x]) IN
             \/ ils \cap all # {} /\ Step("proof_same_" \o x, SetProof(p, HonestProof(T, ils)))
             \/ all \ ils # {}    /\ Step("proof_other_" \o x, SetProof(p, HonestProof(T, all \ ils)))
             \/ Step("proof_all_" \o x, SetProof(p, HonestProof(T, all)))
             \* a sub-proof (the tree of one block range) served alone as the whole proof
             \/ \E r \in TRanges(T) :
                   Step("proof_flat_" \o x,
                        SetProof(p, [master |-> [root |-> TSubRoot(T, r), leaves |-> Rg(T[r])], subs |-> <<>>]))
       \/ \E s \in DOMAIN pr.subs :
             \/ Step("sub_detach", SetProof(p, [pr EXCEPT !.subs = RemoveAt(@, s)]))
             \/ pr.subs[s].key \in TRanges(cx.T["F"])
                /\ LET fl   == Rg(cx.T["F"][pr.subs[s].key])
                       keep == IF pr.subs[s].p.leaves \cap fl # {} THEN pr.subs[s].p.leaves \cap fl ELSE fl
                   IN  Step("sub_foreign",
                            SetProof(p, [pr EXCEPT !.subs[s].p = [root |-> TSubRoot(cx.T["F"], pr.subs[s].key),
                                                                  leaves |-> keep]]))
             \/ \E k2 \in 0..2 : Step("sub_rekey", SetProof(p, [pr EXCEPT !.subs[s].key = k2]))
             \* claim every reported item as a leaf of this sub-proof
             \/ Step("sub_leaf_claim", SetProof(p, [pr EXCEPT !.subs[s].p.leaves = @ \cup ils]))
             \* list key + root of this sub-proof among the leaves of the master proof
             \/ Step("master_claim",
                     SetProof(p, [pr EXCEPT !.master.leaves = @ \cup {MLeaf(pr.subs[s].key, pr.subs[s].p.root)}]))
       \/ Len(pr.subs) = 2
          /\ Step("sub_swap", SetProof(p, [pr EXCEPT !.subs[1].p = pr.subs[2].p, !.subs[2].p = pr.subs[1].p]))
       \/ \E r \in TRanges(cx.T["F"]) :
             Step("sub_add_foreign",
                  SetProof(p, [pr EXCEPT !.subs = Append(@, [key |-> r,
                                  p |-> [root |-> TSubRoot(cx.T["F"], r), leaves |-> Rg(cx.T["F"][r])]])]))
       \/ LET ks == {pr.subs[s].key : s \in DOMAIN pr.subs} \cap TRanges(cx.T["F"]) IN
          ks # {} /\ Step("master_foreign",
                          SetProof(p, [pr EXCEPT !.master = [root |-> TRoot(cx.T["F"]),
                                          leaves |-> {MLeaf(k, TSubRoot(cx.T["F"], k)) : k \in ks}]]))
       \/ \E v \in {TRoot(cx.T["W"]), TRoot(cx.T["F"]), Junk} :
             Step("root_relabel", SetProof(p, [pr EXCEPT !.master.root = v]))

(* characters cut off the end (or the start) of a reported item's leaf string and moved into *)
(* the sibling node of the proof: the last digit of the slot number; a character of a legacy  *)
(* transaction hash                                                                           *)
HashIdx(th) == {k \in DOMAIN THP : TH[k] = th}
Cut(it) ==
    IF resp.fmt = "legacy"
    THEN UNION {{[th |-> THP[k][1]], [th |-> THP[k][2]]} : k \in HashIdx(it.th)}
    ELSE IF it.slot >= 10 THEN {[it EXCEPT !.slot = it.slot \div 10]} ELSE {}
MoveLeafBoundary ==
    \E p \in DOMAIN resp.parts : \E i \in DOMAIN Part(p).items : i <= MaxItemIdx /\
       \E it2 \in Cut(Part(p).items[i]) :
          LET old == ItemLeaf(resp.fmt, Part(p).items[i])
              new == ItemLeaf(resp.fmt, it2)
              pr  == Part(p).proof
              sb  == [s \in DOMAIN pr.subs |->
                        IF old \in pr.subs[s].p.leaves
                        THEN [pr.subs[s] EXCEPT !.p.leaves = (@ \ {old}) \cup {new}] ELSE pr.subs[s]]
          IN  Step("leaf_truncate", [resp EXCEPT !.parts[p].items[i] = it2, !.parts[p].proof.subs = sb])

(* latest block number / offset changed; parts with other roots, swapped, dropped *)
AlterMessage ==
    \/ \E v \in {L - 1, L + 1, O} : Step("lbn", [resp EXCEPT !.lbn = v])
    \/ resp.fmt # "legacy" /\ \E v \in {O - 1, O + 1, L} : Step("off", [resp EXCEPT !.off = v])
    \/ Step("parts_clear", [resp EXCEPT !.parts = <<>>])
    \/ resp.fmt = "legacy" /\ Len(resp.parts) < 2 /\
          \/ \E x \in {"W", "F"} :
                LET have == IF resp.parts = <<>> THEN {} ELSE RangeItems(Part(1).items)
                    rest == SelectSeq(cx.items[x], LAMBDA it : it \notin have)
                IN  rest # <<>> /\ Step("part_add_" \o x, [resp EXCEPT !.parts = Append(@, HonestPart(x, rest))])
          \/ resp.parts # <<>> /\ Step("part_dup", [resp EXCEPT !.parts = Append(@, Part(1))])
    \/ resp.fmt = "legacy" /\ Len(resp.parts) = 2 /\
          Step("parts_swap_proofs", [resp EXCEPT !.parts[1].proof = Part(2).proof, !.parts[2].proof = Part(1).proof])

Next == AlterItem \/ AlterProof \/ AlterMessage \/ MoveLeafBoundary
Spec == Init /\ [][Next]_vars
(* the path by which a response was reached is irrelevant: states are identified by this view *)
View == <<cx.w, cx.certKind, resp, Len(hist)>>

(* chain shapes *)
Counts(n) == [1..n -> 0..2]
ShapesTiny  == {<<<<1>>, <<>>>>, <<<<1>>, <<1>>>>}
ShapesQuick == {<<<<1>>, <<>>>>, <<<<2, 0>>, <<1>>>>, <<<<1, 1>>, <<2>>>>, <<<<0, 1, 2>>, <<1, 0, 2>>>>, <<<<2, 2, 2>>, <<2, 2, 2>>>>}
ShapesBig   == {<<<<0, 1, 2>>, <<1, 0, 2>>>>, <<<<2, 2, 2>>, <<2, 2, 2>>>>}
ShapesGen   == {<<<<2>>, <<>>>>, <<<<1, 1>>, <<1>>>>, <<<<1, 0>>, <<0, 2>>>>}
ShapesAll   == UNION {UNION {{<<a, b>> : a \in Counts(na), b \in Counts(nb)} : nb \in 0..3} : na \in 1..3}
ShapesMid   == {sh \in ShapesAll : Len(sh[1]) + Len(sh[2]) <= 3}

-----------------------------------------------------------------------------
(* the property: accepted => reported exactly as signed (relative to the certified chain) *)
ContractInv ==
    /\ hist = <<>> => cx.pm = SignedPM(cx.w, cx.certKind, L, O)
    /\ \/ ContractPM(cx.pm, cx.w, cx.certKind, L, O, resp)
       \/ ExcuseRawLeaf /\ OnlyLeafBoundaryMoved(cx.pm, cx.w, cx.certKind, L, O, resp)

(* vacuity guards: each must be VIOLATED when checked as an invariant *)
NeverAcceptedAltered    == ~(hist # <<>> /\ Accept(cx.pm, resp))
NeverVerifiedNotMatched == ~(VerifyMsg(resp) /\ ~Accept(cx.pm, resp))
NeverExcused            == ContractPM(cx.pm, cx.w, cx.certKind, L, O, resp)

(* GEN: roots are printed as references into the two worlds *)
Refs == {<<"R", x, r>> : x \in {"W", "F"}, r \in AllRanges} \cup {<<"M", x>> : x \in {"W", "F"}} \cup {Junk}
TermOf(ref) == CASE ref[1] = "R" -> TSubRoot(cx.T[ref[2]], ref[3])
                 [] ref[1] = "M" -> TRoot(cx.T[ref[2]])
                 [] OTHER -> Junk
RefOf(t) == IF \E ref \in Refs : TermOf(ref) = t THEN CHOOSE ref \in Refs : TermOf(ref) = t ELSE <<"?">>
GenLeaf(l) == IF l[1] = "K" THEN <<"K", l[2], RefOf(l[3])>> ELSE l
GenMk(p)   == [root |-> RefOf(p.root), leaves |-> {GenLeaf(l) : l \in p.leaves}]
GenPart(sp) == [items |-> sp.items,
                master |-> GenMk(sp.proof.master),
                subs |-> [i \in DOMAIN sp.proof.subs |-> [key |-> sp.proof.subs[i].key, p |-> GenMk(sp.proof.subs[i].p)]]]
GenPrint ==
    Gen => PrintT(<<"CASE", ToJson([w |-> cx.w, f |-> cx.f, certKind |-> cx.certKind, L |-> L, O |-> O,
                                    fmt |-> resp.fmt, lbn |-> resp.lbn, off |-> resp.off,
                                    parts |-> [i \in DOMAIN resp.parts |-> GenPart(resp.parts[i])],
                                    ops |-> hist,
                                    verify |-> VerifyMsg(resp),
                                    impl |-> Accept(cx.pm, resp)])>>)
=============================================================================
