CONSTANTS
    RangeLen = 15
    StakeSep = ""
    RawLeafMerge = TRUE
    Shapes <- ShapesGen
    Fmts = {"legacy", "tx", "blk"}
    MaxOps = 2
    MaxItemIdx = 1
    CertMix = FALSE
    Gen = TRUE
    ExcuseRawLeaf = TRUE
SPECIFICATION Spec
VIEW View
INVARIANTS ContractInv GenPrint
CHECK_DEADLOCK FALSE
