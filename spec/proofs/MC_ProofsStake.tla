--------------------------- MODULE MC_ProofsStake ---------------------------
(***************************************************************************)
(* C11, stake distributions: a certified mapping pool id -> stake (signed  *)
(* as the Merkle root over the leaves pool||decimal(stake) in pool id      *)
(* order, with the epoch) and the mapping served by the aggregator after   *)
(* up to MaxOps edits of single characters / digits, pools added, removed, *)
(* stakes exchanged, epoch changed.  Pairs of edits include the ones that  *)
(* MOVE a character between an identifier and the adjacent number.         *)
(* Invariant: accepted => the served mapping is the certified mapping (and *)
(* the epoch is the certified one) -- unless excused by a known finding:   *)
(* same leaf strings (digits moved between a pool id and ITS stake), or    *)
(* characters moved between the raw leaves of ADJACENT pools.              *)
(***************************************************************************)
EXTENDS Proofs, Json

CONSTANTS MaxOps, ExcuseStakeConcat, ExcuseRawLeaf, Gen, TwoPoolStakes

VARIABLES cert,     \* [dist, epoch] as certified
          sv,       \* [dist, epoch] as served
          hist
vars == <<cert, sv, hist>>

Chars == {"a", "1", "2"}
Ids(lo, hi) == UNION {[1..k -> Chars] : k \in lo..hi}
E0 == 5
CertStakes == TwoPoolStakes
CertDists ==
    {[q \in {p} |-> n] : p \in Ids(1, 2), n \in {0, 1, 2, 12, 21, 30}}
    \cup UNION {{[q \in {p1, p2} |-> IF q = p1 THEN n1 ELSE n2] :
                     p2 \in Ids(1, 2) \ {p1}, n1 \in CertStakes, n2 \in CertStakes} : p1 \in Ids(1, 2)}

Init == /\ \E d \in CertDists : cert = [dist |-> d, epoch |-> E0]
        /\ sv = cert
        /\ hist = <<>>

Step(name, s) == /\ Len(hist) < MaxOps
                 /\ s # sv
                 /\ sv' = s
                 /\ hist' = Append(hist, name)
                 /\ UNCHANGED cert
Rename(d, p, p2) == [q \in (DOMAIN d \ {p}) \cup {p2} |-> IF q = p2 THEN d[p] ELSE d[q]]
AsSeq(f) == [i \in 1..Len(f) |-> f[i]]
IdEdits(p) == {Append(p, c) : c \in Chars}
              \cup (IF Len(p) > 1 THEN {SubSeq(p, 1, Len(p) - 1)} ELSE {})
              \cup {[p EXCEPT ![Len(p)] = c] : c \in Chars}
PrependDigit(c, n) == IF n < 10 THEN c * 10 + n ELSE c * 100 + n
StakeEdits(d, p) == {PrependDigit(c, d[p]) : c \in {1, 2}}
                    \cup (IF d[p] >= 10 THEN {d[p] % 10} ELSE {})
                    \cup {d[p] + 1} \cup (IF d[p] > 0 THEN {d[p] - 1} ELSE {})
                    \cup {d[q] : q \in DOMAIN d}

Edit ==
    LET d == sv.dist IN
    \/ \E p \in DOMAIN d : \E p2 \in {AsSeq(i) : i \in IdEdits(p)} \ DOMAIN d :
          Step("pool_id_edit", [sv EXCEPT !.dist = Rename(d, p, p2)])
    \/ \E p \in DOMAIN d : \E v \in StakeEdits(d, p) : Step("stake_edit", [sv EXCEPT !.dist[p] = v])
    \/ \E p \in {<<"a">>, <<"2">>, <<"a", "1">>} \ DOMAIN d : \E v \in {1, 12} :
          Step("pool_add", [sv EXCEPT !.dist = [q \in DOMAIN d \cup {p} |-> IF q = p THEN v ELSE d[q]]])
    \/ \E p \in DOMAIN d : Step("pool_remove", [sv EXCEPT !.dist = [q \in DOMAIN d \ {p} |-> d[q]]])
    \/ \E e \in {E0 - 1, E0 + 1} : Step("epoch", [sv EXCEPT !.epoch = e])
Next == Edit
Spec == Init /\ [][Next]_vars
View == <<cert, sv, Len(hist)>>

ContractInv ==
    \/ ContractSD(cert.dist, cert.epoch, sv)
    \/ ExcuseStakeConcat /\ sv.epoch = cert.epoch /\ SameLeafStrings(cert.dist, sv)
    \/ ExcuseRawLeaf /\ sv.epoch = cert.epoch /\ AdjacentLeavesMoved(cert.dist, sv)

(* vacuity guard: must be VIOLATED when checked as an invariant *)
NeverExcused == ~(AcceptSD(SignedSD(cert.dist, cert.epoch), sv) /\ SameLeafStrings(cert.dist, sv))

AsList(d) == LET ps == SortedSeq(DOMAIN d) IN [i \in DOMAIN ps |-> [pool |-> Flat(ps[i]), stake |-> d[ps[i]]]]
GenPrint ==
    Gen => PrintT(<<"SDCASE", ToJson([cert |-> AsList(cert.dist), epoch |-> cert.epoch,
                                      served |-> AsList(sv.dist), sepoch |-> sv.epoch, ops |-> hist,
                                      impl |-> AcceptSD(SignedSD(cert.dist, cert.epoch), sv)])>>)
=============================================================================
