CONSTANTS
    N = 3
    Core = {1}
    Quorum = 1
    MaxEpoch = 6
    MaxImm = 3
    MaxRestarts = 4
    MaxOffline = 2
    MaxFlips = 3
    MaxLost = 2
    RoundRobin = FALSE
    RoundsBound = 0
    S_RecOff = 1
    S_RetBack = 1
    S_NextOff = 0
    S_RegParamsOff = 1
    A_RecOff = 1
    A_RetBack = 1
    A_NextOff = 0
    A_ServeBack = 1
    A_MsgAvkOff = 0
    GenDepth = 110
SPECIFICATION SpecH
INVARIANTS TypeOK PublishedAccepted PublishedValid ChainValid KeyInForce NoEarlySign NoStall GenPrint
CHECK_DEADLOCK FALSE
