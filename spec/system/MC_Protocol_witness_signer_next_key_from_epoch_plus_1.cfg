CONSTANTS
    N = 2
    Core = {1}
    Quorum = 1
    MaxEpoch = 4
    MaxImm = 1
    MaxRestarts = 1
    MaxOffline = 1
    MaxFlips = 1
    MaxLost = 1
    RoundRobin = FALSE
    RoundsBound = 0
    S_RecOff = 1
    S_RetBack = 1
    S_NextOff = 1
    S_RegParamsOff = 1
    A_RecOff = 1
    A_RetBack = 1
    A_NextOff = 0
    A_ServeBack = 1
    A_MsgAvkOff = 0
SPECIFICATION Spec
INVARIANTS TypeOK PublishedAccepted PublishedValid ChainValid KeyInForce NoEarlySign NoStall RoundsBounded
PROPERTIES SignersSigned
CHECK_DEADLOCK FALSE
