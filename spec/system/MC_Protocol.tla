----------------------------- MODULE MC_Protocol -----------------------------
(* Model-checking entry of Protocol.tla.  The cfg files next to it are generated from the table in checks/sys.py      *)
(* (python3 checks/sys.py --write-cfgs):                                                                               *)
(*   MC_Protocol_quick*.cfg / _thorough*.cfg   the code's offsets (1,1,0,1 / 1,1,0,1,0): every clause must hold        *)
(*   MC_Protocol_rounds.cfg                    bounded progress counted in undisturbed round-robin rounds              *)
(*   MC_Protocol_live.cfg                      bounded progress as liveness under fairness (FairSpec, Progress)        *)
(*   MC_Protocol_witness_*.cfg                 ONE offset constant flipped on one side: clause (a), (b) or (d) MUST    *)
(*                                             be violated (the model-level mutation test, run as witness stages)      *)
(*   MC_ProtocolGen.cfg                        paced simulation printing schedules (MC_ProtocolGen.tla)                *)
EXTENDS Protocol
=============================================================================
