--------------------------- MODULE MC_ProtocolGen ---------------------------
EXTENDS MC_Protocol, Json

(* GEN: simulation with a history of the stimuli; one schedule per behaviour, printed with the final abstract   *)
(* state the model predicts.  Same actions as Protocol.tla; the environment is paced so that behaviours are      *)
(* productive: cycles that change nothing are offered at every third step only (they are what a node that       *)
(* observed the epoch change first does while it waits for the other), the epoch usually turns when nothing is  *)
(* left to do and sometimes as soon as Protocol!EpochUp allows, faults are rationed by position.                 *)
VARIABLES hist, done
CONSTANT GenDepth
gvars == <<vars, hist, done>>

Step(a, node, fault, flip) == hist' = Append(hist, [a |-> a, node |-> node, fault |-> fault, flip |-> flip])
Slot(k, r) == Len(hist) % k = r

PlainTick(n) == \/ STickInit(n) \/ STickEpochChanged(n) \/ STickNoSignWait(n) \/ STickWaitAgg(n)
                \/ STickIdle(n) \/ STickRegister(n, "none") \/ STickSign(n, "none")
Changes == vars' # vars
\* (compared with TRUE: inside an action TLC would otherwise enumerate the disjuncts as separate successors)
AllDone == (/\ QuietAgg /\ \A n \in Signers : up[n] => QuietSigner(n)
            /\ \E i \in DOMAIN certs : certs[i].entity = CDB(epoch, imm)) = TRUE

GenNext ==
    \/ AggTick /\ (Changes \/ Slot(3, 0)) /\ Step("Tick", 0, "none", FALSE)
    \/ \E n \in Signers : PlainTick(n) /\ (Changes \/ Slot(3, 0)) /\ Step("Tick", n, "none", FALSE)
    \/ \E n \in Signers : Slot(7, 2) /\ STickRegister(n, "reg_lost") /\ Step("Tick", n, "reg_lost", FALSE)
    \/ \E n \in Signers : Slot(7, 5) /\ STickSign(n, "pub_lost") /\ Step("Tick", n, "pub_lost", FALSE)
    \/ (AllDone \/ Slot(6, 1)) /\ EpochUp /\ Step("EpochUp", 0, "none", FALSE)
    \/ ((\E i \in DOMAIN certs : certs[i].entity = CDB(epoch, imm)) \/ Slot(9, 4)) /\ epoch >= 2 /\ ImmUp /\ Step("ImmUp", 0, "none", FALSE)
    \/ \E flip \in BOOLEAN : Slot(5, 3) /\ cnt.restarts < epoch /\ AggRestart(flip) /\ Step("Restart", 0, "none", flip)
    \/ \E n \in Signers : Slot(5, 4) /\ cnt.restarts < epoch /\ SignerRestart(n) /\ Step("Restart", n, "none", FALSE)
    \/ \E n \in Signers : Slot(4, 1) /\ GoOffline(n) /\ Step("Offline", n, "none", FALSE)
    \/ \E n \in Signers : (Slot(4, 2) \/ AllDone) /\ ComeBack(n) /\ Step("Online", n, "none", FALSE)

SpecH == /\ Init /\ hist = <<>> /\ done = FALSE
         /\ [][~done /\ GenNext /\ done' = (Len(hist') >= GenDepth)]_gvars

Inits(n) == {r \in Rec : init[n][r] # 0}
GenPrint == done => PrintT(<<"SCHED", ToJson([steps |-> hist,
                expect |-> [epoch |-> epoch, imm |-> imm, agg |-> asm.state,
                            certs |-> [i \in DOMAIN certs |-> certs[i].entity],
                            state |-> [n \in Signers |-> st[n].state], state_epoch |-> [n \in Signers |-> st[n].epoch],
                            inits |-> [n \in Signers |-> Inits(n)],
                            gens |-> {<<r, params[r]>> : r \in {x \in Rec : params[x] # 0}},
                            flips |-> cnt.flips, offline |-> cnt.offline, restarts |-> cnt.restarts, lost |-> cnt.lost]])>>)
=============================================================================
