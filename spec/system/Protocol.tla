------------------------------ MODULE Protocol ------------------------------
(***************************************************************************)
(* The protocol loop: N signer nodes and one aggregator over one chain     *)
(* (properties C20 and C14, composed).                                     *)
(*                                                                         *)
(* Implementation-shaped, abstracted from spec/signer/Signer.tla and       *)
(* spec/aggregator/Aggregator.tla: one action per CYCLE of a node's state  *)
(* machine (the windows inside a cycle are the subject of C20 / C15; the   *)
(* two that matter between the two components -- a registration or a       *)
(* signature that was recorded but whose answer was lost -- are kept as    *)
(* faults of a cycle).  The nodes communicate ONLY through the aggregator's *)
(* interface:                                                              *)
(*   GET  /epoch-settings            adata: epoch, served current / next   *)
(*                                   signers (5xx until informed)          *)
(*   GET  /protocol-configuration/r  params[r] (404 without a row)         *)
(*   POST /register-signer           RegRefused / regs' (STickRegister)    *)
(*   POST /register-signatures       Decide                                *)
(*   GET  /certificate...            certs (read by the client rule)       *)
(* Each side applies ITS OWN epoch offsets (constants S_* / A_*: the       *)
(* values the code uses are in the cfg files), so that a disagreement      *)
(* between the two real components is expressible; the properties use the  *)
(* protocol's literals (recorded for e+1, signers of e recorded for e-1,   *)
(* next signers of e recorded for e).                                      *)
(*                                                                         *)
(*   mithril-signer/src/runtime/state_machine.rs, runner.rs,               *)
(*       services/epoch_service.rs, services/certifier.rs,                 *)
(*       services/signable_builder/signable_seed_builder.rs                *)
(*   mithril-aggregator/src/runtime/state_machine.rs, runner.rs,           *)
(*       services/epoch_service.rs (inform_epoch, precompute_epoch_data),  *)
(*       services/network_configuration_provider.rs,                       *)
(*       store/epoch_settings_storer.rs (handle_discrepancies_at_startup), *)
(*       services/signer_registration/leader.rs (round in MEMORY),         *)
(*       http_server/routes/{epoch,signer,signatures}_routes.rs,           *)
(*       tools/single_signature_authenticator.rs,                          *)
(*       services/certifier/{buffered_certifier,certifier_service}.rs,     *)
(*       services/signable_builder/signable_seed_builder.rs                *)
(*   internal/mithril-aggregator-client/src/query/post/*.rs (which answers *)
(*       the signer treats as success: 201 / 202 / 410)                    *)
(*                                                                         *)
(* A signer set (what an aggregate key commits to) is the function         *)
(* party -> key id recorded for an epoch; a key embeds the GENERATION of   *)
(* the protocol parameters it was created with.  A single signature        *)
(* verifies under a (set, generation) iff it was built over exactly that   *)
(* set with the key the set holds for the party and that generation, for   *)
(* the very message (epoch, next set, next parameters).                    *)
(***************************************************************************)
EXTENDS Integers, Sequences, FiniteSets, TLC

CONSTANTS
    N,                  \* signer nodes 1..N
    Core,               \* the signers that stay online and register in every epoch (the others may miss epochs)
    Quorum,             \* distinct valid signers needed to seal
    MaxEpoch, MaxImm,
    MaxRestarts,        \* process restarts (any node)
    MaxOffline,         \* times a non-core signer goes offline
    MaxFlips,           \* times the operator changes the aggregator's configured protocol parameters
    MaxLost,            \* answers lost on the way back to a signer (request processed, cycle fails)
    RoundRobin,         \* TRUE: every running node ticks once per round (only used to COUNT rounds, see RoundsBound)
    RoundsBound,
    \* ---- the offsets the SIGNER code applies (current code: 1, 1, 0, 1)
    S_RecOff,           \* registers for epoch-service epoch + S_RecOff
    S_RetBack,          \* signs with the initializer stored for epoch - S_RetBack
    S_NextOff,          \* next aggregate key / next parameters from the initializer stored for epoch + S_NextOff
    S_RegParamsOff,     \* new keys embed the parameters of /protocol-configuration/(epoch + S_RegParamsOff)
    \* ---- the offsets the AGGREGATOR code applies (current code: 1, 1, 0, 1, 0)
    A_RecOff,           \* the round opened in epoch e records for e + A_RecOff
    A_RetBack,          \* signatures of epoch e are verified (and certificates carry the key) of the set recorded for e - A_RetBack
    A_NextOff,          \* next signers of epoch e: recorded for e + A_NextOff
    A_ServeBack,        \* /epoch-settings serves as current signers the set recorded for e - A_ServeBack
    A_MsgAvkOff         \* the protocol message's next aggregate key: set recorded for e + A_MsgAvkOff

VARIABLES
    epoch, imm,         \* the chain (environment)
    \* ---- aggregator sqlite ----
    regs,               \* regs[r][p]  : key id LAST registered by party p for recording epoch r (0: none)
    params,             \* params[r]   : generation of the protocol parameters kept for recording epoch r (0: no row)
    open,               \* open messages [entity, msg, certified]
    sigs,               \* single signatures stored for open messages [entity, n]
    buffered,           \* authenticated signatures waiting for their open message
    certs,              \* certificate chain
    \* ---- aggregator configuration, memory ----
    cfg,                \* configured generation (used for epochs that have no row yet)
    asm,                \* [state, ep, entity]
    adata,              \* epoch service data (epoch 0: not informed since the start)
    round,              \* recording epoch of the open registration round (0: none) -- in memory
    \* ---- signer sqlite ----
    init, igen,         \* init[n][r] key id of the initializer stored for r (insert or ignore), igen: its generation
    signed,             \* signed[n] : beacons marked as signed
    \* ---- signer memory ----
    up, st, ed,
    \* ---- bookkeeping ----
    offAt,              \* offAt[n] : the epoch in which signer n went offline (0: running)
    pubs,               \* history: [entity, n] -- signer n published an acceptable signature for the entity and the
                        \*          aggregator took it (current epoch only)
    viol,               \* history: the publications that were refused or not acceptable, with the reason (normally none)
    dropped,            \* buffered signatures refused at hand-over
    cnt, ticked, rounds
vars == <<epoch, imm, regs, params, open, sigs, buffered, certs, cfg, asm, adata, round,
          init, igen, signed, up, st, ed, offAt, pubs, viol, dropped, cnt, ticked, rounds>>

Signers == 1..N
Rec == 0..(MaxEpoch + 3)
At(f, r) == IF r \in DOMAIN f THEN f[r] ELSE 0
NoSet == [s \in Signers |-> 0]
SetAt(rg, r) == IF r \in DOMAIN rg THEN rg[r] ELSE NoSet

MSD(e)    == <<"MSD", e, 0>>
CDB(e, i) == <<"CDB", e, i>>
EE(en)    == en[2]
NoEntity  == <<"none", 0, 0>>
NoData    == [epoch |-> 0, cur |-> NoSet, next |-> NoSet, serve |-> NoSet, pcur |-> 0, pnext |-> 0]
NoEd      == [epoch |-> 0, key |-> 0, kgen |-> 0, cur |-> NoSet, next |-> NoSet, rgen |-> 0]

GenesisSet == [s \in Signers |-> 1]      \* every party holds genesis key 1, recorded for epochs 0 and 1
Init ==
    /\ epoch = 1 /\ imm = 1
    /\ regs = [r \in Rec |-> IF r <= 1 THEN GenesisSet ELSE NoSet]
    /\ params = [r \in Rec |-> IF r <= 2 THEN 1 ELSE 0]
    /\ open = {} /\ sigs = {} /\ buffered = {}
    /\ certs = <<[entity |-> <<"GEN", 1, 0>>, epoch |-> 1, kind |-> "genesis", avk |-> GenesisSet, pgen |-> 1,
                  navk |-> GenesisSet, npar |-> 1, parent |-> 0]>>
    /\ cfg = 1
    /\ asm = [state |-> "idle", ep |-> 0, entity |-> NoEntity] /\ adata = NoData /\ round = 0
    /\ init = [n \in Signers |-> [r \in Rec |-> IF r <= 1 THEN 1 ELSE 0]]
    /\ igen = [n \in Signers |-> [r \in Rec |-> IF r <= 1 THEN 1 ELSE 0]]
    /\ signed = [n \in Signers |-> {}]
    /\ up = [n \in Signers |-> TRUE]
    /\ st = [n \in Signers |-> [state |-> "init", epoch |-> 0]]
    /\ ed = [n \in Signers |-> NoEd]
    /\ offAt = [n \in Signers |-> 0]
    /\ pubs = {} /\ viol = {} /\ dropped = {}
    /\ cnt = [restarts |-> 0, offline |-> 0, flips |-> 0, lost |-> 0]
    /\ ticked = {} /\ rounds = 0

-----------------------------------------------------------------------------
(* scheduling of ticks: free, or (RoundRobin) every running node once per round; node 0 is the aggregator *)
Running == {0} \cup {n \in Signers : up[n]}
MayTick(node) == RoundRobin => node \notin ticked
Ticked(node) ==
    IF ~RoundRobin THEN UNCHANGED <<ticked, rounds>>
    ELSE IF Running \subseteq (ticked \cup {node})
         THEN ticked' = {} /\ rounds' = IF rounds < RoundsBound THEN rounds + 1 ELSE rounds      \* (saturates)
         ELSE ticked' = ticked \cup {node} /\ UNCHANGED rounds
Disturbed == ticked' = {} /\ rounds' = 0       \* an environment event: the count of undisturbed rounds starts again

-----------------------------------------------------------------------------
(* what "the epoch's work is done" means: certified, and the core signers registered for the next epoch *)
CertMSD(e) == \E i \in DOMAIN certs : certs[i].entity = MSD(e)
Goal(e) == (e = 1 \/ CertMSD(e)) /\ \A n \in Core : At(init[n], e + 1) # 0

(* environment *)
(* an epoch lasts long enough (days, against cycles of seconds): it turns once its work is done *)
EpochUp ==
    /\ epoch < MaxEpoch /\ Goal(epoch)
    /\ epoch' = epoch + 1
    /\ pubs' = {}              \* (history of the epoch that ended: nothing of it can be sealed any more)
    /\ Disturbed
    /\ UNCHANGED <<imm, regs, params, open, sigs, buffered, certs, cfg, asm, adata, round, init, igen, signed, up, offAt, st, ed,
                   viol, dropped, cnt>>

ImmUp ==
    /\ imm < MaxImm
    /\ imm' = imm + 1
    /\ Disturbed
    /\ UNCHANGED <<epoch, regs, params, open, sigs, buffered, certs, cfg, asm, adata, round, init, igen, signed, up, offAt, st, ed,
                   pubs, viol, dropped, cnt>>

(* the aggregator stops and starts again, possibly with other protocol parameters in its configuration: memory   *)
(* is lost (epoch data, registration round, state); at start-up the rows of the three working epochs of the      *)
(* CHAIN's epoch are created from the configuration where they are missing                                       *)
AggRestart(flip) ==
    /\ cnt.restarts < MaxRestarts
    /\ flip => cnt.flips < MaxFlips
    /\ LET c == IF flip THEN 3 - cfg ELSE cfg IN
       /\ cfg' = c
       /\ params' = [r \in Rec |-> IF r \in {epoch - 1, epoch, epoch + 1} /\ params[r] = 0 THEN c ELSE params[r]]
    /\ asm' = [state |-> "idle", ep |-> 0, entity |-> NoEntity] /\ adata' = NoData /\ round' = 0
    /\ cnt' = [cnt EXCEPT !.restarts = @ + 1, !.flips = IF flip THEN @ + 1 ELSE @]
    /\ Disturbed
    /\ UNCHANGED <<epoch, imm, regs, open, sigs, buffered, certs, init, igen, signed, up, offAt, st, ed, pubs, viol, dropped>>

SignerRestart(n) ==
    /\ up[n] /\ cnt.restarts < MaxRestarts
    /\ st' = [st EXCEPT ![n] = [state |-> "init", epoch |-> 0]] /\ ed' = [ed EXCEPT ![n] = NoEd]
    /\ cnt' = [cnt EXCEPT !.restarts = @ + 1]
    /\ Disturbed
    /\ UNCHANGED <<epoch, imm, regs, params, open, sigs, buffered, certs, cfg, asm, adata, round, init, igen, signed, up, offAt,
                   pubs, viol, dropped>>

(* a signer that is not one of the core ones goes away (for an epoch, or several) and comes back *)
GoOffline(n) ==
    /\ n \notin Core /\ up[n] /\ cnt.offline < MaxOffline
    /\ up' = [up EXCEPT ![n] = FALSE] /\ offAt' = [offAt EXCEPT ![n] = epoch]
    /\ st' = [st EXCEPT ![n] = [state |-> "init", epoch |-> 0]] /\ ed' = [ed EXCEPT ![n] = NoEd]
    /\ cnt' = [cnt EXCEPT !.offline = @ + 1]
    /\ Disturbed
    /\ UNCHANGED <<epoch, imm, regs, params, open, sigs, buffered, certs, cfg, asm, adata, round, init, igen, signed,
                   pubs, viol, dropped>>

ComeBack(n) ==
    /\ ~up[n]
    /\ up' = [up EXCEPT ![n] = TRUE] /\ offAt' = [offAt EXCEPT ![n] = 0]
    /\ Disturbed
    /\ UNCHANGED <<epoch, imm, regs, params, open, sigs, buffered, certs, cfg, asm, adata, round, init, igen, signed, st, ed,
                   pubs, viol, dropped, cnt>>
ComeBackSameEpoch(n)   == offAt[n] = epoch /\ ComeBack(n)
ComeBackLaterEpoch(n)  == offAt[n] # epoch /\ ComeBack(n)        \* it missed (at least) the end of an epoch

-----------------------------------------------------------------------------
(* the aggregator's interface, as the signers see it *)
AggUp == adata.epoch # 0                 \* the epoch service was informed since the start (else: 5xx)
ConfigsServed(e) == e >= 1 /\ At(params, e - 1) # 0 /\ At(params, e) # 0 /\ At(params, e + 1) # 0

(* a single signature p = [n, entity, key, kgen, cur, msg] against the current / the next signer set *)
ValidCur(p)  == p.key # 0 /\ p.cur = adata.cur  /\ adata.cur[p.n]  = p.key /\ p.kgen = adata.pcur
ValidNext(p) == p.key # 0 /\ p.cur = adata.next /\ adata.next[p.n] = p.key /\ p.kgen = adata.pnext
OpenFor(en)  == {m \in open : m.entity = en}
(* POST /register-signatures: authenticate (current or next set, for the message the submitter names), then the     *)
(* certifier: no open message -> buffered; certified -> gone; else verified for the open message's own message      *)
Decide(p) ==
    IF ~AggUp \/ adata.epoch = certs[1].epoch THEN "unavailable"     \* (nothing is pre-computed in the epoch of the genesis: 400)
    ELSE IF ~(ValidCur(p) \/ ValidNext(p)) THEN "unauth"
    ELSE IF OpenFor(p.entity) = {} THEN "buffered"
    ELSE IF \E m \in OpenFor(p.entity) : m.certified THEN "closed"
    ELSE IF ValidCur(p) /\ \E m \in OpenFor(p.entity) : m.msg = p.msg THEN "ok"
    ELSE "invalid"
Success(res) == res \in {"ok", "buffered", "closed"}       \* 201, 202, 410: the signer marks the beacon as signed

-----------------------------------------------------------------------------
(* SIGNER cycles *)
SUnchangedAgg == UNCHANGED <<regs, params, open, sigs, buffered, certs, cfg, asm, adata, round, dropped>>

STickInit(n) ==
    /\ up[n] /\ MayTick(n) /\ st[n].state = "init"
    /\ st' = [st EXCEPT ![n] = [state |-> "unreg", epoch |-> epoch]]
    /\ signed' = [signed EXCEPT ![n] = {en \in @ : EE(en) >= epoch}]      \* (marks of past epochs are never looked at again)
    /\ Ticked(n)
    /\ SUnchangedAgg /\ UNCHANGED <<epoch, imm, init, igen, up, offAt, ed, pubs, viol, cnt>>

(* the signer sees the new epoch *)
STickEpochChanged(n) ==
    /\ up[n] /\ MayTick(n) /\ st[n].state \in {"unreg", "ready", "nosign"} /\ epoch > st[n].epoch
    /\ st' = [st EXCEPT ![n] = [state |-> "unreg", epoch |-> epoch]]
    /\ signed' = [signed EXCEPT ![n] = {en \in @ : EE(en) >= epoch}]
    /\ Ticked(n)
    /\ SUnchangedAgg /\ UNCHANGED <<epoch, imm, init, igen, up, offAt, ed, pubs, viol, cnt>>
STickEpochChangedFirst(n)    == adata.epoch < epoch /\ STickEpochChanged(n)         \* ... before the aggregator did
STickEpochChangedAfterAgg(n) == ~(adata.epoch < epoch) /\ STickEpochChanged(n)      \* ... after the aggregator

STickNoSignWait(n) ==
    /\ up[n] /\ MayTick(n) /\ st[n].state = "nosign" /\ epoch = st[n].epoch
    /\ Ticked(n)
    /\ SUnchangedAgg /\ UNCHANGED <<epoch, imm, init, igen, signed, up, offAt, st, ed, pubs, viol, cnt>>

(* UNREGISTERED, the aggregator cannot be used yet: it restarted and has not run a cycle (5xx), it has no row   *)
(* for one of the three configurations (404), or it is still in an earlier epoch (the signer observed the      *)
(* epoch change first): the cycle fails / waits, state kept                                                    *)
AggBehind == ~AggUp \/ ~ConfigsServed(epoch) \/ adata.epoch < epoch
STickWaitAgg(n) ==
    /\ up[n] /\ MayTick(n) /\ st[n].state = "unreg" /\ epoch = st[n].epoch
    /\ AggBehind
    /\ Ticked(n)
    /\ SUnchangedAgg /\ UNCHANGED <<epoch, imm, init, igen, signed, up, offAt, st, ed, pubs, viol, cnt>>

(* UNREGISTERED: epoch settings + network configuration fetched, epoch service informed, registration (register *)
(* THEN save the initializer), can_sign_current_epoch.  f = "reg_lost": the aggregator recorded the key, the    *)
(* answer did not arrive (or the process stopped before the initializer was saved)                              *)
EdNew(n) == [epoch |-> adata.epoch,
             key |-> At(init[n], adata.epoch - S_RetBack), kgen |-> At(igen[n], adata.epoch - S_RetBack),
             cur |-> adata.serve, next |-> adata.next,
             rgen |-> At(params, epoch + S_RegParamsOff)]
RecOf(n) == adata.epoch + S_RecOff
(* a fresh key: distinct from every key the party ever registered (ten per recording epoch, numbered from the   *)
(* last one the aggregator recorded for the open round)                                                         *)
FreshKey(n) == IF regs[round][n] = 0 THEN 10 * round + 1 ELSE regs[round][n] + 1
(* 550 round not yet open (state Unregistered kept) / unexpected epoch (the cycle fails) *)
RegRefused(n) == At(init[n], RecOf(n)) = 0 /\ (round = 0 \/ RecOf(n) # round \/ RecOf(n) \notin Rec)
STickRegister(n, f) ==
    /\ up[n] /\ MayTick(n) /\ st[n].state = "unreg" /\ epoch = st[n].epoch
    /\ ~AggBehind
    /\ f \in {"none", "reg_lost"}
    /\ LET d == EdNew(n)
           rec == RecOf(n)
           canSign == d.key # 0 /\ d.cur[n] = d.key
           registered == st' = [st EXCEPT ![n] = [state |-> IF canSign THEN "ready" ELSE "nosign", epoch |-> epoch]]
       IN
       /\ ed' = [ed EXCEPT ![n] = d]
       /\ IF At(init[n], rec) # 0
          THEN \* already registered for that epoch: nothing sent
               /\ f = "none" /\ registered /\ UNCHANGED <<init, igen, regs, cnt>>
          ELSE IF RegRefused(n)
          THEN /\ f = "none" /\ UNCHANGED <<init, igen, regs, st, cnt>>
          ELSE /\ regs' = [regs EXCEPT ![round][n] = FreshKey(n)]   \* the last registration wins
               /\ IF f = "reg_lost"
                  THEN /\ cnt.lost < MaxLost /\ cnt' = [cnt EXCEPT !.lost = @ + 1]
                       /\ UNCHANGED <<init, igen, st>>
                  ELSE /\ init' = [init EXCEPT ![n][rec] = FreshKey(n)]
                       /\ igen' = [igen EXCEPT ![n][rec] = d.rgen]
                       /\ registered /\ UNCHANGED cnt
    /\ Ticked(n)
    /\ UNCHANGED <<epoch, imm, params, open, sigs, buffered, certs, cfg, asm, adata, round, dropped, signed, up, offAt, pubs, viol>>

(* READY TO SIGN: first beacon of the current time point not yet marked; message; signature; publish THEN mark *)
Beacons == <<MSD(epoch), CDB(epoch, imm)>>
PickFor(n) == IF Beacons[1] \notin signed[n] THEN 1 ELSE IF Beacons[2] \notin signed[n] THEN 2 ELSE 0
CanComputeMessage(n) == At(init[n], ed[n].epoch + S_NextOff) # 0
SignatureOf(n, en) ==
    [n |-> n, entity |-> en, key |-> ed[n].key, kgen |-> ed[n].kgen, cur |-> ed[n].cur,
     msg |-> [epoch |-> ed[n].epoch, navk |-> ed[n].next, npar |-> At(igen[n], ed[n].epoch + S_NextOff)]]

STickIdle(n) ==      \* nothing (more) to sign, or the message cannot be computed
    /\ up[n] /\ MayTick(n) /\ st[n].state = "ready" /\ epoch = st[n].epoch
    /\ PickFor(n) = 0 \/ ~CanComputeMessage(n)
    /\ Ticked(n)
    /\ SUnchangedAgg /\ UNCHANGED <<epoch, imm, init, igen, signed, up, offAt, st, ed, pubs, viol, cnt>>

(* what the properties need to remember of a publication (history): protocol offsets as literals.  A signature  *)
(* for a beacon of epoch e is ACCEPTABLE iff it was built over the signer set recorded for e-1, with the key     *)
(* that set holds for the party and the parameters kept for e-1, for the message of epoch e committing to the    *)
(* set recorded for e and the parameters kept for e                                                              *)
ValidFor(p) ==
    LET e == EE(p.entity) IN
    /\ p.key # 0 /\ p.cur = SetAt(regs, e - 1) /\ SetAt(regs, e - 1)[p.n] = p.key
    /\ p.kgen = At(params, e - 1)
    /\ p.msg = [epoch |-> e, navk |-> SetAt(regs, e), npar |-> At(params, e)]
HeldFor(p) ==      \* the signer holds, for the signing epoch, the key the aggregator recorded for it
    LET e == EE(p.entity) IN At(init[p.n], e - 1) # 0 /\ At(init[p.n], e - 1) = p.key /\ SetAt(regs, e - 1)[p.n] = p.key
Allowed(res) == res \in {"ok", "buffered", "closed", "unavailable"}
Verdict(n) ==
    LET p == SignatureOf(n, Beacons[IF PickFor(n) = 0 THEN 1 ELSE PickFor(n)])     \* (total: TLC may evaluate it unguarded)
    IN [n |-> n, entity |-> p.entity, res |-> Decide(p), valid |-> ValidFor(p), held |-> HeldFor(p)]
Clean(v) == Allowed(v.res) /\ v.valid /\ v.held

STickSign(n, f) ==
    /\ up[n] /\ MayTick(n) /\ st[n].state = "ready" /\ epoch = st[n].epoch
    /\ PickFor(n) # 0 /\ CanComputeMessage(n)
    /\ f \in {"none", "pub_lost"}
    /\ LET en  == Beacons[PickFor(n)]
           p   == SignatureOf(n, en)
           res == Decide(p)
       IN
       /\ viol' = IF Clean(Verdict(n)) THEN viol ELSE viol \cup {Verdict(n)}
       /\ pubs' = IF res \in {"ok", "buffered"} /\ ValidFor(p) THEN pubs \cup {[entity |-> en, n |-> n]} ELSE pubs
       /\ sigs' = IF res = "ok" THEN sigs \cup {[entity |-> en, n |-> n]} ELSE sigs
       /\ buffered' = IF res = "buffered" THEN buffered \cup {p} ELSE buffered
       /\ IF f = "pub_lost"
          THEN cnt.lost < MaxLost /\ cnt' = [cnt EXCEPT !.lost = @ + 1] /\ UNCHANGED signed
          ELSE /\ signed' = IF Success(res) THEN [signed EXCEPT ![n] = @ \cup {en}] ELSE signed
               /\ UNCHANGED cnt
    /\ Ticked(n)
    /\ UNCHANGED <<epoch, imm, regs, params, open, certs, cfg, asm, adata, round, dropped, init, igen, up, offAt, st, ed>>

-----------------------------------------------------------------------------
(* AGGREGATOR cycles *)
AUnchangedSigners == UNCHANGED <<init, igen, signed, up, offAt, st, ed, pubs, viol>>
GenesisEpoch  == certs[1].epoch
LastCertEpoch == certs[Len(certs)].epoch

(* IDLE: the tasks run once per epoch (close the round, epoch service, upkeep, open the round, pre-computation), *)
(* then the chain validity.  `first`: before every running signer saw the epoch                                  *)
InitPar  == [params EXCEPT ![epoch + 1] = IF @ = 0 THEN cfg ELSE @]
InitData == [epoch |-> epoch,
             cur   |-> SetAt(regs, epoch - A_RetBack),
             next  |-> SetAt(regs, epoch + A_NextOff),
             serve |-> SetAt(regs, epoch - A_ServeBack),
             pcur  |-> At(InitPar, epoch - 1), pnext |-> At(InitPar, epoch)]
InitStalled == GenesisEpoch < epoch /\ (InitData.cur = NoSet \/ InitData.next = NoSet)     \* no key to aggregate with
ATickInitEpoch ==
    /\ MayTick(0) /\ asm.state = "idle"
    /\ params' = InitPar /\ adata' = InitData
    /\ open' = {m \in open : EE(m.entity) >= epoch - 1}
    /\ sigs' = {s \in sigs : EE(s.entity) >= epoch - 1}
    /\ buffered' = {b \in buffered : EE(b.entity) >= epoch}
    /\ IF InitStalled
       THEN round' = 0 /\ UNCHANGED asm
       ELSE /\ round' = epoch + A_RecOff
            /\ asm' = [state |-> IF epoch - LastCertEpoch > 1 \/ GenesisEpoch = epoch THEN "blocked" ELSE "ready",
                       ep |-> epoch, entity |-> NoEntity]
    /\ Ticked(0)
    /\ AUnchangedSigners /\ UNCHANGED <<epoch, imm, regs, certs, cfg, dropped, cnt>>

ATickBlocked ==
    /\ MayTick(0) /\ asm.state = "blocked"
    /\ asm' = IF asm.ep < epoch THEN [asm EXCEPT !.state = "idle"] ELSE asm
    /\ Ticked(0)
    /\ AUnchangedSigners /\ UNCHANGED <<epoch, imm, regs, params, open, sigs, buffered, certs, cfg, adata, round, dropped, cnt>>

(* leaving READY / SIGNING because the chain entered a new epoch *)
ATickEpochChanged ==
    /\ MayTick(0) /\ asm.state \in {"ready", "signing"} /\ asm.ep < epoch
    /\ asm' = [state |-> "idle", ep |-> asm.ep, entity |-> NoEntity]
    /\ Ticked(0)
    /\ AUnchangedSigners /\ UNCHANGED <<epoch, imm, regs, params, open, sigs, buffered, certs, cfg, adata, round, dropped, cnt>>

Workable(en) == OpenFor(en) = {} \/ \E m \in OpenFor(en) : ~m.certified
APick == IF Workable(Beacons[1]) THEN 1 ELSE IF Workable(Beacons[2]) THEN 2 ELSE 0
MessageFor == [epoch |-> adata.epoch, navk |-> SetAt(regs, adata.epoch + A_MsgAvkOff), npar |-> adata.pnext]

SomeSignerThere == \E n \in Signers : up[n] /\ st[n].epoch = epoch
ATickEpochChangedFirst       == ~SomeSignerThere /\ ATickEpochChanged       \* the aggregator observes the epoch first
ATickEpochChangedAfterSigner == SomeSignerThere /\ ATickEpochChanged        \* ... after a signer (which is waiting for it)

ATickReadyIdle ==
    /\ MayTick(0) /\ asm.state = "ready" /\ asm.ep = epoch /\ APick = 0
    /\ Ticked(0)
    /\ AUnchangedSigners /\ UNCHANGED <<epoch, imm, regs, params, open, sigs, buffered, certs, cfg, asm, adata, round, dropped, cnt>>

(* READY: open message for the first beacon that has no certificate yet (created with the message computed NOW), *)
(* hand-over of the signatures buffered for it                                                                  *)
ATickOpen ==
    /\ MayTick(0) /\ asm.state = "ready" /\ asm.ep = epoch /\ APick # 0
    /\ LET en == Beacons[APick] IN
       /\ asm' = [state |-> "signing", ep |-> epoch, entity |-> en]
       /\ IF OpenFor(en) # {}
          THEN UNCHANGED <<open, sigs, buffered, dropped>>
          ELSE LET msg  == MessageFor
                   mine == {b \in buffered : b.entity = en}
                   good == {b \in mine : ValidCur(b) /\ b.msg = msg}
               IN /\ open' = open \cup {[entity |-> en, msg |-> msg, certified |-> FALSE]}
                  /\ sigs' = sigs \cup {[entity |-> en, n |-> b.n] : b \in good}
                  /\ buffered' = buffered \ mine
                  /\ dropped' = dropped \cup (mine \ good)
    /\ Ticked(0)
    /\ AUnchangedSigners /\ UNCHANGED <<epoch, imm, regs, params, certs, cfg, adata, round, cnt>>

SignersOf(en) == {s.n : s \in {t \in sigs : t.entity = en}}
FirstIdxOf(e) == IF \E i \in DOMAIN certs : certs[i].epoch = e
                 THEN CHOOSE i \in DOMAIN certs : certs[i].epoch = e /\ \A j \in DOMAIN certs : certs[j].epoch = e => i <= j
                 ELSE 0
ParentFor(e) == IF FirstIdxOf(e) # 0 THEN FirstIdxOf(e) ELSE FirstIdxOf(e - 1)
Outdated(en) == en \notin {Beacons[1], Beacons[2]}
CanSeal(en) == Cardinality(SignersOf(en)) >= Quorum /\ ParentFor(adata.epoch) # 0

ATickLeaveOutdated ==        \* a newer beacon of the same type exists
    /\ MayTick(0) /\ asm.state = "signing" /\ asm.ep = epoch /\ Outdated(asm.entity)
    /\ asm' = [state |-> "ready", ep |-> epoch, entity |-> NoEntity]
    /\ Ticked(0)
    /\ AUnchangedSigners /\ UNCHANGED <<epoch, imm, regs, params, open, sigs, buffered, certs, cfg, adata, round, dropped, cnt>>

ATickWait ==
    /\ MayTick(0) /\ asm.state = "signing" /\ asm.ep = epoch /\ ~Outdated(asm.entity) /\ ~CanSeal(asm.entity)
    /\ Ticked(0)
    /\ AUnchangedSigners /\ UNCHANGED <<epoch, imm, regs, params, open, sigs, buffered, certs, cfg, asm, adata, round, dropped, cnt>>

(* SIGNING: multi-signature under the current key, certificate linked to the master certificate, open message *)
(* certified (the window between the two writes is the subject of C15)                                        *)
ATickSeal ==
    /\ MayTick(0) /\ asm.state = "signing" /\ asm.ep = epoch /\ ~Outdated(asm.entity) /\ CanSeal(asm.entity)
    /\ LET en == asm.entity
           m  == CHOOSE x \in OpenFor(en) : TRUE
       IN /\ certs' = Append(certs, [entity |-> en, epoch |-> adata.epoch, kind |-> "std",
                                     avk |-> adata.cur, pgen |-> adata.pcur, navk |-> m.msg.navk, npar |-> m.msg.npar,
                                     parent |-> ParentFor(adata.epoch)])     \* (signer list: SignersOf(en))
          /\ open' = {IF x.entity = en THEN [x EXCEPT !.certified = TRUE] ELSE x : x \in open}
    /\ asm' = [state |-> "ready", ep |-> epoch, entity |-> NoEntity]
    /\ Ticked(0)
    /\ AUnchangedSigners /\ UNCHANGED <<epoch, imm, regs, params, sigs, buffered, cfg, adata, round, dropped, cnt>>

-----------------------------------------------------------------------------
SignerTick(n) == \/ STickInit(n) \/ STickEpochChangedFirst(n) \/ STickEpochChangedAfterAgg(n) \/ STickNoSignWait(n) \/ STickWaitAgg(n)
                 \/ (\E f \in {"none", "reg_lost"} : STickRegister(n, f))
                 \/ STickIdle(n) \/ (\E f \in {"none", "pub_lost"} : STickSign(n, f))
AggTick == \/ ATickInitEpoch \/ ATickBlocked \/ ATickEpochChangedFirst \/ ATickEpochChangedAfterSigner
           \/ ATickReadyIdle \/ ATickOpen \/ ATickLeaveOutdated \/ ATickWait \/ ATickSeal
AggRestartSameParameters  == cnt.restarts < MaxRestarts /\ AggRestart(FALSE)
AggRestartOtherParameters == cnt.flips < MaxFlips /\ AggRestart(TRUE)          \* the operator changed the protocol parameters
Env == \/ EpochUp \/ ImmUp \/ AggRestartSameParameters \/ AggRestartOtherParameters
       \/ \E n \in Signers : SignerRestart(n) \/ GoOffline(n) \/ ComeBackSameEpoch(n) \/ ComeBackLaterEpoch(n)
Next == AggTick \/ (\E n \in Signers : SignerTick(n)) \/ Env
Spec == Init /\ [][Next]_vars

(* fairness for the progress clause: the aggregator and the core signers keep cycling (fault-free cycles) *)
FairTick(n) == \/ STickInit(n) \/ STickEpochChanged(n) \/ STickRegister(n, "none") \/ STickSign(n, "none")
FairSpec == Spec /\ WF_vars(AggTick) /\ \A n \in Core : WF_vars(FairTick(n))

-----------------------------------------------------------------------------
(* The property clauses -- protocol offsets as literals: a registration accepted during epoch e is recorded for   *)
(* e+1; the signer set / keys / parameters of epoch e are those recorded / kept for e-1; the message of epoch e  *)
(* commits to the set recorded for e and the parameters kept for e.                                              *)

(* (a) every signature a signer publishes is accepted by the aggregator, unless the aggregator has not opened    *)
(*     the message yet (it is kept and accepted when the message is opened), has already certified it, or has    *)
(*     just restarted                                                                                            *)
PublishedAccepted == (\A v \in viol : Allowed(v.res)) /\ dropped = {}
(*     ... and it is valid under the signer set and parameters the aggregator holds for that epoch (ValidFor) *)
PublishedValid == \A v \in viol : v.valid

(* (b) every certificate verifies to genesis under the client rule (ValidChain of spec/cert/CertChain.tla: the   *)
(*     key and parameters of a certificate are those of its same-epoch master, or the NEXT key and parameters   *)
(*     committed by the master of the previous epoch), carries the key and parameters in force for its epoch,    *)
(*     and names only signers that signed                                                                        *)
StdIdx == {i \in DOMAIN certs : certs[i].kind = "std"}
LinkOk(c, p) == \/ p.epoch = c.epoch     /\ p.avk = c.avk  /\ p.pgen = c.pgen
                \/ p.epoch + 1 = c.epoch /\ p.navk = c.avk /\ p.npar = c.pgen
ChainValid ==
    \A i \in StdIdx :
        LET c == certs[i] IN
        /\ c.parent \in 1..(i - 1)
        /\ LinkOk(c, certs[c.parent])
        /\ c.parent = FirstIdxOf(certs[c.parent].epoch)         \* the master certificate of its epoch
KeyInForce ==
    \A i \in StdIdx :
        LET c == certs[i] IN
        /\ c.avk = SetAt(regs, c.epoch - 1) /\ c.pgen = At(params, c.epoch - 1)
        /\ c.navk = SetAt(regs, c.epoch)    /\ c.npar = At(params, c.epoch)
        /\ c.epoch = EE(c.entity)
(*     (the signer list of a certificate is SignersOf(entity) at the moment it is sealed: judged on that step) *)
SignersSigned ==
    [][Len(certs') > Len(certs) =>
          /\ Cardinality(SignersOf(asm.entity)) >= Quorum
          /\ \A n \in SignersOf(asm.entity) : [entity |-> asm.entity, n |-> n] \in pubs]_vars

(* (c) no signer signs before it holds a key the aggregator recorded for the signing epoch *)
NoEarlySign == \A v \in viol : v.held

(* (d) bounded progress, with the core signers online and registering:                                           *)
(*     - safety form: when no cycle of any running node changes anything any more, the epoch's work is done      *)
QuietSigner(n) ==
    /\ st[n].state # "init" /\ st[n].epoch = epoch
    /\ \/ st[n].state = "nosign"
       \/ st[n].state = "unreg" /\ (AggBehind \/ (RegRefused(n) /\ ed[n] = EdNew(n)))
       \/ st[n].state = "ready" /\ \/ PickFor(n) = 0 \/ ~CanComputeMessage(n)
                                   \/ ~Success(Verdict(n).res) /\ (Clean(Verdict(n)) \/ Verdict(n) \in viol)
QuietAgg ==
    \/ asm.state = "blocked" /\ asm.ep = epoch
    \/ asm.state = "ready" /\ asm.ep = epoch /\ APick = 0
    \/ asm.state = "signing" /\ asm.ep = epoch /\ ~Outdated(asm.entity) /\ ~CanSeal(asm.entity)
    \/ asm.state = "idle" /\ InitStalled /\ adata = InitData /\ params = InitPar /\ round = 0
Quiet == QuietAgg /\ \A n \in Signers : up[n] => QuietSigner(n)
NoStall == Quiet => Goal(epoch)
(*     - counted form (RoundRobin): after RoundsBound undisturbed rounds in which every running node cycled once  *)
RoundsBounded == RoundRobin => (rounds >= RoundsBound => Goal(epoch))
(*     - liveness form, under FairSpec *)
Progress == \A e \in 1..MaxEpoch : (epoch = e) ~> Goal(e)

TypeOK == /\ asm.state \in {"idle", "blocked", "ready", "signing"}
          /\ \A n \in Signers : st[n].state \in {"init", "unreg", "ready", "nosign"}
=============================================================================
