---------------------------- MODULE ProtocolTrace ----------------------------
(***************************************************************************)
(* Contract trace spec for the protocol loop (C20 and C14 composed):       *)
(* accepts or rejects traces of REAL signer runtimes talking to the REAL   *)
(* aggregator runtime through its real HTTP routes (harness/vh-system).    *)
(* After every stimulus the harness logs the whole abstract state:         *)
(*                                                                         *)
(*  obs = [ agg        = aggkit's projection of the aggregator's database  *)
(*                       [state, epoch, imm (the CHAIN's), certs, open,    *)
(*                        sigs, arts, buffered]                            *)
(*                       certs = << [id, parent, epoch, kind, entity,      *)
(*                                   signers (0-based party indexes),      *)
(*                                   verifies, ..] >>                      *)
(*          agg_epoch  = epoch of the aggregator's epoch service (0: none) *)
(*          agg_regs   = << [epoch, signer, key, stake] >> its registration*)
(*                       table; agg_params = << [epoch, gen] >> the        *)
(*                       GENERATION of protocol parameters it keeps per    *)
(*                       recording epoch (two really different ones)       *)
(*          certx      = << [id, epoch, avk, navk, pgen, npar, msg_epoch,  *)
(*                           avk_rec, navk_rec, kept_gen, kept_next_gen] >>*)
(*                       what each stored certificate carries: small ids   *)
(*                       of its aggregate key and of the next key its      *)
(*                       message commits to, the generations of its        *)
(*                       parameters / next parameters, and the recording   *)
(*                       epochs r whose signer set -- DERIVED BY THE       *)
(*                       HARNESS from the registrations accepted at the    *)
(*                       front door, last one per party, stake             *)
(*                       distribution in force when they were made --      *)
(*                       gives that key                                    *)
(*          signers    = << [node, up, state, state_epoch, data_epoch,     *)
(*                           inits = << [epoch, key, gen] >>,              *)
(*                           signed = << [entity, ee] >>] >>               *)
(*          new_regs   = the POST /register-signer requests since the last *)
(*                       observation [n, signer, named, key, status,       *)
(*                       answered, chain_epoch, agg_epoch]                 *)
(*          new_pubs   = the POST /register-signatures requests since the  *)
(*                       last observation [n, signer, entity, ee, sigma,   *)
(*                       status, answered, valid, msg_ok, held,            *)
(*                       chain_epoch, agg_epoch, open] ]                   *)
(*                                                                         *)
(*   status    the aggregator's HTTP answer (answered: what the signer     *)
(*             got -- 500 when the answer was lost on the way back)        *)
(*   valid     a REAL MultiSigner built from the set derived for ee - 1    *)
(*             with the parameters the aggregator keeps for ee - 1 accepts *)
(*             the signature                                               *)
(*   msg_ok    the signed message is the one the protocol defines for the  *)
(*             beacon: its content, the key of the set derived for ee as   *)
(*             next key, the parameters kept for ee as next parameters     *)
(*   held      the signer has stored, for ee - 1, an initializer whose key *)
(*             is the one in the aggregator's table for (ee - 1, party)    *)
(*   open      state of the beacon's open message when the request came:   *)
(*             none / open / certified / expired                           *)
(*                                                                         *)
(* Protocol offsets (literals, here and in the harness verdicts): a        *)
(* registration accepted during chain epoch e is recorded for e + 1; the   *)
(* signers, keys and parameters of a beacon of epoch e are those recorded  *)
(* / kept for e - 1; its message commits to those of e.                    *)
(* The contract states the property clauses on every observation; it does  *)
(* not require the steps to be transitions of Protocol.tla.                *)
(***************************************************************************)
EXTENDS Integers, Sequences, FiniteSets, TLC, Json, IOUtils

Rec   == ndJsonDeserialize(IOEnv.TRACE)
Known == ndJsonDeserialize(IOEnv.KNOWN)

VARIABLES l,
          taken,    \* <<entity, signer>> : an acceptable signature of the signer for the beacon was taken (201 / 202)
          kept,     \* <<entity, signer>> : ... answered 202 (kept until the message is opened)
          sigmas    \* <<signer, entity, sigma>> : signature values published
tvars == <<l, taken, kept, sigmas>>
E == Rec[l]
IsEvent(name) == l <= Len(Rec) /\ Rec[l].ev = name /\ Rec[l].seq = l /\ l' = l + 1

Range(s) == {s[i] : i \in DOMAIN s}

MatchesKnown(e, k) == \A f \in DOMAIN k.match : f \in DOMAIN e /\ e[f] = k.match[f]
KnownFor(e) == \E i \in DOMAIN Known :
                  /\ MatchesKnown(e, Known[i])
                  /\ PrintT(<<"KNOWN-USED", ToJson([id |-> Known[i].id, seq |-> l])>>)

GenesisEpoch(o) == IF Len(o.agg.certs) > 0 THEN o.agg.certs[1].epoch ELSE 0
KeyAt(rows, r) == IF \E i \in DOMAIN rows : rows[i].epoch = r
                  THEN rows[CHOOSE i \in DOMAIN rows : rows[i].epoch = r].key ELSE 0
AggKey(o, r, n) == IF \E i \in DOMAIN o.agg_regs : o.agg_regs[i].epoch = r /\ o.agg_regs[i].signer = n
                   THEN o.agg_regs[CHOOSE i \in DOMAIN o.agg_regs : o.agg_regs[i].epoch = r /\ o.agg_regs[i].signer = n].key
                   ELSE 0

-----------------------------------------------------------------------------
(* (a) every signature a signer publishes is acceptable under the protocol (valid under the signer set and the    *)
(*     parameters held for its epoch, over the protocol's message) and the aggregator takes it -- unless it has    *)
(*     not opened the message yet (202: kept, see KeptDelivered), has already closed it (410), is not in that      *)
(*     epoch (it restarted, or has not observed the epoch yet), or the epoch is the one of the genesis certificate *)
(*     in which nothing is certified                                                                               *)
Acceptable(x) == x.decoded /\ x.signer >= 1 /\ x.valid /\ x.msg_ok
PubOk(o, x) ==
    /\ Acceptable(x)
    /\ \/ x.status = 201 /\ x.open = "open"
       \/ x.status = 202 /\ x.open = "none"
       \/ x.status = 410 /\ x.open \in {"certified", "expired"}
       \/ x.status \notin {201, 202, 410} /\ (x.agg_epoch # x.ee \/ x.ee = GenesisEpoch(o))
(* (c) no signer signs before it holds a key the aggregator recorded for the signing epoch *)
PubHeld(x) == x.held

(*     a signature that was kept is handed over when its message is opened *)
KeptDelivered(o) ==
    \A k \in kept :
        (\E i \in DOMAIN o.agg.open : o.agg.open[i].entity = k[1] /\ ~o.agg.open[i].certified /\ ~o.agg.open[i].expired)
            => \E j \in DOMAIN o.agg.sigs : o.agg.sigs[j].entity = k[1] /\ o.agg.sigs[j].label = k[2] - 1

(*     per beacon a signer publishes one signature value (C20) *)
OneValue(x) == \A s \in sigmas : (s[1] = x.signer /\ s[2] = x.entity) => s[3] = x.sigma

(* registrations: an accepted one is recorded under the epoch the protocol says, with the key that was sent *)
RegOk(o, x) ==
    x.status = 201 =>
        /\ x.decoded /\ x.named = x.chain_epoch + 1
        /\ AggKey(o, x.named, x.signer) # 0
        /\ \/ AggKey(o, x.named, x.signer) = x.key
           \/ \E j \in DOMAIN o.new_regs : o.new_regs[j].n > x.n /\ o.new_regs[j].signer = x.signer      \* (superseded: the last one wins)
                                           /\ o.new_regs[j].named = x.named /\ o.new_regs[j].status = 201

(*     in the two "registered" states the signer really is registered (C20): the aggregator holds, for the recording *)
(*     epoch of the signer's epoch data, the key of the initializer the signer has stored                            *)
RegisteredIsTruthful(o) ==
    \A i \in DOMAIN o.signers :
        LET s == o.signers[i] IN
        (s.up /\ s.state \in {"ReadyToSign", "RegisteredNotAbleToSign"}) =>
            LET r == s.data_epoch + 1 IN KeyAt(s.inits, r) # 0 /\ AggKey(o, r, s.node) = KeyAt(s.inits, r)

(* (b) every certificate verifies with its whole chain under the public client verifier; follows the client rule  *)
(*     explicitly (ValidChain of spec/cert/CertChain.tla: key and parameters of its same-epoch master, or the NEXT *)
(*     key and parameters committed by the master of the previous epoch); carries the key of the signer set         *)
(*     recorded for its epoch and the parameters kept for it, commits to those of the next epoch; names only        *)
(*     signers whose acceptable signature for that very beacon the aggregator took                                  *)
CX(o, id) == o.certx[CHOOSE i \in DOMAIN o.certx : o.certx[i].id = id]
HasCX(o, id) == \E i \in DOMAIN o.certx : o.certx[i].id = id
CertAt(o, id) == o.agg.certs[CHOOSE i \in DOMAIN o.agg.certs : o.agg.certs[i].id = id]
FirstOfEpoch(o, i) == \A j \in DOMAIN o.agg.certs : o.agg.certs[j].epoch = o.agg.certs[i].epoch => i <= j
LinkOk(c, cx, p, px) == \/ p.epoch = c.epoch     /\ px.avk = cx.avk  /\ px.pgen = cx.pgen
                        \/ p.epoch + 1 = c.epoch /\ px.navk = cx.avk /\ px.npar = cx.pgen
CertOk(o, i, tk) ==
    LET c == o.agg.certs[i] IN
    /\ c.verifies /\ HasCX(o, c.id)
    /\ c.kind = "std" =>
        LET cx == CX(o, c.id) IN
        /\ cx.msg_epoch = c.epoch
        /\ (c.epoch - 1) \in Range(cx.avk_rec) /\ c.epoch \in Range(cx.navk_rec)
        /\ cx.pgen # 0 /\ cx.pgen = cx.kept_gen /\ cx.npar # 0 /\ cx.npar = cx.kept_next_gen
        /\ Len(c.signers) >= 1
        /\ \A s \in Range(c.signers) : <<c.entity, s + 1>> \in tk
        /\ \E j \in DOMAIN o.agg.certs :
              /\ o.agg.certs[j].id = c.parent /\ j < i /\ FirstOfEpoch(o, j) /\ HasCX(o, c.parent)
              /\ LinkOk(c, cx, o.agg.certs[j], CX(o, c.parent))

ObsOk(o, tk) ==
    /\ \A i \in DOMAIN o.new_pubs : PubOk(o, o.new_pubs[i]) /\ PubHeld(o.new_pubs[i]) /\ OneValue(o.new_pubs[i])
    /\ \A i \in DOMAIN o.new_regs : RegOk(o, o.new_regs[i])
    /\ \A i \in DOMAIN o.agg.certs : CertOk(o, i, tk)
    /\ KeptDelivered(o)
    /\ RegisteredIsTruthful(o)

-----------------------------------------------------------------------------
TraceInit == l = 1 /\ taken = {} /\ kept = {} /\ sigmas = {}

Took(o)  == {<<o.new_pubs[i].entity, o.new_pubs[i].signer>> :
                i \in {j \in DOMAIN o.new_pubs : Acceptable(o.new_pubs[j]) /\ o.new_pubs[j].status \in {201, 202}}}
Kept(o)  == {<<o.new_pubs[i].entity, o.new_pubs[i].signer>> :
                i \in {j \in DOMAIN o.new_pubs : Acceptable(o.new_pubs[j]) /\ o.new_pubs[j].status = 202}}

TStart ==
    /\ IsEvent("Start")
    /\ taken' = {} /\ kept' = {} /\ sigmas' = {}
    /\ (E.obs.new_pubs = <<>> /\ \A i \in DOMAIN E.obs.agg.certs : E.obs.agg.certs[i].verifies) = TRUE

TObs ==
    /\ IsEvent("Obs")
    /\ taken' = taken \cup Took(E.obs)
    /\ kept' = kept \cup Kept(E.obs)
    /\ sigmas' = sigmas \cup {<<E.obs.new_pubs[i].signer, E.obs.new_pubs[i].entity, E.obs.new_pubs[i].sigma>> : i \in DOMAIN E.obs.new_pubs}
    \* (compared with TRUE so that TLC evaluates the clauses as one expression instead of enumerating the
    \*  witnesses of their quantifiers as separate successors)
    /\ ObsOk(E.obs, taken \cup Took(E.obs)) = TRUE

(* (d) bounded progress: with the core signers online and registering, the work of every epoch -- its Mithril      *)
(*     stake distribution certified (from the epoch after the genesis on) and the core signers registered for the  *)
(*     next epoch -- is done within the bounded number of undisturbed round-robin rounds the harness grants before  *)
(*     the chain turns, and in each of the fault-free epochs appended to every schedule                            *)
TProgress ==
    /\ IsEvent("Progress")
    /\ E.certified /\ E.registered
    /\ UNCHANGED <<taken, kept, sigmas>>

(* a listed known finding explains the event (KNOWN_FINDINGS.jsonl, property C20 / C14) *)
TKnown ==
    /\ l <= Len(Rec) /\ Rec[l].seq = l /\ l' = l + 1
    /\ KnownFor(E)
    /\ IF E.ev = "Obs"
       THEN /\ taken' = taken \cup Took(E.obs) /\ kept' = kept \cup Kept(E.obs)
            /\ sigmas' = sigmas \cup {<<E.obs.new_pubs[i].signer, E.obs.new_pubs[i].entity, E.obs.new_pubs[i].sigma>> : i \in DOMAIN E.obs.new_pubs}
       ELSE UNCHANGED <<taken, kept, sigmas>>

TraceNext == TStart \/ TObs \/ TProgress \/ TKnown
TraceSpec == TraceInit /\ [][TraceNext]_tvars

(* what to show of a rejected event: the work of the epoch that was not done, or the requests of the step with *)
(* the protocol's verdicts and the certificates                                                                *)
Detail(e) ==
    IF e.ev = "Progress"
    THEN [why |-> e.why, epoch |-> e.epoch, certified |-> e.certified, registered |-> e.registered, rounds |-> e.rounds,
          aggregator |-> e.agg_state, signers |-> e.signer_states]
    ELSE IF e.ev = "Obs"
    THEN [chain_epoch |-> e.obs.agg.epoch, agg_epoch |-> e.obs.agg_epoch, new_pubs |-> e.obs.new_pubs, new_regs |-> e.obs.new_regs,
          certs |-> [i \in DOMAIN e.obs.agg.certs |-> [entity |-> e.obs.agg.certs[i].entity, verifies |-> e.obs.agg.certs[i].verifies,
                                                       signers |-> e.obs.agg.certs[i].signers]]]
    ELSE [none |-> TRUE]

TraceAccepted ==
    LET d == TLCGet("stats").diameter - 1 IN
    /\ PrintT(<<"TRACE-RESULT",
                ToJson([matched |-> d, total |-> Len(Rec),
                        first_unmatched |-> IF d < Len(Rec)
                                            THEN [ev |-> Rec[d + 1].ev, seq |-> Rec[d + 1].seq,
                                                  action |-> IF "action" \in DOMAIN Rec[d + 1] THEN Rec[d + 1].action ELSE "none",
                                                  detail |-> Detail(Rec[d + 1])]
                                            ELSE [ev |-> "none", seq |-> 0, action |-> "none", detail |-> "none"]])>>)
    /\ d = Len(Rec)
=============================================================================
