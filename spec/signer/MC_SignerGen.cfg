CONSTANTS
    MaxEpoch = 7
    MaxImm = 3
    MaxRestarts = 3
    MaxFaults = 4
    MaxTurns = 1
    Others = {o1, o2}
    RecOff = 1
    RetBack = 1
    NextOff = 0
    RegParamsOff = 1
    MaxFlips = 4
    MarkFirst = FALSE
    SaveFirst = FALSE
    ExcuseTurn <- ExcuseFromEnv
    EpochRechecked <- RecheckFromEnv
    GenDepth = 110
SPECIFICATION SpecH
INVARIANTS TypeOK OneSignaturePerBeaconK EpochKeyK AcceptedK MarkedWasPublished RegisteredIsTruthful GenPrint
PROPERTIES NoPublishAfterMark NoEarlyPublishK
CHECK_DEADLOCK FALSE
