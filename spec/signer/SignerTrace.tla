----------------------------- MODULE SignerTrace -----------------------------
(***************************************************************************)
(* Contract trace spec for C20: accepts or rejects traces of the real      *)
(* signer runtime talking to the recording aggregator double.  After every *)
(* external stimulus the harness logs the whole abstract state:            *)
(*                                                                         *)
(*  obs = [state, state_epoch, data_epoch, epoch, imm,                     *)
(*         inits  = << [epoch, key, gen] >>  stored protocol initializers  *)
(*         params = << [epoch, gen] >>     the protocol parameter          *)
(*                      GENERATION the aggregator keeps per recording      *)
(*                      epoch (the parameters really differ)               *)
(*         stakes = << [epoch, of_previous_epoch] >>  (not constrained:   *)
(*                      how stake distributions are keyed is the signer's  *)
(*                      business; checks/c20.py reports a change as drift) *)
(*         signed = << [entity, ee, lost_every_lottery] >>                 *)
(*         regs   = << [epoch, key, others] >>  what the aggregator holds  *)
(*                      for the signer (LAST registration per epoch)       *)
(*         sigs   = << [n, entity, ee, sigma, party_is_signer,             *)
(*                      verifies_under, made_with_stored, msg_ok,          *)
(*                      chain_epoch, answered_ok] >>  every signature the  *)
(*                      aggregator received, in arrival order ]            *)
(*                                                                         *)
(*   ee               the epoch the signed beacon belongs to               *)
(*   key              small id of a verification key                       *)
(*   gen (inits)      the generation of the parameters embedded in the     *)
(*                    stored initializer = those its key signs with        *)
(*   sigma            small id of a signature value                        *)
(*   verifies_under   the recording epochs r such that a REAL MultiSigner  *)
(*                    built from exactly the registrations the aggregator  *)
(*                    holds for r, WITH THE PARAMETERS IT KEEPS FOR r,     *)
(*                    accepts the signature                                *)
(*   made_with_stored the recording epochs r such that re-signing with the *)
(*                    initializer the signer has STORED for r gives this   *)
(*                    very signature                                       *)
(*   msg_ok           the signed message is the one an aggregator computes *)
(*                    for that beacon from its own registrations and its   *)
(*                    own next protocol parameters                         *)
(*   data_epoch       the epoch of the signer's epoch-service data         *)
(*                                                                         *)
(* Protocol offsets: registrations of epoch e are recorded for e+1, the    *)
(* key / signer set / protocol parameters of a beacon of epoch e are those *)
(* recorded / kept for e-1, its message carries the parameters kept for e. *)
(* The contract states the property clauses on every observation and on    *)
(* every pair of consecutive observations; it does not require the steps   *)
(* to be transitions of the implementation-shaped Signer.tla.              *)
(***************************************************************************)
EXTENDS Integers, Sequences, FiniteSets, TLC, Json, IOUtils

Rec   == ndJsonDeserialize(IOEnv.TRACE)
Known == ndJsonDeserialize(IOEnv.KNOWN)

VARIABLES l, prev, lagging
\* lagging: epochs the signer entered "ready to sign" with the epoch data of an EARLIER epoch, because the chain
\*          epoch turned inside the registration cycle (used only to identify the listed known finding)
tvars == <<l, prev, lagging>>
E == Rec[l]
IsEvent(name) == l <= Len(Rec) /\ Rec[l].ev = name /\ Rec[l].seq = l /\ l' = l + 1

Range(s) == {s[i] : i \in DOMAIN s}

MatchesKnown(e, k) == \A f \in DOMAIN k.match : f \in DOMAIN e /\ e[f] = k.match[f]
KnownFor(e) == \E i \in DOMAIN Known :
                  /\ MatchesKnown(e, Known[i])
                  /\ PrintT(<<"KNOWN-USED", ToJson([id |-> Known[i].id, seq |-> l])>>)

KeyAt(rows, r) == IF \E i \in DOMAIN rows : rows[i].epoch = r
                  THEN rows[CHOOSE i \in DOMAIN rows : rows[i].epoch = r].key ELSE 0
GenAt(rows, r) == IF \E i \in DOMAIN rows : rows[i].epoch = r
                  THEN rows[CHOOSE i \in DOMAIN rows : rows[i].epoch = r].gen ELSE 0
InitKey(o, r) == KeyAt(o.inits, r)
RegKey(o, r)  == KeyAt(o.regs, r)

(* the listed known finding: signatures for an epoch entered with stale epoch data.  Whether it is listed is a    *)
(* constant; its use is reported once per event that brings such a signature (TObs).                             *)
TurnFinding == [ev |-> "Signature", cause |-> "epoch_turned_inside_registration_cycle", stale_epoch_data |-> TRUE]
TurnFindingListed == \E i \in DOMAIN Known : MatchesKnown(TurnFinding, Known[i])
Excused(s) == s.ee \in lagging /\ TurnFindingListed

-----------------------------------------------------------------------------
(* on one observation *)
(* (a) per beacon at most one distinct signature value is ever published *)
OneSignaturePerBeacon(o) ==
    \A i, j \in DOMAIN o.sigs :
        o.sigs[i].entity = o.sigs[j].entity =>
            o.sigs[i].sigma = o.sigs[j].sigma \/ Excused(o.sigs[i]) \/ Excused(o.sigs[j])

(* (b) made with the initializer stored for the retrieval epoch of the beacon's epoch, whose key is the one *)
(*     LAST registered with the aggregator for that recording epoch                                         *)
EpochKey(o, s) ==
    LET r == s.ee - 1 IN
    /\ InitKey(o, r) # 0 /\ InitKey(o, r) = RegKey(o, r)
    /\ r \in Range(s.made_with_stored)

(* (c) accepted by an aggregator that derives its signer set from the same registrations under the offsets *)
(*     and the protocol parameters it keeps for the signing epoch: the real verification, the explicit         *)
(*     comparison of the parameters embedded in the initializer that made the signature (clause b) with the    *)
(*     aggregator's, and the message recomputed on the aggregator's side                                       *)
Accepted(o, s) ==
    /\ s.party_is_signer /\ (s.ee - 1) \in Range(s.verifies_under) /\ s.msg_ok
    /\ GenAt(o.inits, s.ee - 1) # 0 /\ GenAt(o.inits, s.ee - 1) = GenAt(o.params, s.ee - 1)

(* (e) publish THEN mark: marked as signed only once the aggregator received a signature (unless the signer  *)
(*     had none to send: it won no lottery)                                                                  *)
MarkedWasPublished(o) ==
    \A b \in DOMAIN o.signed :
        \/ \E i \in DOMAIN o.sigs : o.sigs[i].entity = o.signed[b].entity
        \/ o.signed[b].lost_every_lottery

(* (f) register THEN save: in the two "registered" states the aggregator holds, for the recording epoch of the *)
(*     signer's epoch data, the key of the initializer the signer has stored                                   *)
RegisteredIsTruthful(o) ==
    o.state \in {"ReadyToSign", "RegisteredNotAbleToSign"} =>
        LET r == o.data_epoch + 1 IN InitKey(o, r) # 0 /\ RegKey(o, r) = InitKey(o, r)

ObsInv(o) ==
    /\ OneSignaturePerBeacon(o)
    /\ \A i \in DOMAIN o.sigs : (EpochKey(o, o.sigs[i]) /\ Accepted(o, o.sigs[i])) \/ Excused(o.sigs[i])
    /\ MarkedWasPublished(o)
    /\ RegisteredIsTruthful(o)

-----------------------------------------------------------------------------
(* on two consecutive observations p, o *)
New(p, o) == {i \in DOMAIN o.sigs : i > Len(p.sigs)}

AppendOnly(p, o) ==
    /\ Len(p.sigs) <= Len(o.sigs)
    /\ \A i \in DOMAIN p.sigs : o.sigs[i].sigma = p.sigs[i].sigma /\ o.sigs[i].entity = p.sigs[i].entity

(* (a) nothing is published for a beacon that was already marked as signed *)
NonePublishedAfterMark(p, o) ==
    \A i \in New(p, o) : ~\E b \in DOMAIN p.signed : p.signed[b].entity = o.sigs[i].entity

(* (d) no publication before an initializer eligible for the current epoch exists *)
NoEarlyPublish(p, o) ==
    \A i \in New(p, o) : InitKey(p, o.sigs[i].chain_epoch - 1) # 0 \/ Excused(o.sigs[i])

(* only the signer's own cycles publish *)
OnlyTicksPublish(e, p) == New(p, e.obs) # {} => e.action.a = "Tick"

StepOk(p, e) ==
    /\ AppendOnly(p, e.obs)
    /\ NonePublishedAfterMark(p, e.obs)
    /\ NoEarlyPublish(p, e.obs)
    /\ OnlyTicksPublish(e, p)

-----------------------------------------------------------------------------
TraceInit == l = 1 /\ prev = [none |-> TRUE] /\ lagging = {}

TStart ==
    /\ IsEvent("Start")
    /\ lagging' = {}
    /\ prev' = E.obs
    /\ LET saved == lagging IN E.obs.sigs = <<>> /\ E.obs.signed = <<>>

Turned(e) == e.action.a = "Tick" /\ "turn" \in DOMAIN e.action /\ e.action.turn
TObs ==
    /\ IsEvent("Obs")
    /\ lagging' = IF Turned(E) /\ E.obs.state = "ReadyToSign" /\ E.obs.data_epoch < E.obs.state_epoch
                  THEN lagging \cup {E.obs.state_epoch} ELSE lagging
    /\ prev' = E.obs
    \* (compared with TRUE so that TLC evaluates the clauses as one expression instead of enumerating the
    \*  witnesses of their quantifiers as separate successors)
    /\ (/\ StepOk(prev, E)
        /\ ObsInv(E.obs)
        /\ (\E i \in New(prev, E.obs) : ~(EpochKey(E.obs, E.obs.sigs[i]) /\ Accepted(E.obs, E.obs.sigs[i])))
               => KnownFor(TurnFinding)) = TRUE

(* (g) resumes correctly: after the fault-free epilogue the harness appends to every schedule (three epochs in   *)
(*     which the signer just runs), the aggregator has an acceptable signature for the last epoch                *)
TProgress ==
    /\ IsEvent("Progress")
    /\ E.signed_again
    /\ UNCHANGED <<prev, lagging>>

TraceNext == TStart \/ TObs \/ TProgress
TraceSpec == TraceInit /\ [][TraceNext]_tvars

TraceAccepted ==
    LET d == TLCGet("stats").diameter - 1 IN
    /\ PrintT(<<"TRACE-RESULT",
                ToJson([matched |-> d, total |-> Len(Rec),
                        first_unmatched |-> IF d < Len(Rec)
                                            THEN [ev |-> Rec[d + 1].ev, seq |-> Rec[d + 1].seq,
                                                  action |-> IF "action" \in DOMAIN Rec[d + 1] THEN Rec[d + 1].action ELSE "none"]
                                            ELSE [ev |-> "none", seq |-> 0, action |-> "none"]])>>)
    /\ d = Len(Rec)
=============================================================================
