------------------------------- MODULE Signer -------------------------------
(***************************************************************************)
(* The signer: state machine, key registration, signing, publication,      *)
(* restarts and aggregator faults (property C20).                          *)
(*                                                                         *)
(* Implementation-shaped model of                                          *)
(*   mithril-signer/src/runtime/state_machine.rs  (cycle_init /            *)
(*       cycle_unregistered / cycle_registered_not_able_to_sign /          *)
(*       cycle_ready_to_sign and the transition functions)                 *)
(*   mithril-signer/src/runtime/runner.rs                                  *)
(*       (update_stake_distribution, inform_epoch_settings,                *)
(*        register_signer_to_aggregator = register THEN save initializer,  *)
(*        can_sign_current_epoch)                                          *)
(*   mithril-signer/src/services/certifier.rs                              *)
(*       (first allowed beacon not yet signed; publish THEN mark signed)   *)
(*   mithril-signer/src/services/epoch_service.rs, single_signer.rs,       *)
(*       signable_builder/signable_seed_builder.rs (which stored           *)
(*       initializer / stake distribution each computation reads)          *)
(*   database/repository/protocol_initializer_repository.rs (insert or     *)
(*       IGNORE), signed_beacon_repository.rs                              *)
(* One action per persistence step; everything in sqlite survives Restart, *)
(* the state machine's state and the epoch service's data do not.          *)
(*                                                                         *)
(* Epoch offsets (mithril-common/src/entities/epoch.rs): a registration    *)
(* made during epoch e is RECORDED for e+1, the signers (and the signing   *)
(* key) of epoch e are those recorded for e-1, the next signers of epoch e *)
(* those recorded for e.  The code's offsets are constants of the model    *)
(* (RecOff, RetOff, NextOff); the aggregator and the property use the      *)
(* protocol's values +1 / -1 / 0.                                          *)
(*                                                                         *)
(* Protocol parameters change between epochs.  The aggregator keeps one    *)
(* configuration per recording epoch r (gen[r], a parameter GENERATION):   *)
(* single signatures of epoch e are verified with gen[e-1], the protocol   *)
(* message of epoch e carries the next parameters gen[e], and a key        *)
(* registered during e (recorded for e+1, signing in e+2) must embed       *)
(* gen[e+1].  Seen from epoch e the aggregator serves the three as the     *)
(* configurations for aggregation / next aggregation / registration.  The  *)
(* configuration the CODE takes its registration parameters from is the    *)
(* constant RegParamsOff (current code: +1 = "for registration").          *)
(***************************************************************************)
EXTENDS Integers, Sequences, FiniteSets, TLC

CONSTANTS
    MaxEpoch, MaxImm,
    MaxRestarts, MaxFaults, MaxTurns,
    MaxFlips,           \* how often the protocol parameters may change at an epoch boundary
    Others,             \* the other pool operators
    RecOff, RetBack, NextOff,   \* the offsets the signer code applies (current code: +1, -1 (RetBack = 1), +0)
    RegParamsOff,       \* the served configuration the code creates new keys with, as an offset to the epoch:
                        \* +1 = configuration for registration (current code), 0 = for the next aggregation
    EpochRechecked,     \* TRUE: the cycle is abandoned when the second read of the time point shows another epoch
                        \*       (proposed fix); FALSE: current code
    MarkFirst,          \* TRUE: beacon marked as signed before the publication (mutant); FALSE: current code
    SaveFirst           \* TRUE: initializer saved before the registration call (mutant); FALSE: current code

VARIABLES
    epoch, imm,         \* the chain (environment)
    \* ---- signer sqlite ----
    init,               \* init[r]   : id of the key stored for recording epoch r (0: none); insert or ignore
    igen,               \* igen[r]   : parameter generation embedded in that initializer (0: none)
    stakes,             \* stakes[r] : chain epoch whose stake distribution is stored for r (0: none)
    signed,             \* beacons marked as signed
    \* ---- aggregator ----
    reg,                \* reg[r]    : id of the signer's key LAST registered for recording epoch r (0: none)
    others,             \* others[r] : other operators registered for r
    gen,                \* gen[r]    : parameter generation of the configuration kept for recording epoch r (0: not yet)
    published,          \* signatures received: [entity, key, cur, msg, gen, ngen, at]
    \* ---- signer memory ----
    st,                 \* [state, epoch]   state in init / unreg / ready / nosign
    ed,                 \* epoch service data: [epoch, key, kgen, cur, rgen]  (epoch 0: not initialised)
    pc, pend,           \* progress inside a cycle
    \* ---- bookkeeping ----
    nextKey, cnt, lagged, last
vars == <<epoch, imm, init, igen, stakes, signed, reg, others, gen, published, st, ed, pc, pend, nextKey, cnt, lagged, last>>
view == <<epoch, imm, init, igen, stakes, signed, reg, others, gen, published, st, ed, pc, pend, nextKey, cnt, lagged>>

RetOff == 0 - RetBack
Rec == 0..(MaxEpoch + 2)
At(f, r) == IF r \in DOMAIN f THEN f[r] ELSE 0

MSD(e)    == <<"MSD", e>>
CDB(e, i) == <<"CDB", e, i>>
EE(en)    == en[2]              \* the epoch a beacon belongs to
NoPend    == [f |-> "none", agg |-> 0, curKey |-> 0, rgen |-> 0, te |-> 0, key |-> 0, entity |-> <<"none">>]
NoData    == [epoch |-> 0, key |-> 0, kgen |-> 0, cur |-> 0, rgen |-> 0]

Init ==
    /\ epoch = 1 /\ imm = 1
    /\ init = [r \in Rec |-> 0] /\ igen = [r \in Rec |-> 0] /\ stakes = [r \in Rec |-> 0] /\ signed = {}
    /\ reg = [r \in Rec |-> 0] /\ others = [r \in Rec |-> {}] /\ published = {}
    /\ gen = [r \in Rec |-> IF r <= 2 THEN 1 ELSE 0]        \* epoch 1 needs the configurations of 0, 1 and 2
    /\ st = [state |-> "init", epoch |-> 0] /\ ed = NoData
    /\ pc = "idle" /\ pend = NoPend
    /\ nextKey = 1 /\ cnt = [restarts |-> 0, faults |-> 0, turns |-> 0, flips |-> 0] /\ lagged = {}
    /\ last = [a |-> "Init"]

Fault(f) == IF f = "none" THEN cnt' = cnt ELSE cnt.faults < MaxFaults /\ cnt' = [cnt EXCEPT !.faults = @ + 1]

-----------------------------------------------------------------------------
(* environment *)
(* entering epoch e the aggregator creates the configuration for recording epoch e+1 (the parameters keys         *)
(* registered during e will sign with in e+2): the same as before, or -- operators' decision -- the other generation *)
EpochUp(flip) ==
    /\ pc \in {"idle", "fetched"} /\ epoch < MaxEpoch
    /\ pc = "fetched" => cnt.turns < MaxTurns
    /\ flip => cnt.flips < MaxFlips
    /\ epoch' = epoch + 1
    /\ gen' = [gen EXCEPT ![epoch + 2] = IF flip THEN 3 - gen[epoch + 1] ELSE gen[epoch + 1]]
    /\ cnt' = [cnt EXCEPT !.turns = IF pc = "fetched" THEN @ + 1 ELSE @, !.flips = IF flip THEN @ + 1 ELSE @]
    /\ last' = [a |-> "EpochUp", during |-> pc = "fetched", flip |-> flip]
    /\ UNCHANGED <<imm, init, igen, stakes, signed, reg, others, published, st, ed, pc, pend, nextKey, lagged>>

ImmUp ==
    /\ pc = "idle" /\ imm < MaxImm
    /\ imm' = imm + 1
    /\ last' = [a |-> "ImmUp"]
    /\ UNCHANGED <<epoch, init, igen, stakes, signed, reg, others, published, st, ed, pc, pend, nextKey, cnt, lagged, gen>>

(* other operators register during the current epoch: recorded for epoch + 1 *)
OthersRegister(S) ==
    /\ pc = "idle" /\ S # {} /\ others[epoch + 1] = {}
    /\ others' = [others EXCEPT ![epoch + 1] = S]
    /\ last' = [a |-> "Others", who |-> S]
    /\ UNCHANGED <<epoch, imm, init, igen, stakes, signed, reg, published, st, ed, pc, pend, nextKey, cnt, lagged, gen>>

-----------------------------------------------------------------------------
(* cycles that do not talk to the aggregator *)
TickInit ==
    /\ pc = "idle" /\ st.state = "init"
    /\ st' = [state |-> "unreg", epoch |-> epoch]
    /\ last' = [a |-> "Tick", fault |-> "none"]
    /\ UNCHANGED <<epoch, imm, init, igen, stakes, signed, reg, others, published, ed, pc, pend, nextKey, cnt, lagged, gen>>

TickEpochChanged ==
    /\ pc = "idle" /\ st.state \in {"unreg", "ready", "nosign"} /\ epoch > st.epoch
    /\ st' = [state |-> "unreg", epoch |-> epoch]
    /\ last' = [a |-> "Tick", fault |-> "none"]
    /\ UNCHANGED <<epoch, imm, init, igen, stakes, signed, reg, others, published, ed, pc, pend, nextKey, cnt, lagged, gen>>

TickNoSignWait ==
    /\ pc = "idle" /\ st.state = "nosign" /\ epoch = st.epoch
    /\ last' = [a |-> "Tick", fault |-> "none"]
    /\ UNCHANGED <<epoch, imm, init, igen, stakes, signed, reg, others, published, st, ed, pc, pend, nextKey, cnt, lagged, gen>>

-----------------------------------------------------------------------------
(* UNREGISTERED: epoch settings, then (stake distribution, epoch data), registration, initializer *)
TickUnregFetch(f) ==
    /\ pc = "idle" /\ st.state = "unreg" /\ epoch = st.epoch
    /\ f \in {"none", "unavailable", "stale", "closed", "reg_fail", "reg_half"}
    /\ Fault(f)
    /\ LET agg == IF f = "stale" THEN epoch - 1 ELSE epoch IN     \* the epoch of the aggregator's answer
       IF f = "unavailable" \/ ~(agg >= st.epoch)
       THEN UNCHANGED <<pc, pend>>                                 \* the cycle fails / waits, state kept
       ELSE /\ pc' = "fetched"
            \* current signers = those recorded for agg - 1 (the aggregator follows the protocol)
            \* and the network configuration: the code keeps, for new keys, the parameters of one of the three
            \* configurations served (asked for by the signer's own epoch)
            /\ pend' = [NoPend EXCEPT !.f = f, !.agg = agg, !.curKey = At(reg, agg - 1),
                                      !.rgen = At(gen, st.epoch + RegParamsOff)]
    /\ last' = [a |-> "Tick", fault |-> f]
    /\ UNCHANGED <<epoch, imm, init, igen, stakes, signed, reg, others, published, st, ed, nextKey, lagged, gen>>

(* the time point is read AGAIN (the chain may have moved since the epoch settings were fetched), *)
(* the stake distribution is stored, the epoch service is informed                                *)
SaveStakes ==
    /\ pc = "fetched"
    /\ IF EpochRechecked /\ epoch # st.epoch
       THEN pc' = "idle" /\ pend' = NoPend /\ UNCHANGED <<stakes, ed>>       \* the cycle fails, state kept
       ELSE /\ stakes' = IF At(stakes, epoch + RecOff) = 0 THEN [stakes EXCEPT ![epoch + RecOff] = epoch] ELSE stakes
            /\ ed' = [epoch |-> pend.agg, key |-> At(init, pend.agg + RetOff), kgen |-> At(igen, pend.agg + RetOff),
                      cur |-> pend.agg + RetOff, rgen |-> pend.rgen]
            /\ pc' = "staked" /\ pend' = [pend EXCEPT !.te = epoch]
    /\ last' = [a |-> "Internal", step |-> "stakes"]
    /\ UNCHANGED <<epoch, imm, init, igen, signed, reg, others, published, st, nextKey, cnt, lagged, gen>>

CanSign == ed.key # 0 /\ pend.curKey = ed.key      \* an initializer for the epoch, whose key is among the current signers
Finished ==     \* upkeep, can_sign_current_epoch, new state
    /\ st' = [state |-> IF CanSign THEN "ready" ELSE "nosign", epoch |-> pend.te]
    /\ lagged' = IF CanSign /\ pend.te # ed.epoch THEN lagged \cup {pend.te} ELSE lagged
    /\ pc' = "idle" /\ pend' = NoPend

RecEpoch == ed.epoch + RecOff       \* the recording epoch the signer registers for
Round    == epoch + 1               \* the aggregator's open round (protocol offset, aggregator's own epoch)

Register ==
    /\ pc = "staked"
    /\ IF At(stakes, RecEpoch) = 0
       THEN \* no stake distribution for that epoch: the cycle fails, state kept
            /\ pc' = "idle" /\ pend' = NoPend
            /\ UNCHANGED <<init, igen, reg, st, nextKey, lagged>>
       ELSE IF At(init, RecEpoch) # 0
       THEN \* already registered for that epoch: nothing sent
            /\ Finished /\ UNCHANGED <<init, igen, reg, nextKey>>
       ELSE /\ nextKey' = nextKey + 1
            /\ init' = IF SaveFirst THEN [init EXCEPT ![RecEpoch] = nextKey] ELSE init
            /\ igen' = IF SaveFirst THEN [igen EXCEPT ![RecEpoch] = ed.rgen] ELSE igen      \* (a key embeds its parameters)
            /\ IF pend.f = "closed"
               THEN /\ st' = [state |-> "unreg", epoch |-> pend.te]       \* 550: round not yet open
                    /\ pc' = "idle" /\ pend' = NoPend /\ UNCHANGED <<reg, lagged>>
               ELSE IF pend.f = "reg_fail" \/ RecEpoch # Round            \* (unexpected epoch: rejected)
               THEN /\ pc' = "idle" /\ pend' = NoPend /\ UNCHANGED <<reg, st, lagged>>
               ELSE /\ reg' = [reg EXCEPT ![Round] = nextKey]             \* recorded: the last one wins
                    /\ IF pend.f = "reg_half"
                       THEN pc' = "idle" /\ pend' = NoPend                \* ... but the answer is an error
                       ELSE pc' = "registered" /\ pend' = [pend EXCEPT !.key = nextKey]
                    /\ UNCHANGED <<st, lagged>>
    /\ last' = [a |-> "Internal", step |-> "register"]
    /\ UNCHANGED <<epoch, imm, stakes, signed, others, published, ed, cnt, gen>>

SaveInit ==
    /\ pc = "registered"
    /\ init' = IF At(init, RecEpoch) = 0 THEN [init EXCEPT ![RecEpoch] = pend.key] ELSE init
    /\ igen' = IF At(init, RecEpoch) = 0 THEN [igen EXCEPT ![RecEpoch] = ed.rgen] ELSE igen
    /\ Finished
    /\ last' = [a |-> "Internal", step |-> "save_init"]
    /\ UNCHANGED <<epoch, imm, stakes, signed, reg, others, published, ed, nextKey, cnt, gen>>

-----------------------------------------------------------------------------
(* READY TO SIGN *)
Candidates == <<MSD(epoch), CDB(epoch, imm)>>
Pick == IF Candidates[1] \notin signed THEN 1 ELSE IF Candidates[2] \notin signed THEN 2 ELSE 0

CanComputeMessage ==    \* next aggregate key: initializer + stake distribution of the next retrieval epoch
    At(init, ed.epoch + NextOff) # 0 /\ At(stakes, ed.epoch + NextOff) # 0
CanBuildSigner == At(stakes, ed.cur) # 0

\* signed with the parameters embedded in the epoch's initializer; the message carries, as next parameters, those
\* embedded in the initializer stored for the next retrieval epoch
Signature(en) == [entity |-> en, key |-> ed.key, cur |-> ed.cur, msg |-> ed.epoch,
                  gen |-> ed.kgen, ngen |-> At(igen, ed.epoch + NextOff), at |-> epoch]

TickReady(f) ==
    /\ pc = "idle" /\ st.state = "ready" /\ epoch = st.epoch
    /\ f \in {"none", "unavailable", "pub_fail", "pub_half"}
    /\ IF Pick = 0 \/ ~CanComputeMessage \/ ~CanBuildSigner
       THEN /\ f = "none" /\ UNCHANGED <<signed, published, pc, pend, cnt>>   \* nothing to sign / the cycle fails
       ELSE LET en == Candidates[Pick] IN
            /\ Fault(f)
            /\ IF f \in {"unavailable", "pub_fail"}
               THEN /\ UNCHANGED <<published, pc, pend>>
                    /\ signed' = IF MarkFirst THEN signed \cup {en} ELSE signed
               ELSE /\ published' = published \cup {Signature(en)}
                    /\ signed' = IF MarkFirst THEN signed \cup {en} ELSE signed
                    /\ IF f = "pub_half" THEN UNCHANGED <<pc, pend>>
                       ELSE pc' = "published" /\ pend' = [NoPend EXCEPT !.entity = en]
    /\ last' = [a |-> "Tick", fault |-> f]
    /\ UNCHANGED <<epoch, imm, init, igen, stakes, reg, others, st, ed, nextKey, lagged, gen>>

MarkSigned ==
    /\ pc = "published"
    /\ signed' = signed \cup {pend.entity}
    /\ pc' = "idle" /\ pend' = NoPend
    /\ last' = [a |-> "Internal", step |-> "mark"]
    /\ UNCHANGED <<epoch, imm, init, igen, stakes, reg, others, published, st, ed, nextKey, cnt, lagged, gen>>

-----------------------------------------------------------------------------
(* the process stops (between any two steps) and restarts: memory is lost, sqlite is kept *)
Restart ==
    /\ cnt.restarts < MaxRestarts
    /\ st' = [state |-> "init", epoch |-> 0] /\ ed' = NoData
    /\ pc' = "idle" /\ pend' = NoPend
    /\ cnt' = [cnt EXCEPT !.restarts = @ + 1]
    /\ last' = [a |-> "Restart", at |-> pc]
    /\ UNCHANGED <<epoch, imm, init, igen, stakes, signed, reg, others, published, nextKey, lagged, gen>>

UnregFaults == {"none", "unavailable", "stale", "closed", "reg_fail", "reg_half"}
ReadyFaults == {"none", "unavailable", "pub_fail", "pub_half"}
Tick == \/ TickInit \/ TickEpochChanged \/ TickNoSignWait
        \/ \E f \in UnregFaults : TickUnregFetch(f)
        \/ \E f \in ReadyFaults : TickReady(f)
Internal == SaveStakes \/ Register \/ SaveInit \/ MarkSigned
Env == (\E flip \in BOOLEAN : EpochUp(flip)) \/ ImmUp \/ (\E S \in SUBSET Others : OthersRegister(S)) \/ Restart
Next == Tick \/ Internal \/ Env
Spec == Init /\ [][Next]_vars

-----------------------------------------------------------------------------
(* The property clauses (protocol offsets: recorded for e+1, signing key of e recorded for e-1) *)
SigValue(p) == <<p.key, p.cur, p.msg, p.gen, p.ngen>>     \* what determines the signature value of a beacon

(* (a) per beacon at most one distinct signature value is ever published ... *)
OneSignaturePerBeacon == \A p, q \in published : p.entity = q.entity => SigValue(p) = SigValue(q)
(*     ... and none after the beacon was marked as signed *)
NoPublishAfterMark == [][\A p \in published' \ published : p.entity \notin signed]_vars

(* (b) made with the initializer stored for the retrieval epoch, which is the key LAST registered for it *)
EpochKeyFor(p) == LET r == EE(p.entity) - 1 IN p.key # 0 /\ p.key = At(init, r) /\ p.key = At(reg, r)
(* (c) accepted by an aggregator deriving its signer set from the same registrations: signed under the     *)
(*     signer set recorded for e-1 with the key registered there, over the message of epoch e              *)
(*     with the parameters the aggregator keeps for that epoch, the message carrying its next parameters    *)
AcceptedFor(p) == LET e == EE(p.entity) IN
    /\ p.cur = e - 1 /\ p.key = At(reg, e - 1) /\ p.key # 0 /\ p.msg = e
    /\ p.gen = At(gen, e - 1) /\ p.ngen = At(gen, e)
EpochKey == \A p \in published : EpochKeyFor(p)
Accepted == \A p \in published : AcceptedFor(p)

(* (d) no publication before an initializer eligible for the current epoch exists *)
NoEarlyPublish == [][\A p \in published' \ published : At(init, epoch - 1) # 0]_vars

(* (e) publish THEN mark: a beacon is marked as signed only once the aggregator received its signature *)
(*     (a failed publication is retried)                                                             *)
MarkedWasPublished == \A b \in signed : \E p \in published : p.entity = b

(* (f) register THEN save: in the two "registered" states the signer really is registered -- the    *)
(*     aggregator holds, for the recording epoch of the epoch data, the key of the stored initializer *)
RegisteredIsTruthful ==
    (pc = "idle" /\ st.state \in {"ready", "nosign"}) =>
        LET r == ed.epoch + 1 IN At(init, r) # 0 /\ At(reg, r) = At(init, r)

TypeOK == /\ st.state \in {"init", "unreg", "ready", "nosign"}
          /\ pc \in {"idle", "fetched", "staked", "registered", "published"}
=============================================================================
