------------------------------- MODULE Signer -------------------------------
(***************************************************************************)
(* The signer: state machine, key registration, signing, publication,      *)
(* restarts and aggregator faults (property C20).                          *)
(*                                                                         *)
(* Implementation-shaped model of                                          *)
(*   mithril-signer/src/runtime/state_machine.rs  (cycle_init /            *)
(*       cycle_unregistered / cycle_registered_not_able_to_sign /          *)
(*       cycle_ready_to_sign and the transition functions)                 *)
(*   mithril-signer/src/runtime/runner.rs                                  *)
(*       (update_stake_distribution, inform_epoch_settings,                *)
(*        register_signer_to_aggregator = register THEN save initializer,  *)
(*        can_sign_current_epoch)                                          *)
(*   mithril-signer/src/services/certifier.rs                              *)
(*       (first allowed beacon not yet signed; publish THEN mark signed)   *)
(*   mithril-signer/src/services/epoch_service.rs, single_signer.rs,       *)
(*       signable_builder/signable_seed_builder.rs (which stored           *)
(*       initializer / stake distribution each computation reads)          *)
(*   database/repository/protocol_initializer_repository.rs (insert or     *)
(*       IGNORE), signed_beacon_repository.rs                              *)
(* One action per persistence step; everything in sqlite survives Restart, *)
(* the state machine's state and the epoch service's data do not.          *)
(*                                                                         *)
(* Epoch offsets (mithril-common/src/entities/epoch.rs): a registration    *)
(* made during epoch e is RECORDED for e+1, the signers (and the signing   *)
(* key) of epoch e are those recorded for e-1, the next signers of epoch e *)
(* those recorded for e.  The code's offsets are constants of the model    *)
(* (RecOff, RetOff, NextOff); the aggregator and the property use the      *)
(* protocol's values +1 / -1 / 0.                                          *)
(***************************************************************************)
EXTENDS Integers, Sequences, FiniteSets, TLC

CONSTANTS
    MaxEpoch, MaxImm,
    MaxRestarts, MaxFaults, MaxTurns,
    Others,             \* the other pool operators
    RecOff, RetBack, NextOff,   \* the offsets the signer code applies (current code: +1, -1 (RetBack = 1), +0)
    EpochRechecked,     \* TRUE: the cycle is abandoned when the second read of the time point shows another epoch
                        \*       (proposed fix); FALSE: current code
    MarkFirst,          \* TRUE: beacon marked as signed before the publication (mutant); FALSE: current code
    SaveFirst           \* TRUE: initializer saved before the registration call (mutant); FALSE: current code

VARIABLES
    epoch, imm,         \* the chain (environment)
    \* ---- signer sqlite ----
    init,               \* init[r]   : id of the key stored for recording epoch r (0: none); insert or ignore
    stakes,             \* stakes[r] : chain epoch whose stake distribution is stored for r (0: none)
    signed,             \* beacons marked as signed
    \* ---- aggregator ----
    reg,                \* reg[r]    : id of the signer's key LAST registered for recording epoch r (0: none)
    others,             \* others[r] : other operators registered for r
    published,          \* signatures received: [entity, key, cur, msg, at]
    \* ---- signer memory ----
    st,                 \* [state, epoch]   state in init / unreg / ready / nosign
    ed,                 \* epoch service data: [epoch, key, cur]  (epoch 0: not initialised)
    pc, pend,           \* progress inside a cycle
    \* ---- bookkeeping ----
    nextKey, cnt, lagged, last
vars == <<epoch, imm, init, stakes, signed, reg, others, published, st, ed, pc, pend, nextKey, cnt, lagged, last>>
view == <<epoch, imm, init, stakes, signed, reg, others, published, st, ed, pc, pend, nextKey, cnt, lagged>>

RetOff == 0 - RetBack
Rec == 0..(MaxEpoch + 2)
At(f, r) == IF r \in DOMAIN f THEN f[r] ELSE 0

MSD(e)    == <<"MSD", e>>
CDB(e, i) == <<"CDB", e, i>>
EE(en)    == en[2]              \* the epoch a beacon belongs to
NoPend    == [f |-> "none", agg |-> 0, curKey |-> 0, te |-> 0, key |-> 0, entity |-> <<"none">>]
NoData    == [epoch |-> 0, key |-> 0, cur |-> 0]

Init ==
    /\ epoch = 1 /\ imm = 1
    /\ init = [r \in Rec |-> 0] /\ stakes = [r \in Rec |-> 0] /\ signed = {}
    /\ reg = [r \in Rec |-> 0] /\ others = [r \in Rec |-> {}] /\ published = {}
    /\ st = [state |-> "init", epoch |-> 0] /\ ed = NoData
    /\ pc = "idle" /\ pend = NoPend
    /\ nextKey = 1 /\ cnt = [restarts |-> 0, faults |-> 0, turns |-> 0] /\ lagged = {}
    /\ last = [a |-> "Init"]

Fault(f) == IF f = "none" THEN cnt' = cnt ELSE cnt.faults < MaxFaults /\ cnt' = [cnt EXCEPT !.faults = @ + 1]

-----------------------------------------------------------------------------
(* environment *)
EpochUp ==
    /\ pc \in {"idle", "fetched"} /\ epoch < MaxEpoch
    /\ pc = "fetched" => cnt.turns < MaxTurns
    /\ epoch' = epoch + 1
    /\ cnt' = IF pc = "fetched" THEN [cnt EXCEPT !.turns = @ + 1] ELSE cnt
    /\ last' = [a |-> "EpochUp", during |-> pc = "fetched"]
    /\ UNCHANGED <<imm, init, stakes, signed, reg, others, published, st, ed, pc, pend, nextKey, lagged>>

ImmUp ==
    /\ pc = "idle" /\ imm < MaxImm
    /\ imm' = imm + 1
    /\ last' = [a |-> "ImmUp"]
    /\ UNCHANGED <<epoch, init, stakes, signed, reg, others, published, st, ed, pc, pend, nextKey, cnt, lagged>>

(* other operators register during the current epoch: recorded for epoch + 1 *)
OthersRegister(S) ==
    /\ pc = "idle" /\ S # {} /\ others[epoch + 1] = {}
    /\ others' = [others EXCEPT ![epoch + 1] = S]
    /\ last' = [a |-> "Others", who |-> S]
    /\ UNCHANGED <<epoch, imm, init, stakes, signed, reg, published, st, ed, pc, pend, nextKey, cnt, lagged>>

-----------------------------------------------------------------------------
(* cycles that do not talk to the aggregator *)
TickInit ==
    /\ pc = "idle" /\ st.state = "init"
    /\ st' = [state |-> "unreg", epoch |-> epoch]
    /\ last' = [a |-> "Tick", fault |-> "none"]
    /\ UNCHANGED <<epoch, imm, init, stakes, signed, reg, others, published, ed, pc, pend, nextKey, cnt, lagged>>

TickEpochChanged ==
    /\ pc = "idle" /\ st.state \in {"unreg", "ready", "nosign"} /\ epoch > st.epoch
    /\ st' = [state |-> "unreg", epoch |-> epoch]
    /\ last' = [a |-> "Tick", fault |-> "none"]
    /\ UNCHANGED <<epoch, imm, init, stakes, signed, reg, others, published, ed, pc, pend, nextKey, cnt, lagged>>

TickNoSignWait ==
    /\ pc = "idle" /\ st.state = "nosign" /\ epoch = st.epoch
    /\ last' = [a |-> "Tick", fault |-> "none"]
    /\ UNCHANGED <<epoch, imm, init, stakes, signed, reg, others, published, st, ed, pc, pend, nextKey, cnt, lagged>>

-----------------------------------------------------------------------------
(* UNREGISTERED: epoch settings, then (stake distribution, epoch data), registration, initializer *)
TickUnregFetch(f) ==
    /\ pc = "idle" /\ st.state = "unreg" /\ epoch = st.epoch
    /\ f \in {"none", "unavailable", "stale", "closed", "reg_fail", "reg_half"}
    /\ Fault(f)
    /\ LET agg == IF f = "stale" THEN epoch - 1 ELSE epoch IN     \* the epoch of the aggregator's answer
       IF f = "unavailable" \/ ~(agg >= st.epoch)
       THEN UNCHANGED <<pc, pend>>                                 \* the cycle fails / waits, state kept
       ELSE /\ pc' = "fetched"
            \* current signers = those recorded for agg - 1 (the aggregator follows the protocol)
            /\ pend' = [NoPend EXCEPT !.f = f, !.agg = agg, !.curKey = At(reg, agg - 1)]
    /\ last' = [a |-> "Tick", fault |-> f]
    /\ UNCHANGED <<epoch, imm, init, stakes, signed, reg, others, published, st, ed, nextKey, lagged>>

(* the time point is read AGAIN (the chain may have moved since the epoch settings were fetched), *)
(* the stake distribution is stored, the epoch service is informed                                *)
SaveStakes ==
    /\ pc = "fetched"
    /\ IF EpochRechecked /\ epoch # st.epoch
       THEN pc' = "idle" /\ pend' = NoPend /\ UNCHANGED <<stakes, ed>>       \* the cycle fails, state kept
       ELSE /\ stakes' = IF At(stakes, epoch + RecOff) = 0 THEN [stakes EXCEPT ![epoch + RecOff] = epoch] ELSE stakes
            /\ ed' = [epoch |-> pend.agg, key |-> At(init, pend.agg + RetOff), cur |-> pend.agg + RetOff]
            /\ pc' = "staked" /\ pend' = [pend EXCEPT !.te = epoch]
    /\ last' = [a |-> "Internal", step |-> "stakes"]
    /\ UNCHANGED <<epoch, imm, init, signed, reg, others, published, st, nextKey, cnt, lagged>>

CanSign == ed.key # 0 /\ pend.curKey = ed.key      \* an initializer for the epoch, whose key is among the current signers
Finished ==     \* upkeep, can_sign_current_epoch, new state
    /\ st' = [state |-> IF CanSign THEN "ready" ELSE "nosign", epoch |-> pend.te]
    /\ lagged' = IF CanSign /\ pend.te # ed.epoch THEN lagged \cup {pend.te} ELSE lagged
    /\ pc' = "idle" /\ pend' = NoPend

RecEpoch == ed.epoch + RecOff       \* the recording epoch the signer registers for
Round    == epoch + 1               \* the aggregator's open round (protocol offset, aggregator's own epoch)

Register ==
    /\ pc = "staked"
    /\ IF At(stakes, RecEpoch) = 0
       THEN \* no stake distribution for that epoch: the cycle fails, state kept
            /\ pc' = "idle" /\ pend' = NoPend
            /\ UNCHANGED <<init, reg, st, nextKey, lagged>>
       ELSE IF At(init, RecEpoch) # 0
       THEN \* already registered for that epoch: nothing sent
            /\ Finished /\ UNCHANGED <<init, reg, nextKey>>
       ELSE /\ nextKey' = nextKey + 1
            /\ init' = IF SaveFirst THEN [init EXCEPT ![RecEpoch] = nextKey] ELSE init
            /\ IF pend.f = "closed"
               THEN /\ st' = [state |-> "unreg", epoch |-> pend.te]       \* 550: round not yet open
                    /\ pc' = "idle" /\ pend' = NoPend /\ UNCHANGED <<reg, lagged>>
               ELSE IF pend.f = "reg_fail" \/ RecEpoch # Round            \* (unexpected epoch: rejected)
               THEN /\ pc' = "idle" /\ pend' = NoPend /\ UNCHANGED <<reg, st, lagged>>
               ELSE /\ reg' = [reg EXCEPT ![Round] = nextKey]             \* recorded: the last one wins
                    /\ IF pend.f = "reg_half"
                       THEN pc' = "idle" /\ pend' = NoPend                \* ... but the answer is an error
                       ELSE pc' = "registered" /\ pend' = [pend EXCEPT !.key = nextKey]
                    /\ UNCHANGED <<st, lagged>>
    /\ last' = [a |-> "Internal", step |-> "register"]
    /\ UNCHANGED <<epoch, imm, stakes, signed, others, published, ed, cnt>>

SaveInit ==
    /\ pc = "registered"
    /\ init' = IF At(init, RecEpoch) = 0 THEN [init EXCEPT ![RecEpoch] = pend.key] ELSE init
    /\ Finished
    /\ last' = [a |-> "Internal", step |-> "save_init"]
    /\ UNCHANGED <<epoch, imm, stakes, signed, reg, others, published, ed, nextKey, cnt>>

-----------------------------------------------------------------------------
(* READY TO SIGN *)
Candidates == <<MSD(epoch), CDB(epoch, imm)>>
Pick == IF Candidates[1] \notin signed THEN 1 ELSE IF Candidates[2] \notin signed THEN 2 ELSE 0

CanComputeMessage ==    \* next aggregate key: initializer + stake distribution of the next retrieval epoch
    At(init, ed.epoch + NextOff) # 0 /\ At(stakes, ed.epoch + NextOff) # 0
CanBuildSigner == At(stakes, ed.cur) # 0

Signature(en) == [entity |-> en, key |-> ed.key, cur |-> ed.cur, msg |-> ed.epoch, at |-> epoch]

TickReady(f) ==
    /\ pc = "idle" /\ st.state = "ready" /\ epoch = st.epoch
    /\ f \in {"none", "unavailable", "pub_fail", "pub_half"}
    /\ IF Pick = 0 \/ ~CanComputeMessage \/ ~CanBuildSigner
       THEN /\ f = "none" /\ UNCHANGED <<signed, published, pc, pend, cnt>>   \* nothing to sign / the cycle fails
       ELSE LET en == Candidates[Pick] IN
            /\ Fault(f)
            /\ IF f \in {"unavailable", "pub_fail"}
               THEN /\ UNCHANGED <<published, pc, pend>>
                    /\ signed' = IF MarkFirst THEN signed \cup {en} ELSE signed
               ELSE /\ published' = published \cup {Signature(en)}
                    /\ signed' = IF MarkFirst THEN signed \cup {en} ELSE signed
                    /\ IF f = "pub_half" THEN UNCHANGED <<pc, pend>>
                       ELSE pc' = "published" /\ pend' = [NoPend EXCEPT !.entity = en]
    /\ last' = [a |-> "Tick", fault |-> f]
    /\ UNCHANGED <<epoch, imm, init, stakes, reg, others, st, ed, nextKey, lagged>>

MarkSigned ==
    /\ pc = "published"
    /\ signed' = signed \cup {pend.entity}
    /\ pc' = "idle" /\ pend' = NoPend
    /\ last' = [a |-> "Internal", step |-> "mark"]
    /\ UNCHANGED <<epoch, imm, init, stakes, reg, others, published, st, ed, nextKey, cnt, lagged>>

-----------------------------------------------------------------------------
(* the process stops (between any two steps) and restarts: memory is lost, sqlite is kept *)
Restart ==
    /\ cnt.restarts < MaxRestarts
    /\ st' = [state |-> "init", epoch |-> 0] /\ ed' = NoData
    /\ pc' = "idle" /\ pend' = NoPend
    /\ cnt' = [cnt EXCEPT !.restarts = @ + 1]
    /\ last' = [a |-> "Restart", at |-> pc]
    /\ UNCHANGED <<epoch, imm, init, stakes, signed, reg, others, published, nextKey, lagged>>

UnregFaults == {"none", "unavailable", "stale", "closed", "reg_fail", "reg_half"}
ReadyFaults == {"none", "unavailable", "pub_fail", "pub_half"}
Tick == \/ TickInit \/ TickEpochChanged \/ TickNoSignWait
        \/ \E f \in UnregFaults : TickUnregFetch(f)
        \/ \E f \in ReadyFaults : TickReady(f)
Internal == SaveStakes \/ Register \/ SaveInit \/ MarkSigned
Env == EpochUp \/ ImmUp \/ (\E S \in SUBSET Others : OthersRegister(S)) \/ Restart
Next == Tick \/ Internal \/ Env
Spec == Init /\ [][Next]_vars

-----------------------------------------------------------------------------
(* The property clauses (protocol offsets: recorded for e+1, signing key of e recorded for e-1) *)
SigValue(p) == <<p.key, p.cur, p.msg>>     \* what determines the signature value of a beacon

(* (a) per beacon at most one distinct signature value is ever published ... *)
OneSignaturePerBeacon == \A p, q \in published : p.entity = q.entity => SigValue(p) = SigValue(q)
(*     ... and none after the beacon was marked as signed *)
NoPublishAfterMark == [][\A p \in published' \ published : p.entity \notin signed]_vars

(* (b) made with the initializer stored for the retrieval epoch, which is the key LAST registered for it *)
EpochKeyFor(p) == LET r == EE(p.entity) - 1 IN p.key # 0 /\ p.key = At(init, r) /\ p.key = At(reg, r)
(* (c) accepted by an aggregator deriving its signer set from the same registrations: signed under the     *)
(*     signer set recorded for e-1 with the key registered there, over the message of epoch e              *)
AcceptedFor(p) == LET e == EE(p.entity) IN p.cur = e - 1 /\ p.key = At(reg, e - 1) /\ p.key # 0 /\ p.msg = e
EpochKey == \A p \in published : EpochKeyFor(p)
Accepted == \A p \in published : AcceptedFor(p)

(* (d) no publication before an initializer eligible for the current epoch exists *)
NoEarlyPublish == [][\A p \in published' \ published : At(init, epoch - 1) # 0]_vars

(* (e) publish THEN mark: a beacon is marked as signed only once the aggregator received its signature *)
(*     (a failed publication is retried)                                                             *)
MarkedWasPublished == \A b \in signed : \E p \in published : p.entity = b

(* (f) register THEN save: in the two "registered" states the signer really is registered -- the    *)
(*     aggregator holds, for the recording epoch of the epoch data, the key of the stored initializer *)
RegisteredIsTruthful ==
    (pc = "idle" /\ st.state \in {"ready", "nosign"}) =>
        LET r == ed.epoch + 1 IN At(init, r) # 0 /\ At(reg, r) = At(init, r)

TypeOK == /\ st.state \in {"init", "unreg", "ready", "nosign"}
          /\ pc \in {"idle", "fetched", "staked", "registered", "published"}
=============================================================================
