CONSTANTS
    MaxEpoch = 5
    MaxImm = 2
    MaxRestarts = 2
    MaxFaults = 2
    MaxTurns = 1
    Others = {}
    RecOff = 1
    RetBack = 1
    NextOff = 0
    RegParamsOff = 1
    MaxFlips = 2
    MarkFirst = FALSE
    SaveFirst = FALSE
    ExcuseTurn <- ExcuseFromEnv
    EpochRechecked <- RecheckFromEnv
SPECIFICATION Spec
VIEW view
INVARIANTS TypeOK OneSignaturePerBeaconK EpochKeyK AcceptedK MarkedWasPublished RegisteredIsTruthful
PROPERTIES NoPublishAfterMark NoEarlyPublishK
CHECK_DEADLOCK FALSE
