---------------------------- MODULE MC_SignerGen ----------------------------
EXTENDS MC_Signer

(* GEN: simulation with a history of the actions taken; one schedule per behaviour, printed with the     *)
(* final abstract state the implementation-shaped model predicts.  Same actions as Signer.tla, with an   *)
(* environment paced so that behaviours are productive: the epoch usually advances when the signer has   *)
(* nothing left to do, each round gets at most one registration of the other operators, faults, restarts *)
(* (at any step of a cycle) and epoch turns inside a cycle are rationed by the constants.                *)
VARIABLES hist, done, early
CONSTANT GenDepth

NothingToDo == pc = "idle" /\ epoch = st.epoch /\
                  ((st.state = "ready" /\ (Pick = 0 \/ ~CanComputeMessage \/ ~CanBuildSigner)) \/ st.state = "nosign")
AnyEpochUp == \E flip \in BOOLEAN : EpochUp(flip)     \* (the parameters change at about every other boundary, up to MaxFlips)
GenEnv ==
    \/ NothingToDo /\ AnyEpochUp /\ UNCHANGED early
    \/ pc = "idle" /\ ~NothingToDo /\ early < 1 /\ epoch >= 3 /\ Len(hist) % 4 = 2 /\ AnyEpochUp /\ early' = early + 1     \* an epoch the signer partly misses
    \/ pc = "fetched" /\ epoch >= 3 /\ Len(hist) % 5 = 1 /\ AnyEpochUp /\ UNCHANGED early                                  \* the epoch turns inside a cycle
    \/ st.state = "ready" /\ epoch = st.epoch /\ Pick = 0 /\ ImmUp /\ UNCHANGED early
    \/ (\E S \in SUBSET Others : OthersRegister(S)) /\ UNCHANGED early
    \/ cnt.restarts < epoch - 1 /\ Len(hist) % 7 = 4 /\ Restart /\ UNCHANGED early
\* (simulation picks uniformly among the successors: faults are only offered at every fifth step)
GenNext == ((Tick \/ Internal) /\ (cnt' # cnt => Len(hist) % 5 = 0) /\ UNCHANGED early) \/ GenEnv
SpecH == /\ Init /\ hist = <<>> /\ done = FALSE /\ early = 0
         /\ [][~done /\ GenNext /\ hist' = Append(hist, last') /\ done' = (Len(hist') >= GenDepth /\ pc' = "idle")]_<<vars, hist, done, early>>

RecWith(f) == {r \in Rec : f[r] # 0}
GenPrint == done => PrintT(<<"SCHED", ToJson([steps |-> hist,
                expect |-> [state |-> st.state, state_epoch |-> st.epoch, data_epoch |-> ed.epoch, epoch |-> epoch, imm |-> imm,
                            signed |-> signed, published |-> {p.entity : p \in published},
                            inits |-> RecWith(init), init_gens |-> {<<r, igen[r]>> : r \in RecWith(init)},
                            agg_gens |-> {<<r, gen[r]>> : r \in RecWith(gen)}, regs |-> RecWith(reg), stakes |-> RecWith(stakes), lagged |-> lagged]])>>)
=============================================================================
