------------------------------ MODULE MC_Signer ------------------------------
EXTENDS Signer, Json, IOUtils

(* invariants with the listed known deviation excused (KNOWN_FINDINGS.jsonl):                        *)
(*  C20-epoch-turn-during-registration-cycle : signatures for an epoch the signer entered with the    *)
(*  epoch data of the previous one (the chain epoch turned between the epoch settings and the second *)
(*  read of the time point, and nothing had to be registered)                                        *)
CONSTANT ExcuseTurn
(* the model describes the current code as long as the finding is listed as known: checks/c20.py sets C20_RECHECK=1 *)
(* once it is no longer listed (fix applied), which also withdraws the excuse                                       *)
RecheckFromEnv == "C20_RECHECK" \in DOMAIN IOEnv /\ IOEnv.C20_RECHECK = "1"
ExcuseFromEnv  == ~RecheckFromEnv
Lag(p) == ExcuseTurn /\ EE(p.entity) \in lagged
OneSignaturePerBeaconK ==
    \A p, q \in published : p.entity = q.entity => (SigValue(p) = SigValue(q) \/ Lag(p))
EpochKeyK == \A p \in published : EpochKeyFor(p) \/ Lag(p)
AcceptedK == \A p \in published : AcceptedFor(p) \/ Lag(p)
NoEarlyPublishK == [][\A p \in published' \ published : At(init, epoch - 1) # 0 \/ Lag(p)]_vars
=============================================================================
