CONSTANTS
    n1 = n1
    n2 = n2
    Nodes = {n1, n2}
    MaxNum = 0
    MaxCid = 1
    MaxSteps = 3
    Mode = "live"
    InstanceMemory = TRUE
    FindPrefersDirectChild = FALSE
    ExcuseDecoy = TRUE
SPECIFICATION Spec
INVARIANTS Sensitive
CHECK_DEADLOCK FALSE
