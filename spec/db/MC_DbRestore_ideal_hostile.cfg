CONSTANTS
    MaxN = 2
    Universe = "hostile"
    UnpackStaged = TRUE
    ManifestHashInjective = TRUE
    ExcuseImmArchive = FALSE
    ExcuseMerged = FALSE
SPECIFICATION Spec
INVARIANTS OnlyAllowed RefusalTouchesNothing
CHECK_DEADLOCK FALSE
