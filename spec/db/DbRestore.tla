------------------------------ MODULE DbRestore ------------------------------
(***************************************************************************)
(* C19 -- only verified immutables and manifest-vouched ancillary files    *)
(* get restored.                                                           *)
(*                                                                         *)
(* Implementation-shaped model of                                          *)
(*   mithril-client/src/cardano_database_client/download_unpack/           *)
(*     internal_downloader.rs  InternalArtifactDownloader::download_unpack *)
(*                             (batch_download_unpack with                 *)
(*                              max_parallel_downloads = 1: tasks run in   *)
(*                              order, immutables lo..hi then ancillary)   *)
(*     download_task.rs        DownloadTask::build_download_future,        *)
(*                             download_unpack_verify_ancillary            *)
(*     download_unpack_options.rs  verify_compatibility,                   *)
(*                             verify_can_write_to_target_directory        *)
(*   mithril-client/src/utils/unexpected_downloaded_file_verifier.rs       *)
(*   mithril-client/src/utils/ancillary_verifier.rs  verify,               *)
(*                             move_to_final_location                      *)
(*   mithril-client/src/utils/bootstrap_files.rs                           *)
(*   mithril-client/src/file_downloader/http.rs  (tar unpack)              *)
(*   .../entities/ancillary_files_manifest.rs  verify_data, compute_hash   *)
(*                                                                         *)
(* A path is a record [cls, num, ext]:                                     *)
(*   imm      immutable/<num:05>.<ext>          immjunk  immutable/junk.txt*)
(*   immsub   immutable/sub/00000.chunk         immuser  immutable/user.txt*)
(*   ledger   ledger/<num>                      volatile volatile/blocks-0.dat*)
(*   clean, magic   the bootstrap markers  clean, protocolMagicId          *)
(*   rootfile evil.sh     nested x/y/z.bin      decoy zzz/immutable/00000.chunk*)
(*   manifest ancillary_manifest.json           userfile notes.txt         *)
(*   merged   ledger/<num><hash>volatile/blocks-0.dat  (see "merged")      *)
(*   occupied ledger/1/occupied  (held before: ledger/1 is a directory)    *)
(*   dotdot   ../escape.txt   abs  /abs-escape/evil.txt  (archive entries; *)
(*            tar skips the first and strips the leading / of the second)  *)
(*   symlink  lnk -> <outside the target>, followed by lnk/evil.txt, at    *)
(*            the end of the archive (tar creates the link and then fails) *)
(* The target directory is a function  path -> source  of the bytes now at *)
(* that path, a record [k, i]:  Pre (held before), Client (written by the  *)
(* client itself), Anc (genuine ancillary content, i.e. the content the    *)
(* signed manifest vouches for), AncX (any other content from the          *)
(* ancillary archive), FromImm(i) (from the archive served for immutable i)*)
(***************************************************************************)
EXTENDS CardanoDb

CONSTANTS
    UnpackStaged,          \* FALSE: immutable archives unpacked straight into the target (the code);
                           \* TRUE : idealised fix (only the archive's own trio is taken over)
    ListedMustBeRegular,   \* FALSE: verify_data reads through whatever sits at a listed path (the code);
                           \* TRUE : proposed fix
    ManifestHashInjective  \* FALSE: AncillaryFilesManifest::compute_hash concatenates keys and
                           \*        values without separators (the code); TRUE: idealised fix

P(cls, num, ext) == [cls |-> cls, num |-> num, ext |-> ext]
Imm(n, e)  == P("imm", n, e)
TrioP(n)   == {Imm(n, e) : e \in ImmExt}
Ledger(k)  == P("ledger", k, "")
Volatile   == P("volatile", 0, "")
Clean      == P("clean", 0, "")
Magic      == P("magic", 0, "")
Merged     == P("merged", 1, "")
Occupied   == P("occupied", 1, "")          \* ledger/1/occupied: makes ledger/1 a directory

Pre        == [k |-> "pre", i |-> -1]
Client     == [k |-> "client", i |-> -1]
Anc        == [k |-> "anc", i |-> -1]
AncX       == [k |-> "ancx", i |-> -1]
AncLink    == [k |-> "anclink", i |-> -1]   \* a symbolic link the ancillary archive held at a listed path
FromImm(i) == [k |-> "imm", i |-> i]

InImmDir(p) == p.cls \in {"imm", "immjunk", "immsub", "immuser"}
Escaping(p) == p.cls \in {"dotdot"}           \* tar refuses entries with `..`

(* what the honest ancillary archive holds besides the manifest, and the manifest lists *)
Genuine(N) == TrioP(N + 1) \cup {Ledger(1), Volatile}

(***************************************************************************)
(* A case                                                                  *)
(*  N lo hi anc override net("known"|"unknown")                            *)
(*  pre      set of paths held before                                      *)
(*  arch     i \in lo..hi |-> [status ("ok"|"missing"|"corrupt"),          *)
(*                             extra (set of paths besides trio i)]        *)
(*  ancArch  [status ("ok"|"missing"), manifest (variant), extra, at]      *)
(*           at: what the archive holds at the manifest-listed path        *)
(*           ledger/1: "file" the regular file | "dir" a directory with    *)
(*           unlisted children | "link_in_same" / "link_in_other" a        *)
(*           symbolic link to a file of the archive with the vouched /     *)
(*           another content | "link_out_same" a symbolic link to a file   *)
(*           outside the unpack directory with the vouched content         *)
(*  conflict the target holds a directory where the vouched ledger file    *)
(*           has to go (Occupied \in pre)                                  *)
(* Manifest variants: what the mirror serves relative to the genuine,      *)
(* signed manifest + files                                                 *)
(*  ok  unlisted(only extra unlisted entries)  contentChanged  entryAdded  *)
(*  entryRemoved  sigAltered  sigMissing  sigOtherKey  manifestMissing     *)
(*  manifestGarbage  listedFileMissing  merged                             *)
(***************************************************************************)
ManifestVariants == {"ok", "contentChanged", "entryAdded", "entryRemoved", "sigAltered", "sigMissing",
                     "sigOtherKey", "manifestMissing", "manifestGarbage", "listedFileMissing", "merged"}

(* AncillaryVerifier::verify on the unpacked archive *)
EntryKinds == {"file", "dir", "link_in_same", "link_in_other", "link_out_same"}

(* AncillaryVerifier::verify on the unpacked archive.  verify_data hashes what it reads     *)
(* under each listed path: through a symbolic link (tokio::fs::File::open follows links),  *)
(* and fails on a directory (unless ListedMustBeRegular: proposed fix, anything but a      *)
(* regular file under a listed path is refused)                                            *)
ReadsVouched(at) == IF ListedMustBeRegular THEN at = "file"
                    ELSE at \in {"file", "link_in_same", "link_out_same"}
VerifyOk(a) == /\ \/ a.manifest = "ok"
                  \/ a.manifest = "merged" /\ ~ManifestHashInjective
               /\ ReadsVouched(a.at)
(* the files a successfully verified manifest lists (= what move_to_final_location moves) *)
Listed(v, N) == IF v = "merged" THEN TrioP(N + 1) \cup {Merged} ELSE Genuine(N)
(* what the rename of a listed path brings into the target: the genuine bytes (the merged  *)
(* entry carries the genuine bytes of the volatile file, under another path) or, when the  *)
(* archive holds a symbolic link there, the link itself                                    *)
AncSrc(a, p) == IF p = Ledger(1) /\ a.at # "file" THEN AncLink ELSE Anc

VARIABLES kase, target, pc, task, result, expected
rvars == <<kase, target, pc, task, result, expected>>

Overwrite(f, S, src) == [p \in DOMAIN f \cup S |-> IF p \in S THEN src ELSE f[p]]
Without(f, S)        == [p \in DOMAIN f \ S |-> f[p]]

(* the entry of <target>/immutable a path lives in / is *)
ImmEntry(p) == p

-----------------------------------------------------------------------------
(* The code, step by step.                                                  *)

(* verify_compatibility, verify_can_write_to_target_directory,              *)
(* compute_expected_state_after_download                                    *)
Start ==
    /\ pc = "start"
    /\ LET refused ==
             \/ kase.anc /\ kase.hi # kase.N
             \/ ~kase.override /\ \E p \in kase.pre : InImmDir(p)
             \/ ~kase.override /\ kase.anc /\ \E p \in kase.pre : p.cls \in {"ledger", "volatile"}
       IN IF refused
          THEN pc' = "done" /\ result' = "refused" /\ UNCHANGED <<expected, task>>
          ELSE /\ pc' = "immutables" /\ task' = kase.lo /\ UNCHANGED result
               /\ expected' = {ImmEntry(p) : p \in {q \in kase.pre : InImmDir(q)}}
                              \cup UNION {TrioP(n) : n \in 0..(IF kase.anc THEN kase.N + 1 ELSE kase.N)}
    /\ UNCHANGED <<kase, target>>

(* one immutable download task: the archive is unpacked into the target directory *)
UnpackImmutable ==
    /\ pc = "immutables" /\ task <= kase.hi
    /\ LET a == kase.arch[task]
           entries == IF UnpackStaged THEN TrioP(task)
                      ELSE {p \in TrioP(task) \cup a.extra : ~Escaping(p)}
           linkFails == ~UnpackStaged /\ P("symlink", 0, "") \in a.extra
       IN
       IF a.status # "ok"
       THEN /\ result' = "err" /\ pc' = "cleanup" /\ UNCHANGED <<target, task>>
       ELSE /\ target' = Overwrite(target, entries, FromImm(task))
            /\ IF linkFails      \* the entry behind the link is refused: the task fails
               THEN result' = "err" /\ pc' = "cleanup" /\ UNCHANGED task
               ELSE task' = task + 1 /\ UNCHANGED <<result, pc>>
    /\ UNCHANGED <<kase, expected>>

ImmutablesDone ==
    /\ pc = "immutables" /\ task > kase.hi
    /\ pc' = IF kase.anc THEN "ancillary" ELSE "cleanup"
    /\ UNCHANGED <<kase, target, task, result, expected>>

(* the ancillary task: unpack into <target>/ancillary-<id>, verify, move the listed files, *)
(* remove the temporary directory                                                          *)
Ancillary ==
    /\ pc = "ancillary"
    /\ LET a == kase.ancArch IN
       IF a.status # "ok" \/ ~VerifyOk(a)
       THEN /\ result' = "err" /\ UNCHANGED target
       ELSE IF kase.conflict
            THEN \* the two passes of move_to_final_location: files are renamed in manifest order,
                 \* the rename onto a directory fails, what was moved before stays
                 /\ target' = Overwrite(target, TrioP(kase.N + 1), Anc)
                 /\ result' = "err"
            ELSE /\ target' = [p \in DOMAIN target \cup Listed(a.manifest, kase.N) |->
                                  IF p \in Listed(a.manifest, kase.N) THEN AncSrc(a, p) ELSE target[p]]
                 /\ UNCHANGED result
    /\ pc' = "cleanup"
    /\ UNCHANGED <<kase, task, expected>>

(* remove_unexpected_files: entries of <target>/immutable that are not expected; then, only *)
(* if every task succeeded, create_bootstrap_node_files                                     *)
Cleanup ==
    /\ pc = "cleanup"
    /\ LET kept == Without(target, {p \in DOMAIN target : InImmDir(p) /\ ImmEntry(p) \notin expected}) IN
       IF result = "err"
       THEN target' = kept /\ UNCHANGED result
       ELSE /\ target' = Overwrite(kept, IF kase.net = "known" THEN {Clean, Magic} ELSE {Clean}, Client)
            /\ result' = "ok"
    /\ pc' = "done"
    /\ UNCHANGED <<kase, task, expected>>

RNext == Start \/ UnpackImmutable \/ ImmutablesDone \/ Ancillary \/ Cleanup

-----------------------------------------------------------------------------
(* The property (C19), independent of the code.                             *)

(* the served ancillary archive is the genuine one: the manifest the key owner signed,     *)
(* with its signature, and every listed file present with the vouched content              *)
(* (what is read under a listed path counts; a symbolic link found there is judged as an    *)
(* entry of the target: it is no file with a matching hash)                                *)
AncGenuine(k) == /\ k.ancArch.status = "ok" /\ k.ancArch.manifest = "ok"
                 /\ k.ancArch.at \in {"file", "link_in_same", "link_out_same"}

Allowed(k, p, src) ==
    \/ src = Pre /\ p \in k.pre                                    \* held before
    \/ src = Client /\ p \in {Clean, Magic}                        \* the client's own bootstrap markers
    \/ p.cls = "imm" /\ k.lo <= p.num /\ p.num <= k.hi             \* immutable file of the requested range
    \/ /\ src = Anc /\ p \in Genuine(k.N)                          \* listed, with matching hash, in the
       /\ k.anc /\ AncGenuine(k)                                   \* manifest signed by the configured key

Restored(k, t) == \A p \in DOMAIN t : Allowed(k, p, t[p])
=============================================================================
