CONSTANTS
    N = 1
    Pat = "distinct"
    ServedU = "honest"
    DirU = "atomic"
    AllDirOptions = {0, 1, 2, 3}
    PerNameOnSuccess = TRUE
    ListNamesCanonical = TRUE
    FindPrefersDirectChild = TRUE
    NonRegularRefused = FALSE
    ExcuseNonRegular = FALSE
    ExcuseMisplaced = FALSE
    ExcuseDecoy = FALSE
SPECIFICATION Spec
INVARIANTS VerifySound
CHECK_DEADLOCK FALSE
