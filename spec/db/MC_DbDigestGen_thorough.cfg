CONSTANTS
    n1 = n1
    Nodes = {n1}
    MaxNum = 4
    MaxCid = 98
    GenMaxNum = 3
    LivePatterns = {"distinct", "empty1", "equal2"}
    LiveFull = TRUE
    RangeHist = "full"
    MaxHist = 3
    InstanceMemory = FALSE
    FindPrefersDirectChild = FALSE
    ExcuseDecoy = TRUE
SPECIFICATION Spec
INVARIANTS GenPrint
CHECK_DEADLOCK FALSE
