CONSTANTS
    n1 = n1
    n2 = n2
    Nodes = {n1, n2}
    MaxNum = 0
    MaxCid = 1
    MaxSteps = 3
    Mode = "live"
    InstanceMemory = FALSE
    FindPrefersDirectChild = FALSE
    ExcuseDecoy = TRUE
SPECIFICATION Spec
INVARIANTS Determined Sensitive
CHECK_DEADLOCK FALSE
