CONSTANTS
    MaxN = 3
    Universe = "hostile"
    UnpackStaged = FALSE
    ListedMustBeRegular = FALSE
    ManifestHashInjective = FALSE
    ExcuseImmArchive = TRUE
    ExcuseAncLink = TRUE
    ExcuseMerged = TRUE
SPECIFICATION Spec
INVARIANTS GenPrint
CHECK_DEADLOCK FALSE
