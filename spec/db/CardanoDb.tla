------------------------------ MODULE CardanoDb ------------------------------
(***************************************************************************)
(* Shared vocabulary of the "Cardano database" family                      *)
(*     DbDigest.tla    C12  digest determinism        (signer / aggregator)*)
(*     DbVerify.tla    C10  client-side verification  (mithril-client)     *)
(*     DbRestore.tla   C19  download + unpack         (mithril-client)     *)
(*                                                                         *)
(* A Cardano node database is a directory <db> holding                     *)
(*     <db>/immutable/NNNNN.{chunk,primary,secondary}   the immutable trios*)
(*     <db>/ledger/..., <db>/volatile/...               ancillary files    *)
(*     <db>/clean, <db>/protocolMagicId                 bootstrap markers  *)
(*                                                                         *)
(* Abstraction (DESIGN 3.5).  A file content is a content id; SHA-256 is   *)
(* the injective constructor Digest; the Merkle root over a sequence of    *)
(* digests is the injective, positional constructor Root (the Merkle       *)
(* algorithms themselves are the subject of C09).                          *)
(***************************************************************************)
EXTENDS Integers, Sequences, FiniteSets, TLC

ImmExt == {"chunk", "primary", "secondary"}

(* File names are  [num, ext]  standing for  format!("{num:05}.{ext}").     *)
(* Extensions other than the three immutable ones appear in forged digest   *)
(* lists only.  ExtRank is the byte order of the extension strings; for     *)
(* five-digit names the order of the file names as strings, the order of    *)
(* the paths and the order (number, name) all coincide with NameLess.       *)
ExtRank == [aaa |-> 1, chunk |-> 2, primary |-> 3, secondary |-> 4, zzz |-> 5]
AllExt  == DOMAIN ExtRank

NameLess(a, b) == \/ a.num < b.num
                  \/ a.num = b.num /\ ExtRank[a.ext] < ExtRank[b.ext]

(* the sorted sequence of a finite set of names *)
RECURSIVE SortNames(_)
SortNames(S) ==
    IF S = {} THEN <<>>
    ELSE LET mn == CHOOSE x \in S : \A y \in S \ {x} : NameLess(x, y)
         IN  <<mn>> \o SortNames(S \ {mn})

Trio(n)      == [num : {n}, ext : ImmExt]
Trios(lo, hi) == [num : lo..hi, ext : ImmExt]

Digest(c)  == <<"sha256", c>>
Root(seq)  == <<"mkroot", seq>>

Range(s) == {s[i] : i \in DOMAIN s}
=============================================================================
