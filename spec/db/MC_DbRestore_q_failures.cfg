CONSTANTS
    MaxN = 2
    Universe = "failures"
    UnpackStaged = FALSE
    ManifestHashInjective = FALSE
    ExcuseImmArchive = TRUE
    ExcuseMerged = TRUE
SPECIFICATION Spec
INVARIANTS OnlyAllowed RefusalTouchesNothing
CHECK_DEADLOCK FALSE
