CONSTANTS
    MaxN = 2
    Universe = "failures"
    UnpackStaged = FALSE
    ListedMustBeRegular = FALSE
    ManifestHashInjective = FALSE
    ExcuseImmArchive = TRUE
    ExcuseAncLink = TRUE
    ExcuseMerged = TRUE
SPECIFICATION Spec
INVARIANTS OnlyAllowed RefusalTouchesNothing
CHECK_DEADLOCK FALSE
