CONSTANTS
    MaxN = 2
    Universe = "pre"
    UnpackStaged = FALSE
    ManifestHashInjective = FALSE
    ExcuseImmArchive = TRUE
    ExcuseMerged = TRUE
SPECIFICATION Spec
INVARIANTS GenPrint
CHECK_DEADLOCK FALSE
