CONSTANTS
    N = 1
    Pat = "distinct"
    ServedU = "increasing"
    DirU = "fromServed"
    AllDirOptions = {0, 1, 2, 3}
    PerNameOnSuccess = TRUE
    ListNamesCanonical = TRUE
    FindPrefersDirectChild = TRUE
    NonRegularRefused = TRUE
    ExcuseNonRegular = FALSE
    ExcuseMisplaced = FALSE
    ExcuseDecoy = FALSE
SPECIFICATION Spec
INVARIANTS DigestsSound VerifySound
CHECK_DEADLOCK FALSE
