CONSTANTS
    N = 1
    Pat = "distinct"
    ServedU = "increasing"
    DirU = "fromServed"
    PerNameOnSuccess = TRUE
    ListNamesCanonical = TRUE
    FindPrefersDirectChild = TRUE
    ExcuseMisplaced = FALSE
    ExcuseDecoy = FALSE
SPECIFICATION Spec
INVARIANTS DigestsSound VerifySound
CHECK_DEADLOCK FALSE
