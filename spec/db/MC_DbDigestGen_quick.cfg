CONSTANTS
    n1 = n1
    Nodes = {n1}
    MaxNum = 3
    MaxCid = 98
    GenMaxNum = 2
    RangeHist = "ends"
    MaxHist = 2
    FindPrefersDirectChild = FALSE
    ExcuseDecoy = TRUE
SPECIFICATION Spec
INVARIANTS GenPrint
CHECK_DEADLOCK FALSE
