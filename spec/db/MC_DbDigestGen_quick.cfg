CONSTANTS
    n1 = n1
    Nodes = {n1}
    MaxNum = 3
    MaxCid = 98
    GenMaxNum = 2
    LivePatterns = {"distinct"}
    LiveFull = FALSE
    RangeHist = "ends"
    MaxHist = 2
    InstanceMemory = FALSE
    FindPrefersDirectChild = FALSE
    ExcuseDecoy = TRUE
SPECIFICATION Spec
INVARIANTS GenPrint
CHECK_DEADLOCK FALSE
