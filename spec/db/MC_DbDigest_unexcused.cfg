CONSTANTS
    n1 = n1
    n2 = n2
    Nodes = {n1, n2}
    MaxNum = 0
    MaxCid = 1
    MaxSteps = 2
    FindPrefersDirectChild = FALSE
    ExcuseDecoy = FALSE
SPECIFICATION Spec
INVARIANTS Determined
CHECK_DEADLOCK FALSE
