--------------------------- MODULE DbVerifyTrace ---------------------------
(***************************************************************************)
(* Contract trace spec for C10: accepts or rejects traces recorded from    *)
(* the real mithril-client flow  download_and_verify_digests ->            *)
(* verify_cardano_database -> compute_cardano_database_message ->          *)
(* match_message.                                                          *)
(*                                                                         *)
(* Event                                                                   *)
(*  VerifyDb                                                               *)
(*    cert        the certified digest list: <<[name, num, did]>> -- the   *)
(*                files of the honest database the certificate signs       *)
(*                (did = id of the SHA-256 of the content)                 *)
(*    signedRoot  the Merkle root the certificate signs                    *)
(*    servedRoot  the Merkle root of the digest list as served (computed   *)
(*                by the harness from the served file: entries numbered up *)
(*                to the beacon, in file order), "" if it has no entry     *)
(*    servedRootCanonical   the same over the entries that name immutable  *)
(*                files (<number:05>.<chunk|primary|secondary>) only       *)
(*    digestsAccepted   download_and_verify_digests returned Ok            *)
(*    dir         the restored directory: <<[name, num, did, kind]>> for   *)
(*                every file <db>/immutable/<number>.<chunk|primary|       *)
(*                secondary> as a reader gets it: a regular file (kind     *)
(*                "reg") or a regular file reached through a symbolic link *)
(*                (kind "link"); did recomputed from the real bytes read   *)
(*                through that name.  (Whether a link may stand for the    *)
(*                file is not decided by the property; reading it this way *)
(*                never asks more than the other way.)  What is no file    *)
(*                under such a name -- a directory, a dangling link -- is  *)
(*                not in `dir` (the name is absent) and is listed in the   *)
(*                descriptive field `nonfiles`                             *)
(*    rangeValid lo hi   the requested range (resolved against the beacon) *)
(*    allowMissing       the caller explicitly allowed gaps                *)
(*    accepted    the whole flow succeeded                                 *)
(*    (+ descriptive: case label stage err missing tampered nonVerifiable  *)
(*       worst decoy rangeKind N servedNames nonfiles entryKinds pred      *)
(*       pred_match)                                                       *)
(*                                                                         *)
(* The property, one-directional, and nothing else:                        *)
(*   digest list accepted => it reproduces the signed root (over all its   *)
(*     entries up to the beacon, or over those naming immutable files: an  *)
(*     implementation may ignore or refuse the others)                     *)
(*   accepted => the range is valid, every file of the requested range is  *)
(*     present (unless gaps were allowed) and every immutable file of the  *)
(*     range hashes to the digest the certified list assigns to that very  *)
(*     file name                                                           *)
(***************************************************************************)
EXTENDS Naturals, Sequences, FiniteSets, TLC, Json, IOUtils

Rec   == ndJsonDeserialize(IOEnv.TRACE)
Known == ndJsonDeserialize(IOEnv.KNOWN)

VARIABLE l
tvars == <<l>>
E == Rec[l]
IsEvent(name) == l <= Len(Rec) /\ Rec[l].ev = name /\ Rec[l].seq = l /\ l' = l + 1

TraceInit == l = 1

Entries(s)     == {s[i] : i \in DOMAIN s}
InRange(x, e)  == e.lo <= x.num /\ x.num <= e.hi

AcceptRule(e) ==
    /\ \A c \in Entries(e.cert) :
          InRange(c, e) => (e.allowMissing \/ \E f \in Entries(e.dir) : f.name = c.name)
    /\ \A f \in Entries(e.dir) :
          InRange(f, e) => \E c \in Entries(e.cert) : c.name = f.name /\ c.did = f.did

TVerifyDb ==
    /\ IsEvent("VerifyDb")
    /\ E.digestsAccepted => E.signedRoot \in {E.servedRoot, E.servedRootCanonical}
    /\ E.accepted => E.digestsAccepted /\ E.rangeValid /\ AcceptRule(E)

-----------------------------------------------------------------------------
MatchesKnown(e, k) == \A f \in DOMAIN k.match : f \in DOMAIN e /\ e[f] = k.match[f]
TKnown ==
    /\ l <= Len(Rec) /\ Rec[l].seq = l
    /\ \E i \in DOMAIN Known :
          /\ MatchesKnown(Rec[l], Known[i])
          /\ PrintT(<<"KNOWN-USED", ToJson([id |-> Known[i].id, seq |-> l])>>)
    /\ l' = l + 1

TraceNext == TVerifyDb \/ TKnown
TraceSpec == TraceInit /\ [][TraceNext]_tvars

TraceAccepted ==
    LET d == TLCGet("stats").diameter - 1 IN
    /\ PrintT(<<"TRACE-RESULT",
                ToJson([matched |-> d, total |-> Len(Rec),
                        first_unmatched |-> IF d < Len(Rec) THEN Rec[d + 1] ELSE [ev |-> "none"]])>>)
    /\ d = Len(Rec)
=============================================================================
