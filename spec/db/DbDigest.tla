------------------------------ MODULE DbDigest ------------------------------
(***************************************************************************)
(* C12 -- the database digest depends only on the immutable files up to    *)
(* the beacon.                                                             *)
(*                                                                         *)
(* Implementation-shaped model of                                          *)
(*   internal/cardano-node/mithril-cardano-node-internal-database/src/     *)
(*     entities/immutable_file.rs     find_immutables_dir, is_immutable,   *)
(*                                    walk_immutables_in_dir,              *)
(*                                    ImmutableFile::{new, list_all_in_dir,*)
(*                                    Ord}                                 *)
(*     digesters/cardano_immutable_digester.rs                             *)
(*                                    list_immutable_files_to_process,     *)
(*                                    fetch_immutables_cached,             *)
(*                                    process_immutables, update_cache,    *)
(*                                    compute_merkle_tree,                 *)
(*                                    compute_digests_for_range,           *)
(*                                    list_..._to_process_for_range        *)
(*     digesters/immutable_digester.rs   compute_immutables_digests        *)
(*     digesters/cache/json_provider.rs  get / store (keyed by file name)  *)
(*     signable_builder/cardano_database.rs  compute_protocol_message      *)
(*                                                                         *)
(* Every node has its own disk and its own digest cache.  A disk is        *)
(*   imm    partial function  ImmNames -> content id : the REGULAR files   *)
(*          <db>/immutable/NNNNN.ext  (any subset, trios may be partial)   *)
(*   nonreg partial function  ImmNames -> [k, cid]  (names not in imm):    *)
(*          what else sits under an immutable file name: a directory       *)
(*          (k = "dir"), a symbolic link to nothing ("dangling"), a        *)
(*          symbolic link to a regular file of content cid ("link")        *)
(*   other  set of placements of files the digest has to ignore            *)
(*   bad    a file  <db>/immutable/abc.chunk  (immutable extension,        *)
(*          non-numeric stem) is present                                   *)
(*   decoy  a second directory  <db>/<x>/immutable  holding files of the   *)
(*          same names with other contents; "first" / "after" = <x> comes  *)
(*          before / after "immutable" in the order readdir returns the    *)
(*          children of <db>  (decided by the file system, not the node)   *)
(*   entry  the path handed to the digester: <db> or <db>/immutable        *)
(*                                                                         *)
(* Every node runs two long-lived digester objects (CardanoImmutableDigester*)
(* instances): one built without cache provider (`None`), one built with   *)
(* the JSON provider over the node's cache file.  They live across         *)
(* computations; a Restart drops and re-creates them (the cache file       *)
(* stays).  Between two computations the files of the node may change on   *)
(* disk (Perturb).                                                         *)
(*   cache[n]    content of the node's cache file: file name -> digest     *)
(*   inst[n]     what the cache-less instance remembers between            *)
(*               computations: file name -> digest.  The code remembers    *)
(*               nothing (InstanceMemory = FALSE).                         *)
(*   tainted[n]  names whose file changed on disk after a cached           *)
(*               computation digested it                                   *)
(***************************************************************************)
EXTENDS CardanoDb

CONSTANTS
    MaxNum,                  \* immutable file numbers 0 .. MaxNum + 1
    MaxCid,                  \* content ids 0 .. MaxCid, 0 is the empty file
    Nodes,
    FindPrefersDirectChild,  \* FALSE: find_immutables_dir as it is; TRUE: proposed fix
    ExcuseDecoy,             \* TRUE: results computed over a decoy directory are excused
                             \*       (KNOWN_FINDINGS C12-nested-immutable-dir)
    InstanceMemory           \* FALSE: a digester built without cache provider keeps nothing between
                             \*        computations (the code); TRUE: it keeps the digests it computed
                             \*        (what the property forbids; used to show the model sees it)

Nums     == 0 .. (MaxNum + 1)
ImmNames == [num : Nums, ext : ImmExt]
Cids     == 0 .. MaxCid
DecoyCid == MaxCid + 1                      \* a content no honest file has

(* placements of files that are not immutable files of the database *)
OtherKinds == {"imm_txt",       \* <db>/immutable/README.txt
               "imm_noext",     \* <db>/immutable/notes
               "imm_bak",       \* <db>/immutable/00000.chunk.bak
               "imm_subdir",    \* <db>/immutable/sub/00000.chunk
               "root_markers",  \* <db>/clean, <db>/protocolMagicId
               "ledger",        \* <db>/ledger/4242
               "volatile"}      \* <db>/volatile/blocks-0.dat

VARIABLES disk, cache, inst, tainted, results, steps
vars == <<disk, cache, inst, tainted, results, steps>>

-----------------------------------------------------------------------------
(* What the property talks about.                                           *)

(* names and contents of the immutable files numbered up to the beacon (of the range).   *)
(* A directory or a dangling link under an immutable file name is no file.  Whether a    *)
(* symbolic link to a regular file is an immutable file with that content or just        *)
(* another directory entry is not decided by the property: such an entry is kept apart   *)
(* (kind "link"), so a node holding one is only compared with nodes holding the same.    *)
CoveredIn(d, lo, hi) ==
    {[name |-> n, cid |-> d.imm[n], kind |-> "reg"] :
        n \in {m \in DOMAIN d.imm : lo <= m.num /\ m.num <= hi}}
    \cup {[name |-> n, cid |-> d.nonreg[n].cid, kind |-> "link"] :
        n \in {m \in DOMAIN d.nonreg : d.nonreg[m].k = "link" /\ lo <= m.num /\ m.num <= hi}}
Covered(d, b) == CoveredIn(d, 0, b)
-----------------------------------------------------------------------------
(* The code.                                                                *)

(* find_immutables_dir: first directory named "immutable" in WalkDir order   *)
(* (depth first, children in readdir order; the root itself comes first);    *)
(* with the fix: the root if it is named "immutable", else its direct child  *)
FoundDir(d) ==
    IF d.entry = "immdir" \/ FindPrefersDirectChild \/ d.decoy # "first"
    THEN "real" ELSE "decoy"

FilesOf(d, which) ==
    IF which = "real" THEN d.imm ELSE [n \in DOMAIN d.imm |-> DecoyCid]

(* ImmutableFile::list_all_in_dir: depth-1 entries that are files with an     *)
(* immutable extension (every OtherKind is filtered here, and so is every     *)
(* nonreg entry: file_type().is_file() without following links), each parsed  *)
(* (a non-numeric stem is an error), then sorted by (number, path)            *)
ListAll(d) ==
    LET w == FoundDir(d) IN
    IF w = "real" /\ d.bad
    THEN [ok |-> FALSE, files |-> <<>>, src |-> w]
    ELSE [ok |-> TRUE, files |-> SortNames(DOMAIN FilesOf(d, w)), src |-> w]

(* list_immutable_files_to_process *)
ToProcess(d, b) ==
    LET la == ListAll(d) IN
    IF ~la.ok THEN la
    ELSE LET kept == SelectSeq(la.files, LAMBDA n : n.num <= b) IN
         IF kept = <<>> \/ kept[Len(kept)].num < b          \* NotEnoughImmutable
         THEN [ok |-> FALSE, files |-> <<>>, src |-> la.src]
         ELSE [ok |-> TRUE, files |-> kept, src |-> la.src]

(* the cache key of JsonImmutableFileDigestCacheProvider: the file name *)
CacheKey(n) == n

(* list_immutable_files_to_process_for_range: no beacon file is required, the list may be  *)
(* empty                                                                                  *)
ToProcessRange(d, lo, hi) ==
    LET la == ListAll(d) IN
    IF ~la.ok THEN la
    ELSE [ok |-> TRUE, src |-> la.src,
          files |-> SelectSeq(la.files, LAMBDA n : lo <= n.num /\ n.num <= hi)]

(* process_immutables + update_cache on the listed files tp, disk d, cache content cm (a  *)
(* function file name -> digest), cache consulted or not: the digests in file order and   *)
(* the cache afterwards (only the newly computed entries are stored, each under the name  *)
(* of its own file)                                                                       *)
DigestsOf(d, cm, tp, useCache) ==
    LET fs == FilesOf(d, tp.src)
        dg(n) == IF useCache /\ CacheKey(n) \in DOMAIN cm
                 THEN cm[CacheKey(n)]                          \* fetch_immutables_cached
                 ELSE Digest(fs[n])                            \* compute_raw_hash
    IN  [digs |-> [i \in DOMAIN tp.files |-> dg(tp.files[i])],
         newc |-> IF useCache                                  \* update_cache
                  THEN [k \in DOMAIN cm \cup {CacheKey(n) : n \in Range(tp.files)} |->
                          IF k \in DOMAIN cm THEN cm[k]
                          ELSE Digest(fs[CHOOSE n \in Range(tp.files) : CacheKey(n) = k])]
                  ELSE cm]

(* compute_merkle_tree / compute_protocol_message(beacon b) *)
OutcomeOf(d, cm, b, useCache) ==
    LET tp == ToProcess(d, b) IN
    IF ~tp.ok THEN [ok |-> FALSE, root |-> <<>>, newc |-> cm]
    ELSE LET r == DigestsOf(d, cm, tp, useCache) IN
         [ok |-> TRUE, root |-> Root(r.digs), newc |-> r.newc]

(* compute_digests_for_range(lo ..= hi): the (file name, digest) entries of the range; it *)
(* reads and writes the same cache                                                        *)
RangeOutcomeOf(d, cm, lo, hi, useCache) ==
    LET tp == ToProcessRange(d, lo, hi) IN
    IF ~tp.ok THEN [ok |-> FALSE, root |-> <<>>, newc |-> cm]
    ELSE LET r == DigestsOf(d, cm, tp, useCache) IN
         [ok |-> TRUE, root |-> <<"digests", [i \in DOMAIN tp.files |-> <<tp.files[i], r.digs[i]>>]>>,
          newc |-> r.newc]

(* The memory a computation reads and writes: the cache file through the instance built   *)
(* with the provider, else what the cache-less instance keeps (nothing, in the code)       *)
Memory(cm, im, useCache) == IF useCache THEN cm ELSE IF InstanceMemory THEN im ELSE <<>>
Consults(useCache)       == useCache \/ InstanceMemory

(* one computing step of a history: [op ("tree" | "range"), lo, hi, cache, ...]; for       *)
(* "tree" hi is the beacon                                                                 *)
StepOutcome(d, cm, im, st) ==
    LET m == Memory(cm, im, st.cache) IN
    IF st.op = "tree" THEN OutcomeOf(d, m, st.hi, Consults(st.cache))
    ELSE RangeOutcomeOf(d, m, st.lo, st.hi, Consults(st.cache))

(* the regular files the step digests *)
Processed(d, st) ==
    LET tp == IF st.op = "tree" THEN ToProcess(d, st.hi) ELSE ToProcessRange(d, st.lo, st.hi)
    IN  IF tp.ok /\ tp.src = "real" THEN Range(tp.files) ELSE {}

Record(node, st) ==
    LET d == disk[node]
        o == StepOutcome(d, cache[node], inst[node], st)
    IN
    /\ results' = results \cup
          {[node |-> node, op |-> st.op, lo |-> st.lo, beacon |-> st.hi, cache |-> st.cache,
            ok |-> o.ok, root |-> o.root,
            covered |-> CoveredIn(d, st.lo, st.hi),                    \* the files as they are now
            excused |-> ExcuseDecoy /\ d.decoy = "first" /\ d.entry = "db",
            stale |-> st.cache /\ Processed(d, st) \cap tainted[node] # {}]}
    /\ cache' = IF st.cache THEN [cache EXCEPT ![node] = o.newc] ELSE cache
    /\ inst'  = IF ~st.cache /\ InstanceMemory THEN [inst EXCEPT ![node] = o.newc] ELSE inst
    /\ steps' = steps + 1
    /\ UNCHANGED <<disk, tainted>>

Compute(node, b, useCache) ==
    Record(node, [op |-> "tree", lo |-> 0, hi |-> b, cache |-> useCache])

ComputeRange(node, lo, hi, useCache) ==
    Record(node, [op |-> "range", lo |-> lo, hi |-> hi, cache |-> useCache])

(* the files change on disk between two computations: the content of file n becomes c    *)
(* (a byte changed, another file's content copied over it, a new file n), or n is removed *)
(* (c = -1)                                                                               *)
Perturb(node, n, c) ==
    /\ n \notin DOMAIN disk[node].nonreg
    /\ IF c = -1 THEN n \in DOMAIN disk[node].imm
       ELSE IF n \in DOMAIN disk[node].imm THEN disk[node].imm[n] # c ELSE TRUE
    /\ disk' = [disk EXCEPT ![node].imm =
                    IF c = -1 THEN [m \in DOMAIN @ \ {n} |-> @[m]]
                    ELSE [m \in DOMAIN @ \cup {n} |-> IF m = n THEN c ELSE @[m]]]
    /\ tainted' = [tainted EXCEPT ![node] = @ \cup ({n} \cap DOMAIN cache[node])]
    /\ steps' = steps + 1
    /\ UNCHANGED <<cache, inst, results>>

(* the digester objects are dropped and built again; the cache file stays *)
Restart(node) ==
    /\ inst' = [inst EXCEPT ![node] = <<>>]
    /\ steps' = steps + 1
    /\ UNCHANGED <<disk, cache, tainted, results>>

-----------------------------------------------------------------------------
(* The property (C12), independent of the code.                             *)

CoveredOf(r)  == r.covered
Ambiguous(S)  == \E x \in S : x.kind = "link"

(* A result is judged unless it is excused by a listed finding or comes from an explicit  *)
(* cache that holds the digest of a file changed since (the statement promises cache      *)
(* independence over the same unchanged files only; a cache-less digester is always       *)
(* judged, whatever happened to the files before).                                        *)
Judged     == {r \in results : r.ok /\ ~r.excused /\ ~r.stale}

(* the root (the digests of a range) is a function of the covered files only: whatever  *)
(* the layout, other files, files beyond the beacon, cache history                      *)
Determined == \A r, s \in Judged :
                 r.op = s.op /\ CoveredOf(r) = CoveredOf(s) => r.root = s.root

(* without a cache, it changes whenever a byte of a covered file changes or a covered  *)
(* file is missing: T is S with some files changed and / or missing                     *)
NamesOf(S)     == {x.name : x \in S}
Perturbs(S, T) == S # T /\ NamesOf(T) \subseteq NamesOf(S)
Sensitive  == \A r, s \in Judged :
                 ( /\ r.op = s.op /\ ~r.cache /\ ~s.cache
                   /\ ~Ambiguous(CoveredOf(r)) /\ ~Ambiguous(CoveredOf(s))
                   /\ Perturbs(CoveredOf(r), CoveredOf(s)) )
                    => r.root # s.root
=============================================================================
