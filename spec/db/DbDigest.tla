------------------------------ MODULE DbDigest ------------------------------
(***************************************************************************)
(* C12 -- the database digest depends only on the immutable files up to    *)
(* the beacon.                                                             *)
(*                                                                         *)
(* Implementation-shaped model of                                          *)
(*   internal/cardano-node/mithril-cardano-node-internal-database/src/     *)
(*     entities/immutable_file.rs     find_immutables_dir, is_immutable,   *)
(*                                    walk_immutables_in_dir,              *)
(*                                    ImmutableFile::{new, list_all_in_dir,*)
(*                                    Ord}                                 *)
(*     digesters/cardano_immutable_digester.rs                             *)
(*                                    list_immutable_files_to_process,     *)
(*                                    fetch_immutables_cached,             *)
(*                                    process_immutables, update_cache,    *)
(*                                    compute_merkle_tree                  *)
(*     digesters/immutable_digester.rs   compute_immutables_digests        *)
(*     digesters/cache/json_provider.rs  get / store (keyed by file name)  *)
(*     signable_builder/cardano_database.rs  compute_protocol_message      *)
(*                                                                         *)
(* Every node has its own disk and its own digest cache.  A disk is        *)
(*   imm    partial function  ImmNames -> content id : the files           *)
(*          <db>/immutable/NNNNN.ext  (any subset, trios may be partial)   *)
(*   other  set of placements of files the digest has to ignore            *)
(*   bad    a file  <db>/immutable/abc.chunk  (immutable extension,        *)
(*          non-numeric stem) is present                                   *)
(*   decoy  a second directory  <db>/<x>/immutable  holding files of the   *)
(*          same names with other contents; "first" / "after" = <x> comes  *)
(*          before / after "immutable" in the order readdir returns the    *)
(*          children of <db>  (decided by the file system, not the node)   *)
(*   entry  the path handed to the digester: <db> or <db>/immutable        *)
(***************************************************************************)
EXTENDS CardanoDb

CONSTANTS
    MaxNum,                  \* immutable file numbers 0 .. MaxNum + 1
    MaxCid,                  \* content ids 0 .. MaxCid, 0 is the empty file
    Nodes,
    FindPrefersDirectChild,  \* FALSE: find_immutables_dir as it is; TRUE: proposed fix
    ExcuseDecoy              \* TRUE: results computed over a decoy directory are excused
                             \*       (KNOWN_FINDINGS C12-nested-immutable-dir)

Nums     == 0 .. (MaxNum + 1)
ImmNames == [num : Nums, ext : ImmExt]
Cids     == 0 .. MaxCid
DecoyCid == MaxCid + 1                      \* a content no honest file has

(* placements of files that are not immutable files of the database *)
OtherKinds == {"imm_txt",       \* <db>/immutable/README.txt
               "imm_noext",     \* <db>/immutable/notes
               "imm_bak",       \* <db>/immutable/00000.chunk.bak
               "imm_subdir",    \* <db>/immutable/sub/00000.chunk
               "root_markers",  \* <db>/clean, <db>/protocolMagicId
               "ledger",        \* <db>/ledger/4242
               "volatile"}      \* <db>/volatile/blocks-0.dat

VARIABLES disk, cache, results, steps
vars == <<disk, cache, results, steps>>

-----------------------------------------------------------------------------
(* The code.                                                                *)

(* find_immutables_dir: first directory named "immutable" in WalkDir order   *)
(* (depth first, children in readdir order; the root itself comes first);    *)
(* with the fix: the root if it is named "immutable", else its direct child  *)
FoundDir(d) ==
    IF d.entry = "immdir" \/ FindPrefersDirectChild \/ d.decoy # "first"
    THEN "real" ELSE "decoy"

FilesOf(d, which) ==
    IF which = "real" THEN d.imm ELSE [n \in DOMAIN d.imm |-> DecoyCid]

(* ImmutableFile::list_all_in_dir: depth-1 entries that are files with an     *)
(* immutable extension (every OtherKind is filtered here), each parsed        *)
(* (a non-numeric stem is an error), then sorted by (number, path)            *)
ListAll(d) ==
    LET w == FoundDir(d) IN
    IF w = "real" /\ d.bad
    THEN [ok |-> FALSE, files |-> <<>>, src |-> w]
    ELSE [ok |-> TRUE, files |-> SortNames(DOMAIN FilesOf(d, w)), src |-> w]

(* list_immutable_files_to_process *)
ToProcess(d, b) ==
    LET la == ListAll(d) IN
    IF ~la.ok THEN la
    ELSE LET kept == SelectSeq(la.files, LAMBDA n : n.num <= b) IN
         IF kept = <<>> \/ kept[Len(kept)].num < b          \* NotEnoughImmutable
         THEN [ok |-> FALSE, files |-> <<>>, src |-> la.src]
         ELSE [ok |-> TRUE, files |-> kept, src |-> la.src]

(* the cache key of JsonImmutableFileDigestCacheProvider: the file name *)
CacheKey(n) == n

(* compute_merkle_tree / compute_protocol_message(beacon b) on disk d with cache content  *)
(* cm (a function file name -> digest), cache consulted or not                            *)
OutcomeOf(d, cm, b, useCache) ==
    LET tp == ToProcess(d, b)
        fs == FilesOf(d, tp.src)
        dg(n) == IF useCache /\ CacheKey(n) \in DOMAIN cm
                 THEN cm[CacheKey(n)]                          \* fetch_immutables_cached
                 ELSE Digest(fs[n])                            \* compute_raw_hash
    IN  IF ~tp.ok THEN [ok |-> FALSE, root |-> <<>>, newc |-> cm]
        ELSE [ok   |-> TRUE,
              root |-> Root([i \in DOMAIN tp.files |-> dg(tp.files[i])]),
              newc |-> IF useCache                             \* update_cache
                       THEN [k \in DOMAIN cm \cup {CacheKey(n) : n \in Range(tp.files)} |->
                               IF k \in DOMAIN cm THEN cm[k]
                               ELSE Digest(fs[CHOOSE n \in Range(tp.files) : CacheKey(n) = k])]
                       ELSE cm]

Outcome(node, b, useCache) == OutcomeOf(disk[node], cache[node], b, useCache)

Compute(node, b, useCache) ==
    LET o == Outcome(node, b, useCache) IN
    /\ results' = results \cup {[node |-> node, beacon |-> b, cache |-> useCache,
                                 ok |-> o.ok, root |-> o.root]}
    /\ cache' = [cache EXCEPT ![node] = o.newc]
    /\ steps' = steps + 1
    /\ UNCHANGED disk

-----------------------------------------------------------------------------
(* The property (C12), independent of the code.                             *)

(* names and contents of the immutable files numbered up to the beacon *)
Covered(d, b) == {[name |-> n, cid |-> d.imm[n]] : n \in {m \in DOMAIN d.imm : m.num <= b}}
CoveredOf(r)  == Covered(disk[r.node], r.beacon)

Excused(r) == ExcuseDecoy /\ disk[r.node].decoy = "first" /\ disk[r.node].entry = "db"
Judged     == {r \in results : r.ok /\ ~Excused(r)}

(* the root is a function of the covered files only: whatever the layout, other     *)
(* files, files beyond the beacon, cache history                                     *)
Determined == \A r, s \in Judged : CoveredOf(r) = CoveredOf(s) => r.root = s.root

(* without a cache, it changes whenever a byte of a covered file changes or a covered  *)
(* file is missing: T is S with some files changed and / or missing                     *)
NamesOf(S)     == {x.name : x \in S}
Perturbs(S, T) == S # T /\ NamesOf(T) \subseteq NamesOf(S)
Sensitive  == \A r, s \in Judged :
                 ~r.cache /\ ~s.cache /\ Perturbs(CoveredOf(r), CoveredOf(s)) => r.root # s.root
=============================================================================
