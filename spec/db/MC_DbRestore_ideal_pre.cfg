CONSTANTS
    MaxN = 2
    Universe = "pre"
    UnpackStaged = TRUE
    ManifestHashInjective = TRUE
    ExcuseImmArchive = FALSE
    ExcuseMerged = FALSE
SPECIFICATION Spec
INVARIANTS OnlyAllowed RefusalTouchesNothing
CHECK_DEADLOCK FALSE
