CONSTANTS
    MaxN = 2
    Universe = "pre"
    UnpackStaged = TRUE
    ListedMustBeRegular = TRUE
    ManifestHashInjective = TRUE
    ExcuseImmArchive = FALSE
    ExcuseAncLink = FALSE
    ExcuseMerged = FALSE
SPECIFICATION Spec
INVARIANTS OnlyAllowed RefusalTouchesNothing
CHECK_DEADLOCK FALSE
