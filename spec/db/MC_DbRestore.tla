---------------------------- MODULE MC_DbRestore ----------------------------
(* C19: download scenarios of a bounded universe through the implementation-shaped          *)
(* download_unpack: every requested range, with / without ancillary, one factor at a time    *)
(* (hostile entries in an immutable archive, ancillary manifest alterations, failures while  *)
(* unpacking / moving, pre-existing target content, network).                                *)
EXTENDS DbRestore, Json

CONSTANTS
    MaxN,                 \* beacons 1..MaxN
    Universe,             \* "hostile" | "ancillary" | "failures" | "pre"
    ExcuseImmArchive,     \* KNOWN_FINDINGS C19-immutable-archive-*
    ExcuseMerged,         \* KNOWN_FINDINGS C19-manifest-hash-not-injective
    ExcuseAncLink         \* KNOWN_FINDINGS C19-ancillary-symlink-at-listed-path

Honest(lo, hi) == [i \in lo..hi |-> [status |-> "ok", extra |-> {}]]
HonestAnc      == [status |-> "ok", manifest |-> "ok", extra |-> {}, at |-> "file"]

BaseCase(N, lo, hi, anc) ==
    [N |-> N, lo |-> lo, hi |-> hi, anc |-> anc, override |-> FALSE, net |-> "known", conflict |-> FALSE,
     pre |-> {}, arch |-> Honest(lo, hi), ancArch |-> HonestAnc]

(* entries a mirror can add to the archive of an immutable *)
HostileClasses(N, lo, hi) ==
    {P("immjunk", 0, ""), P("immsub", 0, ""), Ledger(7), Ledger(1), Volatile, Clean, Magic,
     P("rootfile", 0, ""), P("nested", 0, ""), P("decoy", 0, ""), P("manifest", 0, ""),
     P("dotdot", 0, ""), P("abs", 0, ""), P("symlink", 0, "")}
    \cup {Imm(k, "chunk") : k \in {lo - 1, hi + 1, N + 1, N + 2} \ {-1}}     \* out of range: below, above, N+1, beyond
    \cup {Imm(lo, "primary")}                                                 \* in range, another archive's
HostileSets(N, lo, hi) ==
    {{c} : c \in HostileClasses(N, lo, hi)} \cup {HostileClasses(N, lo, hi) \ {P("symlink", 0, "")}}

AncExtras == {{}, {Ledger(2), Clean, P("rootfile", 0, ""), Imm(0, "chunk")}}

UserPre(hi)  == {P("userfile", 0, ""), P("immuser", 0, "")}
OldDb(hi)    == {Imm(0, "chunk"), Imm(hi, "primary"), Ledger(3), Clean, Volatile}

Cases(N, lo, hi, anc) ==
    LET b == BaseCase(N, lo, hi, anc) IN
    CASE Universe = "hostile" ->
           {[b EXCEPT !.arch[h].extra = x, !.net = net] :
               h \in {lo, hi}, x \in HostileSets(N, lo, hi), net \in {"known", "unknown"}}
      [] Universe = "ancillary" ->
           {[b EXCEPT !.ancArch = [status |-> "ok", manifest |-> v, extra |-> x, at |-> "file"], !.net = net] :
               v \in ManifestVariants, x \in AncExtras, net \in {"known", "unknown"}}
           \cup {[b EXCEPT !.ancArch.at = k, !.ancArch.extra = x] : k \in EntryKinds \ {"file"}, x \in AncExtras}
           \cup {[b EXCEPT !.ancArch.status = "missing"]}
           \cup {[b EXCEPT !.conflict = TRUE, !.override = TRUE, !.pre = {Occupied}]}
      [] Universe = "failures" ->
           {[b EXCEPT !.arch[f].status = st, !.arch[h].extra = x] :
               f \in {lo, hi}, st \in {"missing", "corrupt"}, h \in {lo, hi},
               x \in {{}, HostileClasses(N, lo, hi) \ {P("symlink", 0, "")}}}
      [] Universe = "pre" ->
           {[b EXCEPT !.pre = pre, !.override = o, !.arch[hi].extra = x] :
               pre \in {UserPre(hi), OldDb(hi)}, o \in BOOLEAN,
               x \in {{}, {P("immuser", 0, ""), P("userfile", 0, ""), Imm(0, "chunk"), Ledger(3)}}}

Init ==
    /\ \E N \in 1..MaxN : \E lo \in 0..N : \E hi \in lo..N : \E anc \in BOOLEAN :
          /\ (Universe = "ancillary" => anc /\ hi = N)
          /\ kase \in Cases(N, lo, hi, anc)
    /\ target = [p \in kase.pre |-> Pre]
    /\ pc = "start" /\ task = 0 /\ result = "pending" /\ expected = {}

Next == RNext
Spec == Init /\ [][Next]_rvars

-----------------------------------------------------------------------------
IsImmSrc(src) == src.k = "imm"
Excused(p, src) ==
    \/ ExcuseImmArchive /\ IsImmSrc(src)                 \* placed by an immutable archive
    \/ ExcuseMerged /\ kase.ancArch.manifest = "merged" /\ src = Anc
    \/ ExcuseAncLink /\ src = AncLink

OnlyAllowed ==
    pc = "done" => \A p \in DOMAIN target : Allowed(kase, p, target[p]) \/ Excused(p, target[p])

(* a refusal leaves the directory as it was *)
RefusalTouchesNothing ==
    (pc = "done" /\ result = "refused") => target = [p \in kase.pre |-> Pre]

(* GEN *)
PathSeq(S) == LET RECURSIVE Go(_)
                  Go(T) == IF T = {} THEN <<>> ELSE LET x == CHOOSE x \in T : TRUE IN <<x>> \o Go(T \ {x})
              IN Go(S)
SrcName(s) == s.k
GenPrint ==
    pc = "done" =>
    PrintT(<<"CASE", ToJson([N |-> kase.N, lo |-> kase.lo, hi |-> kase.hi, anc |-> kase.anc,
                             override |-> kase.override, net |-> kase.net, conflict |-> kase.conflict,
                             pre |-> PathSeq(kase.pre),
                             arch |-> [j \in 1..(kase.hi - kase.lo + 1) |->
                                          [i |-> kase.lo + j - 1, status |-> kase.arch[kase.lo + j - 1].status,
                                           extra |-> PathSeq(kase.arch[kase.lo + j - 1].extra)]],
                             ancArch |-> [status |-> kase.ancArch.status, manifest |-> kase.ancArch.manifest,
                                          at |-> kase.ancArch.at,
                                          extra |-> PathSeq(kase.ancArch.extra)],
                             label |-> Universe,
                             predResult |-> result,
                             predFinal |-> LET ps == PathSeq(DOMAIN target) IN
                                           [j \in DOMAIN ps |-> [p |-> ps[j], src |-> SrcName(target[ps[j]])]]])>>)

(* vacuity guards: must be VIOLATED *)
NeverOk      == ~(pc = "done" /\ result = "ok")
NeverExcused == ~(pc = "done" /\ \E p \in DOMAIN target : ~Allowed(kase, p, target[p]))
=============================================================================
