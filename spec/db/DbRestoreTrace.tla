--------------------------- MODULE DbRestoreTrace ---------------------------
(***************************************************************************)
(* Contract trace spec for C19: accepts or rejects traces recorded around  *)
(* the real CardanoDatabaseClient::download_unpack.                        *)
(*                                                                         *)
(* Events                                                                  *)
(*  Restore  one call of download_unpack (descriptive: case label N lo hi  *)
(*           includeAnc override net conflict manifest ancStatus           *)
(*           ancGenuine compression res err files dirs pred_result         *)
(*           pred_match pred_diff)                                         *)
(*  Kept     one file (or symlink) found below the sandbox after the call, *)
(*           every projection recomputed from the real path / bytes:       *)
(*    cls num    class of the path: imm (immutable/<num>.<chunk|primary|   *)
(*               secondary>), ledger, volatile, clean, magic, symlink,     *)
(*               imm_dir_other, other, escaped (outside the target)        *)
(*    origin     whose bytes: pre | client | anc | ancx | imm_archive |    *)
(*               unknown; for a symbolic link (cls = symlink, no bytes of  *)
(*               its own): who placed it, anc_link | imm_archive           *)
(*    heldBefore the target held this path with these bytes before         *)
(*    vouched    (path, SHA-256 of the bytes) is an entry of the manifest  *)
(*               the owner of the configured key signed                    *)
(*    ancGenuine the served ancillary archive is the genuine one: that     *)
(*               manifest with its signature, every listed file present    *)
(*               with the vouched hash                                     *)
(*    lo hi includeAnc   the request                                       *)
(*    (+ descriptive: case path kind from res)                             *)
(*                                                                         *)
(* The property: after a download the target holds -- beyond what it held  *)
(* before and the client's own bootstrap markers -- only immutable files   *)
(* of the requested range and ancillary files listed, with matching hash,  *)
(* in the manifest signed by the configured key; when the ancillary        *)
(* archive does not verify nothing of it is kept.                          *)
(***************************************************************************)
EXTENDS Naturals, Integers, Sequences, FiniteSets, TLC, Json, IOUtils

Rec   == ndJsonDeserialize(IOEnv.TRACE)
Known == ndJsonDeserialize(IOEnv.KNOWN)

VARIABLE l
tvars == <<l>>
E == Rec[l]
IsEvent(name) == l <= Len(Rec) /\ Rec[l].ev = name /\ Rec[l].seq = l /\ l' = l + 1

TraceInit == l = 1

Allowed(e) ==
    \/ e.heldBefore                                                   \* held before
    \/ e.cls \in {"clean", "magic"} /\ e.origin = "client"            \* the client's own bootstrap markers
    \/ e.cls = "imm" /\ e.lo <= e.num /\ e.num <= e.hi                \* immutable file of the requested range
    \/ e.includeAnc /\ e.ancGenuine /\ e.vouched                      \* manifest-vouched ancillary file

TRestore == IsEvent("Restore")

TKept == IsEvent("Kept") /\ Allowed(E)

-----------------------------------------------------------------------------
MatchesKnown(e, k) == \A f \in DOMAIN k.match : f \in DOMAIN e /\ e[f] = k.match[f]
TKnown ==
    /\ l <= Len(Rec) /\ Rec[l].seq = l
    /\ \E i \in DOMAIN Known :
          /\ MatchesKnown(Rec[l], Known[i])
          /\ PrintT(<<"KNOWN-USED", ToJson([id |-> Known[i].id, seq |-> l])>>)
    /\ l' = l + 1

TraceNext == TRestore \/ TKept \/ TKnown
TraceSpec == TraceInit /\ [][TraceNext]_tvars

TraceAccepted ==
    LET d == TLCGet("stats").diameter - 1 IN
    /\ PrintT(<<"TRACE-RESULT",
                ToJson([matched |-> d, total |-> Len(Rec),
                        first_unmatched |-> IF d < Len(Rec) THEN Rec[d + 1] ELSE [ev |-> "none"]])>>)
    /\ d = Len(Rec)
=============================================================================
