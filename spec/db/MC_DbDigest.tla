---------------------------- MODULE MC_DbDigest ----------------------------
(* C12: two nodes; the second node's disk is the first one's or one atomic change away    *)
(* from it (layout, other files, decoy directory, entry path, one file changed / removed  *)
(* / added); each node computes Merkle trees for any beacons and digests for any ranges,   *)
(* with any cache usage, in any order, up to MaxSteps computations (the range computations *)
(* warm the cache with non-prefix subsets of the files).                                   *)
EXTENDS DbDigest

CONSTANTS n1, n2, MaxSteps

Plain(imm) == [imm |-> imm, other |-> {}, bad |-> FALSE, decoy |-> "none", entry |-> "db"]

Restrict(f, S) == [x \in S |-> f[x]]
Extend(f, x, v) == [y \in DOMAIN f \cup {x} |-> IF y = x THEN v ELSE f[y]]

Variants(d) ==
    {d}
    \cup {[d EXCEPT !.other = {k}] : k \in OtherKinds} \cup {[d EXCEPT !.other = OtherKinds]}
    \cup {[d EXCEPT !.bad = TRUE]}
    \cup {[d EXCEPT !.decoy = x] : x \in {"first", "after"}}
    \cup {[d EXCEPT !.entry = "immdir"], [d EXCEPT !.entry = "immdir", !.decoy = "first"]}
    \cup {[d EXCEPT !.imm = Restrict(d.imm, DOMAIN d.imm \ {n})] : n \in DOMAIN d.imm}
    \cup {[d EXCEPT !.imm[n] = c] : n \in DOMAIN d.imm, c \in Cids}
    \cup {[d EXCEPT !.imm = Extend(d.imm, n, c)] : n \in ImmNames \ DOMAIN d.imm, c \in {1}}

Init ==
    /\ \E last \in 0..MaxNum : \E imm \in [Trios(0, last) -> Cids] :
          \E v \in Variants(Plain(imm)) : disk = (n1 :> Plain(imm)) @@ (n2 :> v)
    /\ cache = [n \in Nodes |-> <<>>]
    /\ results = {}
    /\ steps = 0

Next == /\ steps < MaxSteps
        /\ \E node \in Nodes, c \in BOOLEAN :
              \/ \E b \in Nums : Compute(node, b, c)
              \/ \E lo \in Nums : \E hi \in lo..(MaxNum + 1) : ComputeRange(node, lo, hi, c)

Spec == Init /\ [][Next]_vars

(* vacuity guards (each must be VIOLATED when used as an invariant) *)
NoTwoOkSameCovered == ~\E r, s \in Judged : r # s /\ CoveredOf(r) = CoveredOf(s)
NoDecoyUsed        == \A r \in results : ~(r.ok /\ FoundDir(disk[r.node]) = "decoy")
=============================================================================
