---------------------------- MODULE MC_DbDigest ----------------------------
(* C12: two nodes; the second node's disk is the first one's or one atomic change away    *)
(* from it (layout, other files, decoy directory, entry path, one file changed / removed  *)
(* / added); each node computes Merkle trees for any beacons and digests for any ranges,   *)
(* with any cache usage, in any order, up to MaxSteps computations (the range computations *)
(* warm the cache with non-prefix subsets of the files).                                   *)
EXTENDS DbDigest

CONSTANTS n1, n2, MaxSteps, Mode

NoNonReg   == [n \in {} |-> [k |-> "dir", cid |-> -1]]
Plain(imm) == [imm |-> imm, nonreg |-> NoNonReg, other |-> {}, bad |-> FALSE, decoy |-> "none", entry |-> "db"]
(* under the name of file n: a directory, a link to nothing, a link to a file of the same / another content *)
NonRegKinds(d, n) == {[k |-> "dir", cid |-> -1], [k |-> "dangling", cid |-> -1],
                      [k |-> "link", cid |-> d.imm[n]], [k |-> "link", cid |-> 1 - d.imm[n]]}

Restrict(f, S) == [x \in S |-> f[x]]
Extend(f, x, v) == [y \in DOMAIN f \cup {x} |-> IF y = x THEN v ELSE f[y]]

Variants(d) ==
    {d}
    \cup {[d EXCEPT !.other = {k}] : k \in OtherKinds} \cup {[d EXCEPT !.other = OtherKinds]}
    \cup {[d EXCEPT !.bad = TRUE]}
    \cup {[d EXCEPT !.decoy = x] : x \in {"first", "after"}}
    \cup {[d EXCEPT !.entry = "immdir"], [d EXCEPT !.entry = "immdir", !.decoy = "first"]}
    \cup {[d EXCEPT !.imm = Restrict(d.imm, DOMAIN d.imm \ {n})] : n \in DOMAIN d.imm}
    \cup UNION {{[d EXCEPT !.imm = Restrict(d.imm, DOMAIN d.imm \ {n}), !.nonreg = (n :> e)] :
                    e \in NonRegKinds(d, n)} : n \in {m \in DOMAIN d.imm : m.ext = "chunk"}}
    \cup {[d EXCEPT !.imm[n] = c] : n \in DOMAIN d.imm, c \in Cids}
    \cup {[d EXCEPT !.imm = Extend(d.imm, n, c)] : n \in ImmNames \ DOMAIN d.imm, c \in {1}}

(* Mode "layouts": the second node's disk is the first one's or one atomic change away; no  *)
(*                 file changes while the nodes run.                                         *)
(* Mode "live"   : one node; between its computations files change on disk (a byte, another  *)
(*                 file's content, a file removed / added within or beyond the beacon) and   *)
(*                 the digester objects may be restarted; a second node with a fresh,        *)
(*                 cache-less digester computes over the disk as the first one left it.      *)
Init ==
    /\ \E last \in 0..MaxNum : \E imm \in [Trios(0, last) -> Cids] :
          \E v \in (IF Mode = "layouts" THEN Variants(Plain(imm)) ELSE {Plain(imm)}) :
             disk = (n1 :> Plain(imm)) @@ (n2 :> v)
    /\ cache = [n \in Nodes |-> <<>>]
    /\ inst = [n \in Nodes |-> <<>>]
    /\ tainted = [n \in Nodes |-> {}]
    /\ results = {}
    /\ steps = 0

Computes(node) ==
    \E c \in BOOLEAN :
        \/ \E b \in Nums : Compute(node, b, c)
        \/ \E lo \in Nums : \E hi \in lo..(MaxNum + 1) : ComputeRange(node, lo, hi, c)

(* "live": n2 mirrors n1's disk at the end and computes once, cold and without cache *)
Mirror ==
    /\ disk' = [disk EXCEPT ![n2] = disk[n1]]
    /\ steps' = steps + 1
    /\ UNCHANGED <<cache, inst, tainted, results>>

Next == /\ steps < MaxSteps
        /\ IF Mode = "layouts"
           THEN \/ Computes(n1)                       \* any cache history on the first node
                \/ \E b \in Nums : Compute(n2, b, FALSE)  \* the second one: cold, without cache
                \/ \E lo \in Nums : \E hi \in lo..(MaxNum + 1) : ComputeRange(n2, lo, hi, FALSE)
           ELSE \/ Computes(n1)
                \/ \E n \in ImmNames, c \in Cids \cup {-1} : Perturb(n1, n, c)
                \/ Restart(n1)
                \/ Mirror
                \/ \E b \in Nums : Compute(n2, b, FALSE)

Spec == Init /\ [][Next]_vars

(* vacuity guards (each must be VIOLATED when used as an invariant) *)
NoTwoOkSameCovered == ~\E r, s \in Judged : r # s /\ CoveredOf(r) = CoveredOf(s)
NoDecoyUsed        == \A r \in results : ~(r.ok /\ FoundDir(disk[r.node]) = "decoy")
NoStaleResult      == \A r \in results : ~r.stale
NoChangeSeen       == ~\E r, s \in Judged : r.node = s.node /\ ~r.cache /\ ~s.cache /\ r.op = s.op
                                            /\ r.lo = s.lo /\ r.beacon = s.beacon /\ r.root # s.root
=============================================================================
