--------------------------- MODULE MC_DbDigestGen ---------------------------
(* GEN for C12.  TLC enumerates abstract nodes (disk layout, creation order, history of      *)
(* digest computations) around a few base databases, one factor at a time, each with the     *)
(* outcome predicted by the implementation-shaped model (the sequence of content ids whose    *)
(* digests make up the root).  The harness realises each as a real directory and runs the     *)
(* real digester / signable builder.                                                          *)
(*                                                                                            *)
(* Content ids in a case:  0 empty file; 1..99 plain contents (99 = the decoy's);             *)
(* 100+c / 200+c / 300+c / 400+c = content c with its last byte flipped / first byte flipped  *)
(* / last byte removed / one byte appended (the single-byte perturbations of the property).   *)
EXTENDS DbDigest, Json

CONSTANTS n1, GenMaxNum, MaxHist,
          RangeHist     \* three-step range-warmed cache histories (pattern "distinct" only): "none",
                        \* "ends" (last step reads everything / all but the last trio), "full"

VARIABLES kase
gvars == <<kase, disk, cache, results, steps>>

Plain(imm) == [imm |-> imm, other |-> {}, bad |-> FALSE, decoy |-> "none", entry |-> "db"]
Restrict(f, S) == [x \in S |-> f[x]]
Extend(f, x, v) == [y \in DOMAIN f \cup {x} |-> IF y = x THEN v ELSE f[y]]

Patterns == {"distinct", "empty1", "equal2", "allempty"}
Index(n) == 3 * n.num + ExtRank[n.ext] - 1              \* 1, 2, 3, 4, ...
PatCid(p, n) ==
    CASE p = "distinct" -> Index(n)
      [] p = "empty1"   -> IF Index(n) = 2 THEN 0 ELSE Index(n)
      [] p = "equal2"   -> IF Index(n) = 3 THEN 1 ELSE Index(n)
      [] p = "allempty" -> 0
Base(last, p) == [n \in Trios(0, last) |-> PatCid(p, n)]

Perturbed(c) == IF c = 0 THEN {400} ELSE {100 + c, 200 + c, 300 + c, 400 + c}

(* history steps: [op, lo, hi, cache]; for op = "tree" hi is the beacon (lo = 0) *)
T(b, c)      == [op |-> "tree", lo |-> 0, hi |-> b, cache |-> c]
R(lo, hi, c) == [op |-> "range", lo |-> lo, hi |-> hi, cache |-> c]
One(b, c)    == <<T(b, c)>>

(* [d, order, hist, kind] *)
K(d, o, h, k) == [d |-> d, order |-> o, hist |-> h, kind |-> k]

CasesOf(last, p) ==
    LET imm == Base(last, p)
        d0  == Plain(imm)
        Bs  == 0..last
        Bx  == 0..(last + 1)
        St  == {T(b, c) : b \in Bx, c \in BOOLEAN}
        Rs  == {r \in {R(lo, hi, TRUE) : lo \in Bx, hi \in Bx} : r.lo <= r.hi}
        Cs  == {T(b, TRUE) : b \in Bx} \cup Rs              \* cached steps of both kinds
    IN
    (* cache histories: cold, warm, partially warm, warm from a longer / shorter run *)
       {K(d0, "asc", h, "hist") : h \in UNION {[1..k -> St] : k \in 1..MaxHist}}
    (* digests of every range, without cache *)
    \cup {K(d0, "asc", <<R(r.lo, r.hi, FALSE)>>, "range") : r \in Rs}
    (* cache warmed by a range computation -- a middle range, then possibly a second disjoint  *)
    (* range or a shorter / longer beacon: the cached names are not a prefix of the files --    *)
    (* then two further cached computations of either kind                                      *)
    \cup (IF RangeHist # "none" /\ last >= 1 /\ p = "distinct"
          THEN {K(d0, "asc", <<r, s, t>>, "rangehist") :
                   r \in Rs, s \in Cs,
                   t \in IF RangeHist = "full" THEN Cs
                         ELSE {T(last, TRUE), T(last - 1, TRUE), R(0, last, TRUE)}}
          ELSE {})
    (* other files *)
    \cup {K([d0 EXCEPT !.other = {k}], "asc", One(b, FALSE), "other") : k \in OtherKinds, b \in Bs}
    \cup {K([d0 EXCEPT !.other = OtherKinds], "asc", One(b, c), "other") : b \in Bs, c \in BOOLEAN}
    \cup {K([d0 EXCEPT !.bad = TRUE], "asc", One(b, FALSE), "badname") : b \in Bs}
    (* a second directory named immutable *)
    \cup {K([d0 EXCEPT !.decoy = x, !.entry = e], "asc", h, "decoy") :
             x \in {"first", "after"}, e \in {"db", "immdir"},
             h \in UNION {{One(b, FALSE), <<T(b, TRUE), T(b, TRUE)>>} : b \in Bs}}
    \cup {K([d0 EXCEPT !.entry = "immdir"], "asc", One(b, c), "entry") : b \in Bs, c \in BOOLEAN}
    (* creation order *)
    \cup {K(d0, o, One(b, FALSE), "order") : o \in {"desc", "shuffle1", "shuffle2"}, b \in Bs}
    (* files beyond the beacon: a further complete trio, a further partial trio *)
    \cup {K([d0 EXCEPT !.imm = [n \in Trios(0, last + 1) |-> IF n.num <= last THEN imm[n] ELSE 50 + ExtRank[n.ext]]],
            "asc", One(b, FALSE), "beyond") : b \in Bx}
    \cup {K([d0 EXCEPT !.imm = Extend(imm, [num |-> last + 1, ext |-> "chunk"], 51)],
            "asc", One(b, FALSE), "beyond") : b \in Bx}
    (* single-byte and single-file perturbations of covered and non-covered files *)
    \cup UNION {{K([d0 EXCEPT !.imm[n] = c], "asc", One(b, FALSE), "perturb") :
                    c \in Perturbed(imm[n]), b \in Bs} : n \in DOMAIN imm}
    \cup {K([d0 EXCEPT !.imm = Restrict(imm, DOMAIN imm \ {n})], "asc", One(b, FALSE), "remove") :
             n \in DOMAIN imm, b \in Bs}

(* the model's prediction along a history *)
RECURSIVE Predict(_, _, _)
Predict(d, cm, hist) ==
    IF hist = <<>> THEN <<>>
    ELSE LET st == Head(hist)
             o  == StepOutcome(d, cm, st)
             ds == IF ~o.ok THEN <<>>
                   ELSE IF st.op = "tree" THEN o.root[2]                       \* Root(digests)
                   ELSE [i \in DOMAIN o.root[2] |-> o.root[2][i][2]]           \* <<name, digest>> pairs
         IN  <<[ok |-> o.ok, cids |-> [i \in DOMAIN ds |-> ds[i][2]]]>>
             \o Predict(d, o.newc, Tail(hist))

ImmSeq(d) == LET s == SortNames(DOMAIN d.imm) IN
             [i \in DOMAIN s |-> [num |-> s[i].num, ext |-> s[i].ext, cid |-> d.imm[s[i]]]]

Init ==
    /\ \E last \in 0..GenMaxNum, p \in Patterns : kase \in CasesOf(last, p)
    /\ disk = (n1 :> kase.d) /\ cache = (n1 :> <<>>) /\ results = {} /\ steps = 0
Next == UNCHANGED gvars
Spec == Init /\ [][Next]_gvars

GenPrint ==
    PrintT(<<"CASE", ToJson([kind |-> kase.kind, imm |-> ImmSeq(kase.d), other |-> kase.d.other,
                             bad |-> kase.d.bad, decoy |-> kase.d.decoy, entry |-> kase.d.entry,
                             order |-> kase.order, hist |-> kase.hist,
                             pred |-> Predict(kase.d, <<>>, kase.hist)])>>)
=============================================================================
