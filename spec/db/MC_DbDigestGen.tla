--------------------------- MODULE MC_DbDigestGen ---------------------------
(* GEN for C12.  TLC enumerates abstract nodes (disk layout, creation order, history of      *)
(* digest computations) around a few base databases, one factor at a time, each with the     *)
(* outcome predicted by the implementation-shaped model (the sequence of content ids whose    *)
(* digests make up the root).  The harness realises each as a real directory and runs the     *)
(* real digester / signable builder.                                                          *)
(*                                                                                            *)
(* Content ids in a case:  0 empty file; 1..99 plain contents (99 = the decoy's);             *)
(* 100+c / 200+c / 300+c / 400+c = content c with its last byte flipped / first byte flipped  *)
(* / last byte removed / one byte appended (the single-byte perturbations of the property).   *)
EXTENDS DbDigest, Json

CONSTANTS n1, GenMaxNum, MaxHist,
          LivePatterns, \* content patterns for which the "live" histories are generated
          LiveFull,     \* all first computations / restart variants of the "live" histories
          RangeHist     \* three-step range-warmed cache histories (pattern "distinct" only): "none",
                        \* "ends" (last step reads everything / all but the last trio), "full"

VARIABLES kase
gvars == <<kase, disk, cache, inst, tainted, results, steps>>

NoNonReg   == [n \in {} |-> [k |-> "dir", cid |-> -1]]
Plain(imm) == [imm |-> imm, nonreg |-> NoNonReg, other |-> {}, bad |-> FALSE, decoy |-> "none", entry |-> "db"]
Restrict(f, S) == [x \in S |-> f[x]]
Extend(f, x, v) == [y \in DOMAIN f \cup {x} |-> IF y = x THEN v ELSE f[y]]

Patterns == {"distinct", "empty1", "equal2", "allempty"}
Index(n) == 3 * n.num + ExtRank[n.ext] - 1              \* 1, 2, 3, 4, ...
(* under the name of file n: a directory, a link to nothing, a link to a file of the same / another content *)
NonRegKinds(d, n) == {[k |-> "dir", cid |-> -1], [k |-> "dangling", cid |-> -1],
                      [k |-> "link", cid |-> d.imm[n]], [k |-> "link", cid |-> 40 + Index(n)]}
PatCid(p, n) ==
    CASE p = "distinct" -> Index(n)
      [] p = "empty1"   -> IF Index(n) = 2 THEN 0 ELSE Index(n)
      [] p = "equal2"   -> IF Index(n) = 3 THEN 1 ELSE Index(n)
      [] p = "allempty" -> 0
Base(last, p) == [n \in Trios(0, last) |-> PatCid(p, n)]

Perturbed(c) == IF c = 0 THEN {400} ELSE {100 + c, 200 + c, 300 + c, 400 + c}

(* history steps [op, lo, hi, cache, num, ext, cid]:                                          *)
(*   "tree" (hi = the beacon) / "range" (lo..hi): a computation by the node's long-lived      *)
(*       cache-less (cache = FALSE) or cached digester object                                  *)
(*   "perturb": the file <num>.<ext> gets the content cid on disk (-1: it is removed)          *)
(*   "restart": the digester objects are dropped and built again                               *)
T(b, c)      == [op |-> "tree", lo |-> 0, hi |-> b, cache |-> c, num |-> -1, ext |-> "", cid |-> -1]
R(lo, hi, c) == [op |-> "range", lo |-> lo, hi |-> hi, cache |-> c, num |-> -1, ext |-> "", cid |-> -1]
P(n, c)      == [op |-> "perturb", lo |-> 0, hi |-> 0, cache |-> FALSE, num |-> n.num, ext |-> n.ext, cid |-> c]
Rst          == [op |-> "restart", lo |-> 0, hi |-> 0, cache |-> FALSE, num |-> -1, ext |-> "", cid |-> -1]
One(b, c)    == <<T(b, c)>>

(* [d, order, hist, kind] *)
K(d, o, h, k) == [d |-> d, order |-> o, hist |-> h, kind |-> k]

CasesOf(last, p) ==
    LET imm == Base(last, p)
        d0  == Plain(imm)
        Bs  == 0..last
        Bx  == 0..(last + 1)
        St  == {T(b, c) : b \in Bx, c \in BOOLEAN}
        Rs  == {r \in {R(lo, hi, TRUE) : lo \in Bx, hi \in Bx} : r.lo <= r.hi}
        Cs  == {T(b, TRUE) : b \in Bx} \cup Rs              \* cached steps of both kinds
    IN
    (* cache histories: cold, warm, partially warm, warm from a longer / shorter run *)
       {K(d0, "asc", h, "hist") : h \in UNION {[1..k -> St] : k \in 1..MaxHist}}
    (* digests of every range, without cache *)
    \cup {K(d0, "asc", <<R(r.lo, r.hi, FALSE)>>, "range") : r \in Rs}
    (* cache warmed by a range computation -- a middle range, then possibly a second disjoint  *)
    (* range or a shorter / longer beacon: the cached names are not a prefix of the files --    *)
    (* then two further cached computations of either kind                                      *)
    \cup (IF RangeHist # "none" /\ last >= 1 /\ p = "distinct"
          THEN {K(d0, "asc", <<r, s, t>>, "rangehist") :
                   r \in Rs, s \in Cs,
                   t \in IF RangeHist = "full" THEN Cs
                         ELSE {T(last, TRUE), T(last - 1, TRUE), R(0, last, TRUE)}}
          ELSE {})
    (* ONE long-lived cache-less digester object computes, a covered file then changes on disk (a *)
    (* byte, another file's content, removed), and the same object (or, after a restart, a new    *)
    (* one) computes again; also a file added within / beyond the beacon                          *)
    \cup (IF p \in LivePatterns
          THEN LET First == IF LiveFull THEN {T(last, FALSE), R(0, last, FALSE)} ELSE {T(last, FALSE)}
                   Again(n) == {T(last, FALSE), R(0, last, FALSE), R(n.num, n.num, FALSE)}
                   Other(n) == imm[CHOOSE m \in DOMAIN imm : m # n \/ last = -1]
                   Chg(n)   == Perturbed(imm[n]) \cup {-1} \cup (IF Cardinality(DOMAIN imm) > 1 THEN {Other(n)} ELSE {})
               IN  UNION {{K(d0, "asc", <<c1, P(n, c), c2>>, "live") : c1 \in First, c \in Chg(n), c2 \in Again(n)}
                          \cup {K(d0, "asc", <<c1, P(n, c), Rst, c2>>, "live") :
                                  c1 \in First, c \in (IF LiveFull THEN Chg(n) ELSE {-1, 100 + imm[n]}), c2 \in {T(last, FALSE)}}
                          \cup {K([d0 EXCEPT !.imm = Restrict(imm, DOMAIN imm \ {n})], "asc",
                                  <<c1, P(n, imm[n]), c2>>, "live") : c1 \in {R(0, last, FALSE)}, c2 \in Again(n)}
                          (* an explicit cache may be stale after the change; a cache-less digester may not *)
                          \cup {K(d0, "asc", <<T(last, TRUE), P(n, c), T(last, TRUE), T(last, FALSE)>>, "livecache") :
                                  c \in {-1, 400 + imm[n]}}
                          : n \in DOMAIN imm}
                   \cup {K(d0, "asc", <<T(last, FALSE), P([num |-> last + 1, ext |-> e], 51), T(last + 1, FALSE), T(last, FALSE)>>,
                           "live") : e \in ImmExt}
          ELSE {})
    (* other files *)
    \cup {K([d0 EXCEPT !.other = {k}], "asc", One(b, FALSE), "other") : k \in OtherKinds, b \in Bs}
    \cup {K([d0 EXCEPT !.other = OtherKinds], "asc", One(b, c), "other") : b \in Bs, c \in BOOLEAN}
    \cup {K([d0 EXCEPT !.bad = TRUE], "asc", One(b, FALSE), "badname") : b \in Bs}
    (* a second directory named immutable *)
    \cup {K([d0 EXCEPT !.decoy = x, !.entry = e], "asc", h, "decoy") :
             x \in {"first", "after"}, e \in {"db", "immdir"},
             h \in UNION {{One(b, FALSE), <<T(b, TRUE), T(b, TRUE)>>} : b \in Bs}}
    \cup {K([d0 EXCEPT !.entry = "immdir"], "asc", One(b, c), "entry") : b \in Bs, c \in BOOLEAN}
    (* creation order *)
    \cup {K(d0, o, One(b, FALSE), "order") : o \in {"desc", "shuffle1", "shuffle2"}, b \in Bs}
    (* files beyond the beacon: a further complete trio, a further partial trio *)
    \cup {K([d0 EXCEPT !.imm = [n \in Trios(0, last + 1) |-> IF n.num <= last THEN imm[n] ELSE 50 + ExtRank[n.ext]]],
            "asc", One(b, FALSE), "beyond") : b \in Bx}
    \cup {K([d0 EXCEPT !.imm = Extend(imm, [num |-> last + 1, ext |-> "chunk"], 51)],
            "asc", One(b, FALSE), "beyond") : b \in Bx}
    (* single-byte and single-file perturbations of covered and non-covered files *)
    \cup UNION {{K([d0 EXCEPT !.imm[n] = c], "asc", One(b, FALSE), "perturb") :
                    c \in Perturbed(imm[n]), b \in Bs} : n \in DOMAIN imm}
    \cup {K([d0 EXCEPT !.imm = Restrict(imm, DOMAIN imm \ {n})], "asc", One(b, FALSE), "remove") :
             n \in DOMAIN imm, b \in Bs}
    (* a directory / symbolic link under the name of an immutable file *)
    \cup UNION {{K([d0 EXCEPT !.imm = Restrict(imm, DOMAIN imm \ {n}), !.nonreg = (n :> e)], "asc", h, "nonreg") :
                    e \in (IF p \in LivePatterns THEN NonRegKinds(d0, n) ELSE {}),
                    h \in {One(last, FALSE), <<T(last, TRUE), T(last, TRUE)>>, <<R(0, last, FALSE)>>}} : n \in DOMAIN imm}

(* the model's prediction along a history *)
(* the model's prediction along a history: disk, cache file, instance memory and tainted  *)
(* names are threaded through the steps                                                    *)
SetFile(d, n, c) ==
    [d EXCEPT !.imm = IF c = -1 THEN [m \in DOMAIN @ \ {n} |-> @[m]]
                      ELSE [m \in DOMAIN @ \cup {n} |-> IF m = n THEN c ELSE @[m]]]
RECURSIVE Predict(_, _, _, _, _)
Predict(d, cm, im, tn, hist) ==
    IF hist = <<>> THEN <<>>
    ELSE LET st == Head(hist) IN
         IF st.op = "perturb"
         THEN LET n == [num |-> st.num, ext |-> st.ext] IN
              <<[ok |-> TRUE, cids |-> <<>>, stale |-> FALSE]>>
              \o Predict(SetFile(d, n, st.cid), cm, im, tn \cup ({n} \cap DOMAIN cm), Tail(hist))
         ELSE IF st.op = "restart"
         THEN <<[ok |-> TRUE, cids |-> <<>>, stale |-> FALSE]>> \o Predict(d, cm, <<>>, tn, Tail(hist))
         ELSE LET o  == StepOutcome(d, cm, im, st)
                  ds == IF ~o.ok THEN <<>>
                        ELSE IF st.op = "tree" THEN o.root[2]                       \* Root(digests)
                        ELSE [i \in DOMAIN o.root[2] |-> o.root[2][i][2]]           \* <<name, digest>> pairs
              IN  <<[ok |-> o.ok, cids |-> [i \in DOMAIN ds |-> ds[i][2]],
                     stale |-> st.cache /\ Processed(d, st) \cap tn # {}]>>
                  \o Predict(d, IF st.cache THEN o.newc ELSE cm,
                             IF ~st.cache /\ InstanceMemory THEN o.newc ELSE im, tn, Tail(hist))

ImmSeq(d) == LET s == SortNames(DOMAIN d.imm) IN
             [i \in DOMAIN s |-> [num |-> s[i].num, ext |-> s[i].ext, cid |-> d.imm[s[i]]]]

Init ==
    /\ \E last \in 0..GenMaxNum, p \in Patterns : kase \in CasesOf(last, p)
    /\ disk = (n1 :> kase.d) /\ cache = (n1 :> <<>>) /\ inst = (n1 :> <<>>) /\ tainted = (n1 :> {})
    /\ results = {} /\ steps = 0
Next == UNCHANGED gvars
Spec == Init /\ [][Next]_gvars

GenPrint ==
    PrintT(<<"CASE", ToJson([kind |-> kase.kind, imm |-> ImmSeq(kase.d), other |-> kase.d.other,
                             nonreg |-> LET q == SortNames(DOMAIN kase.d.nonreg) IN
                                        [i \in DOMAIN q |-> [num |-> q[i].num, ext |-> q[i].ext,
                                                             k |-> kase.d.nonreg[q[i]].k, cid |-> kase.d.nonreg[q[i]].cid]],
                             bad |-> kase.d.bad, decoy |-> kase.d.decoy, entry |-> kase.d.entry,
                             order |-> kase.order, hist |-> kase.hist,
                             pred |-> Predict(kase.d, <<>>, <<>>, {}, kase.hist)])>>)
=============================================================================
