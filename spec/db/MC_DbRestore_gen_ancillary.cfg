CONSTANTS
    MaxN = 2
    Universe = "ancillary"
    UnpackStaged = FALSE
    ManifestHashInjective = FALSE
    ExcuseImmArchive = TRUE
    ExcuseMerged = TRUE
SPECIFICATION Spec
INVARIANTS GenPrint
CHECK_DEADLOCK FALSE
