CONSTANTS
    N = 2
    Pat = "distinct"
    ServedU = "atomic"
    DirU = "atomic"
    PerNameOnSuccess = FALSE
    ListNamesCanonical = FALSE
    FindPrefersDirectChild = FALSE
    ExcuseMisplaced = TRUE
    ExcuseDecoy = TRUE
SPECIFICATION Spec
INVARIANTS DigestsSound VerifySound
CHECK_DEADLOCK FALSE
