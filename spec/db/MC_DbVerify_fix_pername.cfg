CONSTANTS
    N = 1
    Pat = "distinct"
    ServedU = "increasing"
    DirU = "fromServed"
    AllDirOptions = {0, 1, 2, 3}
    PerNameOnSuccess = TRUE
    ListNamesCanonical = FALSE
    FindPrefersDirectChild = TRUE
    NonRegularRefused = FALSE
    ExcuseNonRegular = TRUE
    ExcuseMisplaced = FALSE
    ExcuseDecoy = FALSE
SPECIFICATION Spec
INVARIANTS VerifySound
CHECK_DEADLOCK FALSE
