------------------------------ MODULE DbVerify ------------------------------
(***************************************************************************)
(* C10 -- a restored Cardano database is accepted only if every file is    *)
(* the certified one.                                                      *)
(*                                                                         *)
(* Implementation-shaped model of                                          *)
(*   mithril-client/src/cardano_database_client/proving.rs                 *)
(*       InternalArtifactProver::download_and_verify_digests               *)
(*           (read_digest_file, filter, MKTree::new,                       *)
(*            check_merkle_root_is_signed_by_certificate)                  *)
(*       InternalArtifactProver::verify_cardano_database                   *)
(*           (list_missing_immutable_files, compute_digests_for_range,     *)
(*            MKTree::compute_proof, VerifiedDigests::                     *)
(*            list_immutable_files_not_verified)                           *)
(*   mithril-client/src/cardano_database_client/immutable_file_range.rs    *)
(*   mithril-client/src/message.rs  compute_cardano_database_message       *)
(*   (+ ImmutableFile::list_all_in_dir, see DbDigest.tla)                  *)
(*                                                                         *)
(* The certified database has the complete trios 0..N (beacon N); `cert`   *)
(* maps each of their names to its content id (the digest, Digest being    *)
(* injective); the certificate signs                                       *)
(* Root(<<Digest(cert[n]) : n in name order>>).                            *)
(*                                                                         *)
(* served   what the mirror serves as digest list: a sequence of           *)
(*          [name, cid] -- any names (num = -1: a name whose stem is not a *)
(*          number), any order, entries dropped / added / repeated         *)
(* dir      the restored directory:                                        *)
(*            imm    partial function name -> cid : the REGULAR files      *)
(*                   <db>/immutable/<name>                                 *)
(*            nonreg partial function name -> [k, cid] (names not in imm): *)
(*                   what else sits under an immutable file name:          *)
(*                   k = "dir"      a directory                            *)
(*                   k = "link"     a symbolic link to a regular file of   *)
(*                                  content cid (a copy elsewhere, another *)
(*                                  immutable of the directory, anything)  *)
(*                   k = "dangling" a symbolic link to nothing (cid = -1)  *)
(*            decoy  "none" | "first" | "after": a second directory        *)
(*                   <db>/<x>/immutable holding a copy of the certified    *)
(*                   files, <x> before / after "immutable" in readdir order*)
(***************************************************************************)
EXTENDS CardanoDb

CONSTANTS
    PerNameOnSuccess,        \* FALSE: code as it is (membership proof only on the success path)
                             \* TRUE : proposed fix, per-name comparison also on the success path
    ListNamesCanonical,      \* FALSE: code as it is; TRUE: proposed fix, only canonical names
                             \*        <number:05>.<chunk|primary|secondary> of the served list are kept
    FindPrefersDirectChild,  \* see DbDigest.tla (C12)
    NonRegularRefused        \* FALSE: code as it is: a name under which something other than a regular
                             \*        file sits is neither hashed (is_file) nor missing (exists)
                             \* TRUE : proposed fix, such a name of the range is reported as non verifiable

-----------------------------------------------------------------------------
(* certified side *)
CertRoot(cert) == LET s == SortNames(DOMAIN cert) IN Root([i \in DOMAIN s |-> Digest(cert[s[i]])])

(* ImmutableFileRange::to_range_inclusive(last) ; [ok, lo, hi] *)
ToRange(r, N) ==
    CASE r.kind = "full"  -> [ok |-> TRUE, lo |-> 0, hi |-> N]
      [] r.kind = "from"  -> [ok |-> r.a \in 0..N, lo |-> r.a, hi |-> N]
      [] r.kind = "upto"  -> [ok |-> r.b \in 0..N, lo |-> 0, hi |-> r.b]
      [] r.kind = "range" -> [ok |-> r.a \in 0..N /\ r.b \in 0..N /\ r.a <= r.b, lo |-> r.a, hi |-> r.b]

-----------------------------------------------------------------------------
(* The code.                                                                *)

(* read_digest_file: collected into a BTreeMap -- a later entry of the same name wins *)
ServedNames(served) == {served[i].name : i \in DOMAIN served}
ServedMap(served) ==
    [n \in ServedNames(served) |->
        served[CHOOSE i \in DOMAIN served :
                  served[i].name = n /\ \A j \in DOMAIN served : served[j].name = n => j <= i].cid]

(* download_and_verify_digests(certificate, snapshot) ; signedRoot: what the certificate signs *)
(* [ok, digests (name -> cid), leaves (sequence of cid)]                                        *)
DownloadVerifyDigests(served, N, signedRoot) ==
    LET m    == ServedMap(served)
        keep == {n \in DOMAIN m : /\ n.num >= 0 /\ n.num <= N   \* ImmutableFile::new(name).number <= beacon
                                  /\ ListNamesCanonical => n.ext \in ImmExt}
        s    == SortNames(keep)                                  \* BTreeMap order = file name order
        lv   == [i \in DOMAIN s |-> m[s[i]]]
    IN  [ok      |-> Root([i \in DOMAIN lv |-> Digest(lv[i])]) = signedRoot,
         digests |-> [n \in keep |-> m[n]],
         leaves  |-> lv]

(* the directory compute_digests_for_range reads (find_immutables_dir, see C12) *)
ReadDir(dir, cert) ==
    IF FindPrefersDirectChild \/ dir.decoy # "first" THEN dir.imm ELSE cert

(* Path::exists follows links: true for a directory and for a link to something *)
Exists(e) == e.k \in {"dir", "link"}

(* verify_cardano_database(.., range, allow_missing, db_dir, verified_digests) *)
VerifyDb(vd, dir, cert, lo, hi, allowMissing) ==
    LET missing  == IF allowMissing THEN {}                                 \* list_missing_immutable_files:
                    ELSE {n \in Trios(lo, hi) :                             \* <db>/immutable/<name>.exists()
                             /\ n \notin DOMAIN dir.imm
                             /\ ~(n \in DOMAIN dir.nonreg /\ Exists(dir.nonreg[n]))}
        rd       == ReadDir(dir, cert)       \* is_immutable: entry.file_type().is_file(), links not followed
        inRange  == {n \in DOMAIN rd : lo <= n.num /\ n.num <= hi}
        proofOk  == \A n \in inRange : rd[n] \in Range(vd.leaves)          \* MKTree::compute_proof: membership
        perName  == \A n \in inRange : n \in DOMAIN vd.digests /\ vd.digests[n] = rd[n]
        unhashed == {n \in DOMAIN dir.nonreg : lo <= n.num /\ n.num <= hi}  \* something is there, not hashed
    IN  /\ proofOk /\ missing = {}
        /\ PerNameOnSuccess => perName
        /\ NonRegularRefused => unhashed = {}

(* the whole client flow: digests, verification, message recomputed from the proof's root *)
AcceptImpl(served, dir, cert, N, r, allowMissing) ==
    LET vd == DownloadVerifyDigests(served, N, CertRoot(cert))
        rg == ToRange(r, N)
    IN  /\ vd.ok /\ rg.ok
        /\ VerifyDb(vd, dir, cert, rg.lo, rg.hi, allowMissing)

-----------------------------------------------------------------------------
(* The property (C10), independent of the code.                             *)

(* The files of the directory as a reader gets them: the regular files and, through a   *)
(* link, the regular file it leads to.  (Whether a link may stand for the file is not    *)
(* decided by the property; reading it this way never asks more than the other way.)     *)
(* A directory or a dangling link under a name is no file: the name is absent.           *)
Files(dir) ==
    [n \in DOMAIN dir.imm \cup {m \in DOMAIN dir.nonreg : dir.nonreg[m].k = "link"} |->
        IF n \in DOMAIN dir.imm THEN dir.imm[n] ELSE dir.nonreg[n].cid]

(* each immutable file in the requested range is present (unless the caller allowed  *)
(* gaps) and its content hashes to the digest the certified list assigns to that     *)
(* very file name                                                                    *)
AcceptRule(dir, cert, lo, hi, allowMissing) ==
    LET f == Files(dir) IN
    /\ \A n \in Trios(lo, hi) : n \in DOMAIN f \/ allowMissing
    /\ \A n \in DOMAIN f :
          (lo <= n.num /\ n.num <= hi) => (n \in DOMAIN cert /\ f[n] = cert[n])

(* the digest list itself reproduces the Merkle root signed in the certificate: the root   *)
(* over its entries numbered up to the beacon, in file name order -- either over all of    *)
(* them or over those naming immutable files (an implementation may ignore or refuse       *)
(* entries that name no immutable file; both are fine)                                     *)
ServedRootOver(served, keep(_)) ==
    LET m == ServedMap(served)
        s == SortNames({n \in DOMAIN m : keep(n)})
    IN  Root([i \in DOMAIN s |-> Digest(m[s[i]])])
ServedRoot(served, N)      == ServedRootOver(served, LAMBDA n : n.num >= 0 /\ n.num <= N)
ServedRootCanon(served, N) == ServedRootOver(served, LAMBDA n : n.num >= 0 /\ n.num <= N /\ n.ext \in ImmExt)
Reproduces(served, N, signedRoot) ==
    signedRoot \in {ServedRoot(served, N), ServedRootCanon(served, N)}

(* classification used by the excuse of the known finding: every wrong file in range  *)
(* carries some certified content (under the wrong name), nothing missing, none foreign *)
OnlyMisplaced(dir, cert, lo, hi, allowMissing) ==
    /\ \A n \in Trios(lo, hi) : n \in DOMAIN dir.imm \/ allowMissing
    /\ \A n \in DOMAIN dir.imm : (lo <= n.num /\ n.num <= hi) => dir.imm[n] \in Range(cert)

(* excuse of the known findings about entries that are no regular files: leaving those   *)
(* names aside (as gaps) the directory satisfies the rule                                *)
OnlyNonRegular(dir, cert, lo, hi, allowMissing) ==
    /\ \E n \in DOMAIN dir.nonreg : lo <= n.num /\ n.num <= hi
    /\ \A n \in Trios(lo, hi) : n \in DOMAIN dir.imm \cup DOMAIN dir.nonreg \/ allowMissing
    /\ \A n \in DOMAIN dir.imm :
          (lo <= n.num /\ n.num <= hi) => (n \in DOMAIN cert /\ dir.imm[n] = cert[n])
=============================================================================
