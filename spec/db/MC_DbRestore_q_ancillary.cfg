CONSTANTS
    MaxN = 2
    Universe = "ancillary"
    UnpackStaged = FALSE
    ListedMustBeRegular = FALSE
    ManifestHashInjective = FALSE
    ExcuseImmArchive = TRUE
    ExcuseAncLink = TRUE
    ExcuseMerged = TRUE
SPECIFICATION Spec
INVARIANTS OnlyAllowed RefusalTouchesNothing
CHECK_DEADLOCK FALSE
