CONSTANTS
    N = 1
    Pat = "distinct"
    ServedU = "honest"
    DirU = "atomic"
    AllDirOptions = {0, 1, 2, 3}
    PerNameOnSuccess = FALSE
    ListNamesCanonical = FALSE
    FindPrefersDirectChild = FALSE
    ExcuseMisplaced = FALSE
    ExcuseDecoy = FALSE
SPECIFICATION Spec
INVARIANTS VerifySound
CHECK_DEADLOCK FALSE
