CONSTANTS
    N = 1
    Pat = "distinct"
    ServedU = "honest"
    DirU = "atomic"
    AllDirOptions = {0, 1, 2, 3}
    PerNameOnSuccess = FALSE
    ListNamesCanonical = FALSE
    FindPrefersDirectChild = FALSE
    NonRegularRefused = FALSE
    ExcuseNonRegular = TRUE
    ExcuseMisplaced = FALSE
    ExcuseDecoy = FALSE
SPECIFICATION Spec
INVARIANTS VerifySound
CHECK_DEADLOCK FALSE
