CONSTANTS
    N = 2
    Pat = "distinct"
    ServedU = "honest"
    DirU = "atomic"
    AllDirOptions = {0, 1, 2, 3}
    PerNameOnSuccess = FALSE
    ListNamesCanonical = FALSE
    FindPrefersDirectChild = FALSE
    NonRegularRefused = FALSE
    ExcuseNonRegular = TRUE
    ExcuseMisplaced = TRUE
    ExcuseDecoy = TRUE
SPECIFICATION Spec
INVARIANTS GenPrint
CHECK_DEADLOCK FALSE
