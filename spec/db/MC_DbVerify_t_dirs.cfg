CONSTANTS
    N = 2
    Pat = "distinct"
    ServedU = "honest"
    DirU = "all"
    AllDirOptions = {0, 1, 2}
    PerNameOnSuccess = FALSE
    ListNamesCanonical = FALSE
    FindPrefersDirectChild = FALSE
    NonRegularRefused = FALSE
    ExcuseNonRegular = TRUE
    ExcuseMisplaced = TRUE
    ExcuseDecoy = TRUE
SPECIFICATION Spec
INVARIANTS DigestsSound VerifySound
CHECK_DEADLOCK FALSE
