CONSTANTS
    MaxN = 2
    Universe = "ancillary"
    UnpackStaged = FALSE
    ManifestHashInjective = FALSE
    ExcuseImmArchive = TRUE
    ExcuseMerged = FALSE
SPECIFICATION Spec
INVARIANTS OnlyAllowed
CHECK_DEADLOCK FALSE
