CONSTANTS
    MaxN = 2
    Universe = "ancillary"
    UnpackStaged = FALSE
    ListedMustBeRegular = FALSE
    ManifestHashInjective = FALSE
    ExcuseImmArchive = TRUE
    ExcuseAncLink = TRUE
    ExcuseMerged = FALSE
SPECIFICATION Spec
INVARIANTS OnlyAllowed
CHECK_DEADLOCK FALSE
