CONSTANTS
    MaxN = 2
    Universe = "hostile"
    UnpackStaged = FALSE
    ManifestHashInjective = FALSE
    ExcuseImmArchive = FALSE
    ExcuseMerged = TRUE
SPECIFICATION Spec
INVARIANTS OnlyAllowed
CHECK_DEADLOCK FALSE
