CONSTANTS
    MaxN = 2
    Universe = "hostile"
    UnpackStaged = FALSE
    ListedMustBeRegular = FALSE
    ManifestHashInjective = FALSE
    ExcuseImmArchive = FALSE
    ExcuseAncLink = TRUE
    ExcuseMerged = TRUE
SPECIFICATION Spec
INVARIANTS OnlyAllowed
CHECK_DEADLOCK FALSE
