CONSTANTS
    MaxN = 2
    Universe = "failures"
    UnpackStaged = TRUE
    ManifestHashInjective = TRUE
    ExcuseImmArchive = FALSE
    ExcuseMerged = FALSE
SPECIFICATION Spec
INVARIANTS OnlyAllowed RefusalTouchesNothing
CHECK_DEADLOCK FALSE
