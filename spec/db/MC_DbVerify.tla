---------------------------- MODULE MC_DbVerify ----------------------------
(* C10: every served digest list / restored directory / range / allow-missing flag of a    *)
(* bounded universe, through the implementation-shaped client flow.                        *)
EXTENDS DbVerify, Json

CONSTANTS
    N,                 \* beacon = last certified immutable number
    Pat,               \* "distinct": pairwise distinct certified contents;
                       \* "equal2": 00000.chunk and 00000.secondary have the same content
    ServedU,           \* "honest" | "atomic" | "increasing"
    DirU,              \* "honest" | "atomic" | "all" | "fromServed"
    AllDirOptions,     \* DirU = "all": per file a subset of {0 absent, 1 its own content, 2 another
                       \* certified content, 3 a foreign content}
    ExcuseMisplaced,   \* KNOWN_FINDINGS C10-content-not-bound-to-name
    ExcuseDecoy,       \* KNOWN_FINDINGS C10-nested-immutable-dir
    ExcuseNonRegular   \* KNOWN_FINDINGS C10-non-regular-entry-*

VARIABLES served, dir, r, allowMissing,
          phase      \* 0: nothing chosen; 1: served list, range, flag chosen; 2: directory chosen
                     \* (two steps only so that TLC's workers share the enumeration)
vars == <<served, dir, r, allowMissing, phase>>

Index(n) == 3 * n.num + ExtRank[n.ext] - 1
Cert     == [n \in Trios(0, N) |-> IF Pat = "equal2" /\ Index(n) = 3 THEN 1 ELSE Index(n)]
Foreign  == 70
CertSeq  == SortNames(DOMAIN Cert)
Honest   == [i \in DOMAIN CertSeq |-> [name |-> CertSeq[i], cid |-> Cert[CertSeq[i]]]]
NoNonReg  == [n \in {} |-> [k |-> "dir", cid |-> -1]]
HonestDir == [imm |-> Cert, decoy |-> "none", nonreg |-> NoNonReg]

AllNames == [num : 0..(N + 1), ext : AllExt] \cup {[num |-> -1, ext |-> "chunk"]}

Restrict(f, S) == [x \in S |-> f[x]]
Extend(f, x, v) == [y \in DOMAIN f \cup {x} |-> IF y = x THEN v ELSE f[y]]
Reverse(s) == [i \in DOMAIN s |-> s[Len(s) + 1 - i]]
Remove(s, i) == SubSeq(s, 1, i - 1) \o SubSeq(s, i + 1, Len(s))

AtomicServed ==
    {Honest, Reverse(Honest)}
    \cup {[Honest EXCEPT ![i].name = x] : i \in DOMAIN Honest, x \in AllNames}
    \cup {Remove(Honest, i) : i \in DOMAIN Honest}
    \cup {Append(Honest, [name |-> x, cid |-> c]) : x \in AllNames, c \in {Foreign, 1}}
    \cup {<<[name |-> Honest[i].name, cid |-> Foreign]>> \o Honest : i \in DOMAIN Honest}
    \cup {[Honest EXCEPT ![i].cid = Honest[j].cid, ![j].cid = Honest[i].cid] : i, j \in DOMAIN Honest}
    \cup {[Honest EXCEPT ![i].cid = Foreign] : i \in DOMAIN Honest}

(* every list of 3(N+1) strictly increasing names (numbers 0..N, any extension) carrying the *)
(* certified digests in order: exactly the lists of that length the root check cannot tell   *)
(* from the honest one                                                                        *)
IncNames == [num : 0..N, ext : AllExt]
RECURSIVE IncSeqs(_, _)
IncSeqs(k, S) ==    \* strictly increasing sequences of length k over S
    IF k = 0 THEN {<<>>}
    ELSE UNION {{<<x>> \o t : t \in IncSeqs(k - 1, {y \in S : NameLess(x, y)})} : x \in S}
IncreasingServed ==
    {[i \in DOMAIN Honest |-> [name |-> s[i], cid |-> Honest[i].cid]] : s \in IncSeqs(Len(Honest), IncNames)}

Other(n) == LET i == CHOOSE i \in DOMAIN CertSeq : CertSeq[i] = n
            IN  Cert[CertSeq[(i % Len(CertSeq)) + 1]]
NonRegKinds(n) == {[k |-> "dir", cid |-> -1], [k |-> "dangling", cid |-> -1],
                   [k |-> "link", cid |-> Cert[n]], [k |-> "link", cid |-> Other(n)], [k |-> "link", cid |-> Foreign]}

AtomicDir ==
    {HonestDir}
    \cup {[HonestDir EXCEPT !.imm[n] = c] : n \in DOMAIN Cert, c \in {Foreign, 0} \cup Range(Cert)}
    \cup {[HonestDir EXCEPT !.imm = Restrict(Cert, DOMAIN Cert \ {n})] : n \in DOMAIN Cert}
    \cup {[HonestDir EXCEPT !.imm[n] = Cert[m], !.imm[m] = Cert[n]] : n, m \in DOMAIN Cert}
    \cup {[HonestDir EXCEPT !.imm = Extend(Cert, [num |-> N + 1, ext |-> "chunk"], 71)]}
    \cup {[HonestDir EXCEPT !.decoy = d] : d \in {"first", "after"}}
    \cup {[HonestDir EXCEPT !.decoy = d, !.imm[n] = Foreign] : d \in {"first", "after"}, n \in DOMAIN Cert}
    (* under the name of a certified file: a directory, a link to a copy of the genuine file, to  *)
    (* another certified content, to a foreign content, to nothing                               *)
    \cup UNION {{[HonestDir EXCEPT !.imm = Restrict(Cert, DOMAIN Cert \ {n}), !.nonreg = (n :> e)] :
                    e \in NonRegKinds(n)} : n \in DOMAIN Cert}

(* per file: absent / its own content / another certified content / a foreign content *)
Absent == 0
AllDir ==
    {[imm |-> Restrict(f, {n \in DOMAIN f : f[n] # Absent}), decoy |-> "none", nonreg |-> NoNonReg] :
        f \in [Trios(0, N) -> AllDirOptions]}
ResolveAll(d) ==
    [d EXCEPT !.imm = [n \in DOMAIN d.imm |->
                          CASE d.imm[n] = 1 -> Cert[n] [] d.imm[n] = 2 -> Other(n) [] OTHER -> Foreign]]

(* the directory a mirror would pair with a forged list: every file of the trios carries  *)
(* the content the served list assigns to its name (its certified content if unnamed)      *)
DirFromServed(s) ==
    LET m == ServedMap(s) IN
    [imm |-> [n \in Trios(0, N) |-> IF n \in DOMAIN m THEN m[n] ELSE Cert[n]], decoy |-> "none", nonreg |-> NoNonReg]

Ranges == {[kind |-> "full", a |-> 0, b |-> 0]}
          \cup [kind : {"from"}, a : 0..(N + 1), b : {0}]
          \cup [kind : {"upto"}, a : {0}, b : 0..(N + 1)]
          \cup [kind : {"range"}, a : 0..(N + 1), b : 0..(N + 1)]

Init == served = Honest /\ dir = HonestDir /\ r = [kind |-> "full", a |-> 0, b |-> 0]
        /\ allowMissing = FALSE /\ phase = 0
ChooseServed ==
    /\ phase = 0 /\ phase' = 1
    /\ served' \in CASE ServedU = "honest" -> {Honest}
                     [] ServedU = "atomic" -> AtomicServed
                     [] ServedU = "increasing" -> IncreasingServed
    /\ r' \in Ranges
    /\ allowMissing' \in BOOLEAN
    /\ UNCHANGED dir
ChooseDir ==
    /\ phase = 1 /\ phase' = 2
    /\ CASE DirU = "honest" -> dir' = HonestDir
         [] DirU = "atomic" -> dir' \in AtomicDir
         [] DirU = "all"    -> \E d \in AllDir : dir' = ResolveAll(d)
         [] DirU = "fromServed" -> dir' = DirFromServed(served)
    /\ UNCHANGED <<served, r, allowMissing>>
Next == ChooseServed \/ ChooseDir
Spec == Init /\ [][Next]_vars

Rg == ToRange(r, N)
Accepted == AcceptImpl(served, dir, Cert, N, r, allowMissing)

(* "digest list accepted => it reproduces the signed root" *)
DigestsSound ==
    (phase = 2 /\ DownloadVerifyDigests(served, N, CertRoot(Cert)).ok) => Reproduces(served, N, CertRoot(Cert))

Excused ==
    \/ ExcuseMisplaced /\ dir.decoy # "first" /\ OnlyMisplaced(dir, Cert, Rg.lo, Rg.hi, allowMissing)
    \/ ExcuseDecoy /\ dir.decoy = "first"
    \/ ExcuseNonRegular /\ OnlyNonRegular(dir, Cert, Rg.lo, Rg.hi, allowMissing)
(* "accepted => every file in range is the certified one" *)
VerifySound ==
    phase = 2 /\ Accepted => Rg.ok /\ (AcceptRule(dir, Cert, Rg.lo, Rg.hi, allowMissing) \/ Excused)

(* GEN: every state of the universe as a case for the harness, with the model's verdicts *)
NameSeq(f) == LET s == SortNames(DOMAIN f) IN
              [i \in DOMAIN s |-> [num |-> s[i].num, ext |-> s[i].ext, cid |-> f[s[i]]]]
GenPrint ==
    phase = 2 =>
    PrintT(<<"CASE", ToJson([N |-> N, pat |-> Pat,
                             served |-> [i \in DOMAIN served |-> [num |-> served[i].name.num, ext |-> served[i].name.ext,
                                                                  cid |-> served[i].cid]],
                             dir |-> [imm |-> NameSeq(dir.imm), decoy |-> dir.decoy,
                                      nonreg |-> LET q == SortNames(DOMAIN dir.nonreg) IN
                                                 [i \in DOMAIN q |-> [num |-> q[i].num, ext |-> q[i].ext,
                                                                      k |-> dir.nonreg[q[i]].k, cid |-> dir.nonreg[q[i]].cid]]],
                             r |-> r, allowMissing |-> allowMissing,
                             impl |-> Accepted,
                             digestsImpl |-> DownloadVerifyDigests(served, N, CertRoot(Cert)).ok,
                             rule |-> Rg.ok /\ AcceptRule(dir, Cert, Rg.lo, Rg.hi, allowMissing)])>>)

(* vacuity guards: must be VIOLATED when used as invariants *)
NeverAccepted == ~(phase = 2 /\ Accepted)
NeverExcused  == ~(phase = 2 /\ Accepted /\ ~AcceptRule(dir, Cert, Rg.lo, Rg.hi, allowMissing))
=============================================================================
