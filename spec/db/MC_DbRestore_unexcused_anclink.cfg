CONSTANTS
    MaxN = 2
    Universe = "ancillary"
    UnpackStaged = FALSE
    ListedMustBeRegular = FALSE
    ManifestHashInjective = FALSE
    ExcuseImmArchive = TRUE
    ExcuseAncLink = FALSE
    ExcuseMerged = TRUE
SPECIFICATION Spec
INVARIANTS OnlyAllowed
CHECK_DEADLOCK FALSE
