CONSTANTS
    N = 1
    Pat = "distinct"
    ServedU = "atomic"
    DirU = "atomic"
    AllDirOptions = {0, 1, 2, 3}
    PerNameOnSuccess = FALSE
    ListNamesCanonical = FALSE
    FindPrefersDirectChild = FALSE
    NonRegularRefused = FALSE
    ExcuseNonRegular = TRUE
    ExcuseMisplaced = TRUE
    ExcuseDecoy = TRUE
SPECIFICATION Spec
INVARIANTS DigestsSound VerifySound
CHECK_DEADLOCK FALSE
