CONSTANTS
    MaxN = 3
    Universe = "hostile"
    UnpackStaged = FALSE
    ManifestHashInjective = FALSE
    ExcuseImmArchive = TRUE
    ExcuseMerged = TRUE
SPECIFICATION Spec
INVARIANTS OnlyAllowed RefusalTouchesNothing
CHECK_DEADLOCK FALSE
