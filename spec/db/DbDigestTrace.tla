--------------------------- MODULE DbDigestTrace ---------------------------
(***************************************************************************)
(* Contract trace spec for C12: accepts or rejects traces recorded from    *)
(* the real CardanoImmutableDigester / CardanoDatabaseSignableBuilder.     *)
(*                                                                         *)
(* Event                                                                   *)
(*  Digest  op lo beacon cache covered res root                            *)
(*          (+ descriptive fields: case,                                   *)
(*          step, kind, via, decoy, entry, other, bad, order, err, pred_ok)  *)
(*    op       "tree": the Merkle root at `beacon` (lo = 0);               *)
(*             "range": compute_digests_for_range(lo ..= beacon), `root`   *)
(*             then is a digest of the returned (file name, digest) entries*)
(*    covered  the names and content ids of the files                      *)
(*             <db>/immutable/<n>.<chunk|primary|secondary>,               *)
(*             lo <= n <= beacon, as they are on disk when the computation *)
(*             runs, recomputed by the harness from the real directory,    *)
(*             sorted: [name, cid, kind].  kind "reg" = a regular file.    *)
(*             A directory or a dangling link under such a name is no      *)
(*             file.  Whether a symbolic link to a regular file is an      *)
(*             immutable file of that content or just another directory    *)
(*             entry is not decided by the property: it is kept apart      *)
(*             (kind "link", cid of what is read through it), so a node    *)
(*             holding one is only compared with nodes holding the same.   *)
(*    stale    the computation consulted an explicit cache that holds the  *)
(*             digest of a file that changed on disk since (the statement  *)
(*             promises cache independence over the same unchanged files   *)
(*             only): not constrained.  A computation without cache is     *)
(*             always judged -- also when the same long-lived digester     *)
(*             object computed before the files changed (descriptive:      *)
(*             afterChange = same_object | new_object | none | cached).    *)
(*    cache    the computation consulted a digest cache left by earlier    *)
(*             computations over the same, unchanged files                 *)
(*    res      "ok" (root = the Merkle root computed) | "err" | "panic"    *)
(*                                                                         *)
(* The property, and nothing else:                                         *)
(*  Determined  the computed value (per op) is a function of `covered`     *)
(*              alone --                                                   *)
(*              whatever the creation order, other files, files beyond the *)
(*              beacon, entry path, cache history                          *)
(*  Sensitive   computed without a cache, the root changes whenever a byte *)
(*              of a covered file changes or a covered file is missing:    *)
(*              two `covered` one of which is the other with some files    *)
(*              changed and / or missing never give the same root          *)
(* A computation that fails computes no root and is not constrained.       *)
(***************************************************************************)
EXTENDS Naturals, Sequences, FiniteSets, TLC, Json, IOUtils

Rec   == ndJsonDeserialize(IOEnv.TRACE)
Known == ndJsonDeserialize(IOEnv.KNOWN)

VARIABLES l,
          seen     \* [covered, root, cache] of the computations accepted so far
tvars == <<l, seen>>
E == Rec[l]
IsEvent(name) == l <= Len(Rec) /\ Rec[l].ev = name /\ Rec[l].seq = l /\ l' = l + 1

TraceInit == l = 1 /\ seen = {}

Determined(e) == \A s \in seen : (s.op = e.op /\ s.covered = e.covered) => s.root = e.root
NamesOf(c)     == {c[i].name : i \in DOMAIN c}
Perturbs(c, d) == c # d /\ NamesOf(d) \subseteq NamesOf(c)    \* d is c with files changed and / or missing
Ambiguous(c)  == \E i \in DOMAIN c : c[i].kind = "link"
Sensitive(e)  == (~e.cache /\ ~Ambiguous(e.covered)) => \A s \in seen :
                    (s.op = e.op /\ ~s.cache /\ ~Ambiguous(s.covered) /\ s.root = e.root) =>
                        ~Perturbs(s.covered, e.covered) /\ ~Perturbs(e.covered, s.covered)

TDigest ==
    /\ IsEvent("Digest")
    /\ IF E.res = "ok" /\ ~(E.cache /\ E.stale)
       THEN /\ Determined(E) /\ Sensitive(E)
            /\ seen' = seen \cup {[op |-> E.op, covered |-> E.covered, root |-> E.root, cache |-> E.cache]}
       ELSE UNCHANGED seen

-----------------------------------------------------------------------------
MatchesKnown(e, k) == \A f \in DOMAIN k.match : f \in DOMAIN e /\ e[f] = k.match[f]
(* a computation covered by a listed known finding is consumed and not remembered *)
TKnown ==
    /\ l <= Len(Rec) /\ Rec[l].seq = l
    /\ \E i \in DOMAIN Known :
          /\ MatchesKnown(Rec[l], Known[i])
          /\ PrintT(<<"KNOWN-USED", ToJson([id |-> Known[i].id, seq |-> l])>>)
    /\ l' = l + 1
    /\ UNCHANGED seen

TraceNext == TDigest \/ TKnown
TraceSpec == TraceInit /\ [][TraceNext]_tvars

TraceAccepted ==
    LET d == TLCGet("stats").diameter - 1 IN
    /\ PrintT(<<"TRACE-RESULT",
                ToJson([matched |-> d, total |-> Len(Rec),
                        first_unmatched |-> IF d < Len(Rec) THEN Rec[d + 1] ELSE [ev |-> "none"]])>>)
    /\ d = Len(Rec)
=============================================================================
