CONSTANTS
    User = {u1, u2}
    Size = 2
    MaxRefresh = 1
    ItemGiveBackUsesItemTag = TRUE
    AtomicRefresh = TRUE
    MaxReset = 0
    AtomicReset = TRUE
SPECIFICATION Spec
VIEW genview
CHECK_DEADLOCK FALSE
