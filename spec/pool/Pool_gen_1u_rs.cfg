CONSTANTS
    User = {u1}
    Size = 1
    MaxRefresh = 1
    ItemGiveBackUsesItemTag = TRUE
    AtomicRefresh = TRUE
    MaxReset = 1
    AtomicReset = TRUE
SPECIFICATION Spec
VIEW genview

CHECK_DEADLOCK FALSE
