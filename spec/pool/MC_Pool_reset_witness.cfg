CONSTANTS
    User = {u1, u2}
    Size = 2
    MaxRefresh = 1
    ItemGiveBackUsesItemTag = TRUE
    AtomicRefresh = TRUE
    MaxReset = 1
    AtomicReset = FALSE
SPECIFICATION Spec
VIEW view
INVARIANTS TypeOK Bounded NoStaleHandout NoStaleInPool
CHECK_DEADLOCK FALSE
