CONSTANTS
    User = {u1, u2}
    Size = 1
    MaxRefresh = 1
    ItemGiveBackUsesItemTag = TRUE
    AtomicRefresh = TRUE
SPECIFICATION FairSpec
VIEW view
PROPERTIES Woken
CHECK_DEADLOCK FALSE
