-------------------------------- MODULE Pool --------------------------------
(***************************************************************************)
(* The resource pool behind the aggregator's proof cache (property C18).   *)
(*                                                                         *)
(* Implementation-shaped model of                                          *)
(*   internal/mithril-resource-pool/src/resource_pool.rs                   *)
(*   mithril-aggregator/src/services/prover.rs  (compute_cache,            *)
(*                                               compute_proof)            *)
(* at *lock-section granularity*: every action is the code that runs       *)
(* between two places where a thread is about to take a lock (those places *)
(* are the `pool.y.*` hook points of the instrumented crate), so that a    *)
(* behaviour of this spec is a schedule that can be replayed on real       *)
(* threads.                                                                *)
(*                                                                         *)
(* Resources carry their *true* generation (the refresh that produced      *)
(* them); the pool only knows the tag (discriminant) it is given.          *)
(***************************************************************************)
EXTENDS Naturals, Sequences, FiniteSets, TLC

CONSTANTS
    User,           \* user threads (proof requests)
    Size,           \* configured pool size
    MaxRefresh,     \* number of refreshes explored
    ItemGiveBackUsesItemTag,  \* TRUE: give_back_resource_pool_item passes the item's own tag
                              \* FALSE: it passes the pool's current discriminant (pre-fix code)
    AtomicRefresh,            \* TRUE: the refresh sets the discriminant and clears the pool in ONE
                              \* critical section; FALSE: two separate ones (pre-fix code)
    MaxReset,                 \* number of reset_available_resources calls explored (0: no resetter)
    AtomicReset               \* TRUE: the available resources are reset in place under the lock (the
                              \* code); FALSE: taken out, reset without the lock, appended back in a
                              \* second critical section (a design the property forbids: witness runs)

Refresher == "rf"
Resetter == "rs"
Proc == User \cup {Refresher, Resetter}

None == [rid |-> 0, gen |-> 0, tag |-> 0]      \* "holds nothing"

VARIABLES
    resources,      \* the VecDeque: sequence of [rid, gen]
    disc,           \* the pool discriminant
    pc,             \* pc[p]: label of the hook point thread p is parked at, or "idle"
    held,           \* held[u]: the item user u holds: [rid, gen, tag] (None if nothing)
    gb,             \* gb[p]: the give_back_resource call in flight: [rid, gen, d]
    rf,             \* refresher locals: [dnew, k]   (k = number of fresh resources given so far)
    nextRid,        \* fresh resource ids
    refreshes,      \* refreshes started so far
    resets,         \* resets started so far
    taken,          \* (non-atomic reset only) the resources the resetter took out of the pool
    \* ---- observation variables (the property is stated over these) ----
    latestGen,      \* generation announced by the last set_discriminant
    phase,          \* "stable" | "begun" | "set" | "cleared" : progress of the refresh in flight
    completedGen,   \* generation of the last *completed* refresh
    handed,         \* set of [rid, gen, stable, want] : every hand-out so far
    last            \* [p, a] : the thread that moved last and the action it took (labels the
                    \* edges of the state graph for schedule generation; hidden by a VIEW in MC)

vars == <<resources, disc, pc, held, gb, rf, nextRid, refreshes, resets, taken,
          latestGen, phase, completedGen, handed, last>>
genview == <<resources, disc, pc, held, gb, rf, nextRid, refreshes, resets, taken, latestGen, phase, completedGen, last>>
view == <<resources, disc, pc, held, gb, rf, nextRid, refreshes, resets, taken,
          latestGen, phase, completedGen, handed>>

-----------------------------------------------------------------------------
Init ==
    /\ resources = [i \in 1..Size |-> [rid |-> i, gen |-> 0]]
    /\ disc = 0
    /\ pc = [p \in Proc |-> "idle"]
    /\ held = [u \in User |-> None]
    /\ gb = [p \in Proc |-> [rid |-> 0, gen |-> 0, d |-> 0]]
    /\ rf = [dnew |-> 0, k |-> 0]
    /\ nextRid = Size + 1
    /\ refreshes = 0
    /\ resets = 0 /\ taken = <<>>
    /\ latestGen = 0 /\ phase = "stable" /\ completedGen = 0
    /\ handed = {}
    /\ last = [p |-> "none", a |-> "Init"]

Holds(u) == held[u].rid # 0

-----------------------------------------------------------------------------
(* acquire_resource: parked at pool.y.acquire, then one critical section.   *)
BeginAcquire(u) ==
    /\ pc[u] = "idle" /\ ~Holds(u)
    /\ pc' = [pc EXCEPT ![u] = "y_acquire"]
    /\ UNCHANGED <<resources, disc, held, gb, rf, nextRid, refreshes, resets, taken, latestGen, phase,
                   completedGen, handed>>

(* lock resources; pop_front; ResourcePoolItem::new reads the discriminant  *)
(* while the resources lock is still held                                   *)
Acquire(u) ==
    /\ pc[u] = "y_acquire" /\ resources # <<>>
    /\ LET r == Head(resources) IN
        /\ held' = [held EXCEPT ![u] = [rid |-> r.rid, gen |-> r.gen, tag |-> disc]]
        /\ handed' = handed \cup {[rid |-> r.rid, gen |-> r.gen,
                                   stable |-> (phase = "stable"), want |-> completedGen]}
    /\ resources' = Tail(resources)
    /\ pc' = [pc EXCEPT ![u] = "idle"]
    /\ UNCHANGED <<disc, gb, rf, nextRid, refreshes, resets, taken, latestGen, phase, completedGen>>

(* empty pool: the caller waits on the condition variable and times out     *)
AcquireTimeout(u) ==
    /\ pc[u] = "y_acquire" /\ resources = <<>>
    /\ pc' = [pc EXCEPT ![u] = "idle"]
    /\ UNCHANGED <<resources, disc, held, gb, rf, nextRid, refreshes, resets, taken, latestGen, phase,
                   completedGen, handed>>

-----------------------------------------------------------------------------
(* the three ways a user lets go of an item                                 *)

(* implicit give-back on drop: give_back_resource(resource, item.tag)       *)
BeginDrop(u) ==
    /\ pc[u] = "idle" /\ Holds(u)
    /\ gb' = [gb EXCEPT ![u] = [rid |-> held[u].rid, gen |-> held[u].gen, d |-> held[u].tag]]
    /\ held' = [held EXCEPT ![u] = None]
    /\ pc' = [pc EXCEPT ![u] = "y_gb_count"]
    /\ UNCHANGED <<resources, disc, rf, nextRid, refreshes, resets, taken, latestGen, phase, completedGen, handed>>

(* explicit give_back_resource_pool_item: parked at pool.y.gb_item ...       *)
BeginGiveBackItem(u) ==
    /\ pc[u] = "idle" /\ Holds(u)
    /\ pc' = [pc EXCEPT ![u] = "y_gb_item"]
    /\ UNCHANGED <<resources, disc, held, gb, rf, nextRid, refreshes, resets, taken, latestGen, phase,
                   completedGen, handed>>

(* ... then takes the resource and evaluates the discriminant argument      *)
GiveBackItemReadDisc(u) ==
    /\ pc[u] = "y_gb_item"
    /\ gb' = [gb EXCEPT ![u] = [rid |-> held[u].rid, gen |-> held[u].gen,
                                d |-> IF ItemGiveBackUsesItemTag THEN held[u].tag ELSE disc]]
    /\ held' = [held EXCEPT ![u] = None]
    /\ pc' = [pc EXCEPT ![u] = "y_gb_count"]
    /\ UNCHANGED <<resources, disc, rf, nextRid, refreshes, resets, taken, latestGen, phase, completedGen, handed>>

-----------------------------------------------------------------------------
(* give_back_resource, shared by users and refresher                        *)

AfterGiveBack(p) ==
    \* what thread p does when its give_back_resource call returns
    IF p = Refresher
    THEN IF rf.k < Size
         THEN /\ rf' = [rf EXCEPT !.k = rf.k + 1]
              /\ gb' = [gb EXCEPT ![p] = [rid |-> nextRid, gen |-> rf.dnew, d |-> rf.dnew]]
              /\ nextRid' = nextRid + 1
              /\ pc' = [pc EXCEPT ![p] = "y_gb_count"]
              /\ UNCHANGED <<phase, completedGen>>
         ELSE /\ pc' = [pc EXCEPT ![p] = "idle"]
              /\ phase' = "stable" /\ completedGen' = rf.dnew
              /\ UNCHANGED <<rf, gb, nextRid>>
    ELSE /\ pc' = [pc EXCEPT ![p] = "idle"]
         /\ UNCHANGED <<rf, gb, nextRid, phase, completedGen>>

(* `if self.count()? == self.size { return }` : the test takes and releases  *)
(* the resources lock on its own                                             *)
GbCountFull(p) ==
    /\ pc[p] = "y_gb_count" /\ Len(resources) = Size
    /\ AfterGiveBack(p)
    /\ UNCHANGED <<resources, disc, held, refreshes, resets, taken, latestGen, handed>>

GbCountNotFull(p) ==
    /\ pc[p] = "y_gb_count" /\ Len(resources) # Size
    /\ pc' = [pc EXCEPT ![p] = "y_gb_lock"]
    /\ UNCHANGED <<resources, disc, held, gb, rf, nextRid, refreshes, resets, taken, latestGen, phase,
                   completedGen, handed>>

(* lock resources; compare discriminants; push_back; notify                  *)
GbPush(p) ==
    /\ pc[p] = "y_gb_lock" /\ disc = gb[p].d
    /\ resources' = Append(resources, [rid |-> gb[p].rid, gen |-> gb[p].gen])
    /\ AfterGiveBack(p)
    /\ UNCHANGED <<disc, held, refreshes, resets, taken, latestGen, handed>>

GbStale(p) ==
    /\ pc[p] = "y_gb_lock" /\ disc # gb[p].d
    /\ AfterGiveBack(p)
    /\ UNCHANGED <<resources, disc, held, refreshes, resets, taken, latestGen, handed>>

-----------------------------------------------------------------------------
(* the refresh, as MithrilProverService::compute_cache performs it           *)

(* `let discriminant_new = pool.discriminant()? + 1;` then parked at         *)
(* pool.y.set_disc                                                           *)
RfBegin ==
    /\ pc[Refresher] = "idle" /\ refreshes < MaxRefresh
    /\ rf' = [dnew |-> disc + 1, k |-> 0]
    /\ refreshes' = refreshes + 1
    /\ UNCHANGED <<resets, taken>>
    /\ phase' = "begun"
    /\ pc' = [pc EXCEPT ![Refresher] = "y_set_disc"]
    /\ UNCHANGED <<resources, disc, held, gb, nextRid, latestGen, completedGen, handed>>

RfSetDisc ==
    /\ ~AtomicRefresh
    /\ pc[Refresher] = "y_set_disc"
    /\ disc' = rf.dnew
    /\ latestGen' = rf.dnew /\ phase' = "set"
    /\ pc' = [pc EXCEPT ![Refresher] = "y_clear"]
    /\ UNCHANGED <<resources, held, gb, rf, nextRid, refreshes, resets, taken, completedGen, handed>>

RfClear ==
    /\ pc[Refresher] = "y_clear"
    /\ resources' = <<>>
    /\ phase' = "cleared"
    \* first give_back_resource(fresh, dnew)
    /\ rf' = [rf EXCEPT !.k = 1]
    /\ gb' = [gb EXCEPT ![Refresher] = [rid |-> nextRid, gen |-> rf.dnew, d |-> rf.dnew]]
    /\ nextRid' = nextRid + 1
    /\ pc' = [pc EXCEPT ![Refresher] = "y_gb_count"]
    /\ UNCHANGED <<disc, held, refreshes, resets, taken, latestGen, completedGen, handed>>

-----------------------------------------------------------------------------
(* post-fix code: lock resources, lock discriminant, set, clear -- one step  *)
RfSetDiscAndClear ==
    /\ AtomicRefresh
    /\ pc[Refresher] = "y_set_disc"
    /\ disc' = rf.dnew
    /\ latestGen' = rf.dnew
    /\ resources' = <<>>
    /\ phase' = "cleared"
    /\ rf' = [rf EXCEPT !.k = 1]
    /\ gb' = [gb EXCEPT ![Refresher] = [rid |-> nextRid, gen |-> rf.dnew, d |-> rf.dnew]]
    /\ nextRid' = nextRid + 1
    /\ pc' = [pc EXCEPT ![Refresher] = "y_gb_count"]
    /\ UNCHANGED <<held, refreshes, resets, taken, completedGen, handed>>

-----------------------------------------------------------------------------
(* reset_available_resources (SqliteConnectionPool::renew_connections; any caller): parked at     *)
(* pool.y.reset, then ONE critical section in which every available resource is reset in place -- *)
(* no effect on which resources the pool holds, nor on their generation                           *)
RsBegin ==
    /\ pc[Resetter] = "idle" /\ resets < MaxReset
    /\ resets' = resets + 1
    /\ pc' = [pc EXCEPT ![Resetter] = "y_reset"]
    /\ UNCHANGED <<resources, disc, held, gb, rf, nextRid, refreshes, taken, latestGen, phase, completedGen, handed>>

RsReset ==
    /\ AtomicReset
    /\ pc[Resetter] = "y_reset"
    /\ pc' = [pc EXCEPT ![Resetter] = "idle"]
    /\ UNCHANGED <<resources, disc, held, gb, rf, nextRid, refreshes, resets, taken, latestGen, phase, completedGen, handed>>

(* the forbidden design: take the resources out, reset them unlocked, append them back *)
RsTake ==
    /\ ~AtomicReset
    /\ pc[Resetter] = "y_reset"
    /\ taken' = resources /\ resources' = <<>>
    /\ pc' = [pc EXCEPT ![Resetter] = "y_reset_lock"]
    /\ UNCHANGED <<disc, held, gb, rf, nextRid, refreshes, resets, latestGen, phase, completedGen, handed>>

RsAppend ==
    /\ ~AtomicReset
    /\ pc[Resetter] = "y_reset_lock"
    /\ resources' = resources \o taken /\ taken' = <<>>
    /\ pc' = [pc EXCEPT ![Resetter] = "idle"]
    /\ UNCHANGED <<disc, held, gb, rf, nextRid, refreshes, resets, latestGen, phase, completedGen, handed>>

L(p, a, A) == A /\ last' = [p |-> p, a |-> a]

UserStep(u) ==
    \/ L(u, "BeginAcquire", BeginAcquire(u))
    \/ L(u, "Acquire", Acquire(u))
    \/ L(u, "AcquireTimeout", AcquireTimeout(u))
    \/ L(u, "BeginDrop", BeginDrop(u))
    \/ L(u, "BeginGiveBackItem", BeginGiveBackItem(u))
    \/ L(u, "GiveBackItemReadDisc", GiveBackItemReadDisc(u))

GbStep(p) ==
    \/ L(p, "GbCountFull", GbCountFull(p))
    \/ L(p, "GbCountNotFull", GbCountNotFull(p))
    \/ L(p, "GbPush", GbPush(p))
    \/ L(p, "GbStale", GbStale(p))

RfStep ==
    \/ L(Refresher, "RfBegin", RfBegin)
    \/ L(Refresher, "RfSetDisc", RfSetDisc)
    \/ L(Refresher, "RfClear", RfClear)
    \/ L(Refresher, "RfSetDiscAndClear", RfSetDiscAndClear)

RsStep ==
    \/ L(Resetter, "RsBegin", RsBegin)
    \/ L(Resetter, "RsReset", RsReset)
    \/ L(Resetter, "RsTake", RsTake)
    \/ L(Resetter, "RsAppend", RsAppend)

Next ==
    \/ \E u \in User : UserStep(u)
    \/ \E p \in Proc : GbStep(p)
    \/ RfStep
    \/ RsStep

Spec == Init /\ [][Next]_vars

Fairness == /\ \A u \in User : WF_vars(UserStep(u))
            /\ \A p \in Proc : WF_vars(GbStep(p))
            /\ WF_vars(RfStep)
            /\ WF_vars(RsStep)
FairSpec == Spec /\ Fairness

-----------------------------------------------------------------------------
(* The property (C18), over the observation variables.                      *)

(* the pool never holds more resources than its configured size             *)
Bounded == Len(resources) <= Size

(* every resource handed out while no refresh is in flight belongs to the   *)
(* generation of the last completed refresh                                 *)
NoStaleHandout == \A h \in handed : h.stable => h.gen = h.want

(* a resource of a superseded generation is never (re-)admitted: outside the *)
(* set_discriminant..clear window of a refresh in flight, everything in the  *)
(* pool belongs to the latest announced generation                           *)
NoStaleInPool ==
    phase \in {"stable", "cleared"} =>
        \A i \in DOMAIN resources : resources[i].gen = latestGen

(* a waiting caller is eventually served or times out (the model's wait is   *)
(* the enabledness of Acquire / AcquireTimeout)                              *)
Woken == \A u \in User : (pc[u] = "y_acquire") ~> (pc[u] # "y_acquire")

(* typing *)
TypeOK ==
    /\ disc \in Nat /\ latestGen \in Nat
    /\ phase \in {"stable", "begun", "set", "cleared"}
    /\ \A p \in Proc : pc[p] \in {"idle", "y_acquire", "y_gb_item", "y_gb_count", "y_gb_lock",
                                  "y_set_disc", "y_clear", "y_reset", "y_reset_lock"}
=============================================================================
