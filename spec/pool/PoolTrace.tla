----------------------------- MODULE PoolTrace -----------------------------
(***************************************************************************)
(* Contract trace spec for C18.  Accepts or rejects traces recorded from   *)
(* the real ResourcePool (events are recorded inside its critical sections *)
(* and carry a global sequence number).  It states the property only:      *)
(*                                                                         *)
(*   Bounded          the pool never holds more than `size` resources      *)
(*   NoStaleAdmit     outside the set-discriminant..clear window of a      *)
(*                    refresh in flight, a resource of a generation other  *)
(*                    than the latest announced one is never admitted      *)
(*   NoStaleHandout   a resource handed out while no refresh is in flight  *)
(*                    belongs to the generation of the last completed one  *)
(*   Woken            a caller that started waiting is eventually served   *)
(*                    or times out (end of every run: nobody left waiting) *)
(*                                                                         *)
(* It does not model the queue discipline or any control flow of the code. *)
(*                                                                         *)
(* Events (field t = thread):                                              *)
(*  NewPool size            a fresh pool with `size` generation-0 resources*)
(*  Pop tag                 [under lock] a resource left the pool          *)
(*  Got rid gen tag         the caller learned what it was handed          *)
(*  Wait / Timeout / AcquireFailed                                         *)
(*  GiveBack rid gen via    the thread is about to return this resource    *)
(*  Push d len              [under lock] admitted; len = queue length after*)
(*  StaleDrop d / FullDrop  not admitted                                   *)
(*  RefreshBegin, SetDisc d, Clear, SetDiscAndClear d, RefreshDone gen     *)
(***************************************************************************)
EXTENDS Naturals, Sequences, FiniteSets, TLC, Json, IOUtils

Rec   == ndJsonDeserialize(IOEnv.TRACE)
Known == ndJsonDeserialize(IOEnv.KNOWN)

VARIABLES l, size, phase, latestGen, completedGen,
          popCtx,    \* thread -> [stable, want] recorded at its last Pop
          giving,    \* thread -> [rid, gen] the resource it is returning
          waiting,   \* threads that logged Wait and have not been served / timed out
          tainted,   \* resources covered by a listed known finding (see TKnown*)
          pushCtx    \* (prover traces) thread -> [chk, want] recorded at its last give-back

tvars == <<l, size, phase, latestGen, completedGen, popCtx, giving, waiting, tainted, pushCtx>>

NoCtx == [stable |-> FALSE, want |-> 0]
NoRes == [rid |-> 0, gen |-> 0]

Thread == {Rec[i].t : i \in DOMAIN Rec}

IsEvent(name) == l <= Len(Rec) /\ Rec[l].ev = name /\ Rec[l].seq = l /\ l' = l + 1
E == Rec[l]

TraceInit ==
    /\ l = 1 /\ size = 0 /\ phase = "stable" /\ latestGen = 0 /\ completedGen = 0
    /\ popCtx = [t \in Thread |-> NoCtx] /\ giving = [t \in Thread |-> NoRes]
    /\ waiting = {} /\ tainted = {} /\ pushCtx = [t \in Thread |-> [chk |-> FALSE, want |-> 0]]

TNewPool ==
    /\ IsEvent("NewPool")
    /\ waiting = {}                      \* Woken: the previous run left nobody waiting
    /\ size' = E.size /\ phase' = "stable" /\ latestGen' = 0 /\ completedGen' = 0
    /\ popCtx' = [t \in Thread |-> NoCtx] /\ giving' = [t \in Thread |-> NoRes]
    /\ waiting' = {} /\ tainted' = {} /\ pushCtx' = [t \in Thread |-> [chk |-> FALSE, want |-> 0]]

TPop ==
    /\ IsEvent("Pop")
    /\ popCtx' = [popCtx EXCEPT ![E.t] = [stable |-> (phase = "stable"), want |-> completedGen]]
    /\ waiting' = waiting \ {E.t}
    /\ UNCHANGED <<size, phase, latestGen, completedGen, giving, tainted, pushCtx>>

TGot ==
    /\ IsEvent("Got")
    /\ \/ popCtx[E.t].stable => E.gen = popCtx[E.t].want        \* NoStaleHandout
       \/ E.rid \in tainted
    /\ UNCHANGED <<size, phase, latestGen, completedGen, popCtx, giving, waiting, tainted, pushCtx>>

TWait ==
    /\ IsEvent("Wait")
    /\ waiting' = waiting \cup {E.t}
    /\ UNCHANGED <<size, phase, latestGen, completedGen, popCtx, giving, tainted, pushCtx>>

TTimeout ==
    /\ IsEvent("Timeout")
    /\ waiting' = waiting \ {E.t}
    /\ UNCHANGED <<size, phase, latestGen, completedGen, popCtx, giving, tainted, pushCtx>>

TNoEffect ==
    /\ \/ IsEvent("AcquireFailed") \/ IsEvent("StaleDrop") \/ IsEvent("FullDrop")
       \/ IsEvent("RefreshBegin") \/ IsEvent("ResetDone")   \* (a reset changes nothing the property speaks of)
    /\ UNCHANGED <<size, phase, latestGen, completedGen, popCtx, giving, waiting, tainted, pushCtx>>

TGiveBack ==
    /\ IsEvent("GiveBack")
    /\ giving' = [giving EXCEPT ![E.t] = [rid |-> E.rid, gen |-> E.gen]]
    /\ UNCHANGED <<size, phase, latestGen, completedGen, popCtx, waiting, tainted, pushCtx>>

TPush ==
    /\ IsEvent("Push")
    /\ E.len <= size                                              \* Bounded
    /\ \/ phase = "set"                                           \* inside the window
       \/ giving[E.t].gen = latestGen                             \* NoStaleAdmit
       \/ giving[E.t].rid \in tainted
    /\ UNCHANGED <<size, phase, latestGen, completedGen, popCtx, giving, waiting, tainted, pushCtx>>

(* the number of resources in the pool, observed when every thread is done *)
TPoolLen ==
    /\ IsEvent("PoolLen")
    /\ E.len <= size                                              \* Bounded
    /\ UNCHANGED <<size, phase, latestGen, completedGen, popCtx, giving, waiting, tainted, pushCtx>>

TSetDisc ==
    /\ IsEvent("SetDisc")
    /\ latestGen' = E.d /\ phase' = "set"
    /\ UNCHANGED <<size, completedGen, popCtx, giving, waiting, tainted, pushCtx>>

TClear ==
    /\ IsEvent("Clear")
    /\ phase' = IF phase = "set" THEN "cleared" ELSE phase
    /\ UNCHANGED <<size, latestGen, completedGen, popCtx, giving, waiting, tainted, pushCtx>>

TSetDiscAndClear ==
    /\ IsEvent("SetDiscAndClear")
    /\ latestGen' = E.d /\ phase' = "cleared"
    /\ UNCHANGED <<size, completedGen, popCtx, giving, waiting, tainted, pushCtx>>

TRefreshDone ==
    /\ IsEvent("RefreshDone")
    /\ E.gen = latestGen
    /\ completedGen' = E.gen /\ phase' = "stable"
    /\ UNCHANGED <<size, latestGen, popCtx, giving, waiting, tainted, pushCtx>>

(***************************************************************************)
(* Known findings (KNOWN_FINDINGS.jsonl, status "known").  A finding for   *)
(* this module is identified by the *history* that produces the stale      *)
(* resource:  match = [ev |-> "Got", window |-> "set"]  excuses resources  *)
(* that were popped between SetDisc and Clear of a refresh in flight (they *)
(* are tagged with the new discriminant although they are old): such a     *)
(* resource is remembered in `tainted`, and its later re-admission and     *)
(* hand-out are excused.  Nothing else is.                                 *)
(***************************************************************************)
MatchesKnown(e, k) == \A f \in DOMAIN k.match : f \in DOMAIN e /\ e[f] = k.match[f]

TKnownWindowGot ==
    /\ IsEvent("Got")
    /\ phase = "set"
    /\ \E i \in DOMAIN Known :
          /\ MatchesKnown([ev |-> "Got", window |-> "set"], Known[i])
          /\ PrintT(<<"KNOWN-USED", ToJson([id |-> Known[i].id, seq |-> l])>>)
    /\ tainted' = tainted \cup {E.rid}
    /\ UNCHANGED <<size, phase, latestGen, completedGen, popCtx, giving, waiting, pushCtx>>

(***************************************************************************)
(* Prover traces (the real MithrilProverService): a proof request is       *)
(*   PPop (acquire, under lock) ... PPush / StaleDrop / FullDrop (explicit *)
(*   give-back inside compute_proof) ... Proved gen (after it returned:    *)
(*   gen = generation of the cached map the proof was computed from,       *)
(*   recognised from the proof's Merkle root).  The refresh's own pushes   *)
(*   are RPush.  The generation is only known at Proved, so the hand-out   *)
(*   and re-admission rules are checked there against the contexts         *)
(*   recorded at PPop / PPush.                                             *)
(***************************************************************************)
TPPop ==
    /\ IsEvent("PPop")
    /\ popCtx' = [popCtx EXCEPT ![E.t] = [stable |-> (phase = "stable"), want |-> completedGen]]
    /\ pushCtx' = [pushCtx EXCEPT ![E.t] = [chk |-> FALSE, want |-> 0]]
    /\ waiting' = waiting \ {E.t}
    /\ UNCHANGED <<size, phase, latestGen, completedGen, giving, tainted>>

TPPush ==
    /\ IsEvent("PPush")
    /\ E.len <= size                                              \* Bounded
    /\ pushCtx' = [pushCtx EXCEPT ![E.t] = [chk |-> (phase \in {"stable", "cleared"}), want |-> latestGen]]
    /\ UNCHANGED <<size, phase, latestGen, completedGen, popCtx, giving, waiting, tainted>>

TRPush ==
    /\ IsEvent("RPush")
    /\ E.len <= size                                              \* Bounded
    /\ UNCHANGED <<size, phase, latestGen, completedGen, popCtx, giving, waiting, tainted, pushCtx>>

TProved ==
    /\ IsEvent("Proved")
    /\ popCtx[E.t].stable => E.gen = popCtx[E.t].want             \* NoStaleHandout
    /\ pushCtx[E.t].chk => E.gen = pushCtx[E.t].want              \* NoStaleAdmit
    /\ UNCHANGED <<size, phase, latestGen, completedGen, popCtx, giving, waiting, tainted, pushCtx>>

TProverNoEffect ==
    /\ IsEvent("ProofNone")
    /\ UNCHANGED <<size, phase, latestGen, completedGen, popCtx, giving, waiting, tainted, pushCtx>>

TraceNext ==
    \/ TPPop \/ TPPush \/ TRPush \/ TProved \/ TProverNoEffect
    \/ TNewPool \/ TPop \/ TGot \/ TWait \/ TTimeout \/ TNoEffect \/ TGiveBack \/ TPush
    \/ TSetDisc \/ TClear \/ TSetDiscAndClear \/ TRefreshDone \/ TKnownWindowGot \/ TPoolLen

TraceSpec == TraceInit /\ [][TraceNext]_tvars

TraceAccepted ==
    LET d == TLCGet("stats").diameter - 1 IN
    /\ PrintT(<<"TRACE-RESULT",
                ToJson([matched |-> d, total |-> Len(Rec),
                        first_unmatched |-> IF d < Len(Rec) THEN Rec[d + 1] ELSE [ev |-> "none"]])>>)
    /\ d = Len(Rec)
=============================================================================
