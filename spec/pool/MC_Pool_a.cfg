CONSTANTS
    User = {u1, u2}
    Size = 2
    MaxRefresh = 1
    ItemGiveBackUsesItemTag = TRUE
SPECIFICATION Spec
INVARIANTS TypeOK Bounded NoStaleHandout NoStaleInPool
CHECK_DEADLOCK FALSE
