------------------------------- MODULE KeyReg -------------------------------
(***************************************************************************)
(* Key registration and aggregate verification key (property C06).         *)
(*                                                                         *)
(* Implementation-shaped model of                                          *)
(*   mithril-stm/src/protocol/key_registration/register.rs                 *)
(*     KeyRegistration::register_by_entry (BTreeSet ordered by             *)
(*     (stake, key bytes), duplicate keys refused), close_registration,    *)
(*     ClosedKeyRegistration::to_merkle_tree                               *)
(*   mithril-stm/.../aggregate_key.rs   (root, nr leaves, total stake)     *)
(*   mithril-common/src/protocol/signer_builder.rs  (caller order)         *)
(* as a state machine: registrations ARRIVE one at a time in any order on  *)
(* every node; each node then closes and derives its key.                  *)
(*                                                                         *)
(* The Merkle root is an injective function of the ordered leaf sequence   *)
(* (MerkleBatch.tla / C09), so it is represented by that sequence.         *)
(***************************************************************************)
EXTENDS Naturals, Sequences, FiniteSets, TLC

CONSTANTS Key,          \* verification keys; KeyOrd[k] = rank of k's compressed bytes
          KeyOrd,
          StakeVals,
          Node          \* the nodes computing the key (signer, aggregator, client)

VARIABLES target,       \* the registration set of the round: a function Key' -> stake, Key' \subseteq Key
          entries,      \* entries[n]: the set of <<stake, key>> node n holds (its BTreeSet)
          pending,      \* pending[n]: registrations node n has not received yet
          closed,       \* closed[n]: [done, leaves, nr, total] derived by node n
          order         \* order[n]: the order in which registrations arrived at n (history)
vars == <<target, entries, pending, closed, order>>

Less(a, b) == a[1] < b[1] \/ (a[1] = b[1] /\ KeyOrd[a[2]] < KeyOrd[b[2]])   \* Ord of the entry

(* iteration order of the BTreeSet *)
RECURSIVE SortedSeq(_)
SortedSeq(S) == IF S = {} THEN <<>>
                ELSE LET m == CHOOSE x \in S : \A y \in S \ {x} : Less(x, y)
                     IN <<m>> \o SortedSeq(S \ {m})
RECURSIVE Sum(_)
Sum(S) == IF S = {} THEN 0 ELSE LET x == CHOOSE x \in S : TRUE IN x[1] + Sum(S \ {x})

Init ==
    /\ \E ks \in SUBSET Key : ks # {} /\ target \in [ks -> StakeVals]
    /\ entries = [n \in Node |-> {}]
    /\ pending = [n \in Node |-> DOMAIN target]
    /\ order = [n \in Node |-> <<>>]
    /\ closed  = [n \in Node |-> [done |-> FALSE, leaves |-> <<>>, nr |-> 0, total |-> 0]]

(* register_by_entry: any pending registration may arrive next *)
Register(n, k) ==
    /\ ~closed[n].done /\ k \in pending[n]
    /\ ~\E e \in entries[n] : e[2] = k                 \* key not already registered
    /\ entries' = [entries EXCEPT ![n] = @ \cup {<<target[k], k>>}]
    /\ pending' = [pending EXCEPT ![n] = @ \ {k}]
    /\ order' = [order EXCEPT ![n] = Append(@, k)]
    /\ UNCHANGED <<target, closed>>

(* close_registration + aggregate key; a registration whose total stake is zero cannot be closed *)
(* ("Cannot run the protocol if total stake is zero"): no key is derived, on any node               *)
Close(n) ==
    /\ ~closed[n].done /\ pending[n] = {}
    /\ closed' = [closed EXCEPT ![n] = IF Sum(entries[n]) = 0
                                       THEN [done |-> TRUE, leaves |-> <<>>, nr |-> 0, total |-> 0]
                                       ELSE [done |-> TRUE, leaves |-> SortedSeq(entries[n]),
                                             nr     |-> Cardinality(entries[n]),
                                             total  |-> Sum(entries[n])]]
    /\ UNCHANGED <<target, entries, pending, order>>

Next == \E n \in Node : Close(n) \/ \E k \in Key : Register(n, k)
Spec == Init /\ [][Next]_vars

-----------------------------------------------------------------------------
(* The property (C06) *)
Slot(c, k) == CHOOSE i \in DOMAIN c.leaves : c.leaves[i][2] = k

(* all nodes that closed derived the same key, total stake and slots *)
Agreement ==
    \A a, b \in Node : (closed[a].done /\ closed[b].done) => closed[a] = closed[b]

(* the key is a function of the set only: it commits to exactly the registered pairs *)
CommitsToSet ==
    \A n \in Node : (closed[n].done /\ closed[n].total > 0) =>
        /\ {closed[n].leaves[i] : i \in DOMAIN closed[n].leaves} = {<<target[k], k>> : k \in DOMAIN target}
        /\ closed[n].nr = Cardinality(DOMAIN target)

(* distinct registration sets yield distinct keys: AVK as a function of the set is injective *)
AvkOf(t) == [leaves |-> SortedSeq({<<t[k], k>> : k \in DOMAIN t}),
             nr |-> Cardinality(DOMAIN t), total |-> Sum({<<t[k], k>> : k \in DOMAIN t})]
AllTargets == UNION {[ks -> StakeVals] : ks \in (SUBSET Key) \ {{}}}
Injective == \A t1, t2 \in AllTargets : (t1 # t2 /\ AvkOf(t1).total > 0) => AvkOf(t1) # AvkOf(t2)
=============================================================================
