----------------------------- MODULE KeyRegTrace -----------------------------
(***************************************************************************)
(* Contract trace spec for C06.                                            *)
(*  Avk  set path avk total slots                                          *)
(*     set   canonical description of the registered (key, stake) pairs    *)
(*     path  which computation produced it (stm / signer_builder / client  *)
(*           message round trip / key encoding round trip), perm the       *)
(*           arrival order used                                            *)
(*     avk   the aggregate verification key (json-hex), total stake, slots *)
(*  The key, the total stake and the slots are functions of `set` only,    *)
(*  and distinct sets have distinct keys.                                  *)
(***************************************************************************)
EXTENDS Naturals, Sequences, TLC, Json, IOUtils

Rec   == ndJsonDeserialize(IOEnv.TRACE)
Known == ndJsonDeserialize(IOEnv.KNOWN)
VARIABLES l, seen
tvars == <<l, seen>>
E == Rec[l]
IsEvent(name) == l <= Len(Rec) /\ Rec[l].ev = name /\ Rec[l].seq = l /\ l' = l + 1
TraceInit == l = 1 /\ seen = {}

TAvk ==
    /\ IsEvent("Avk")
    /\ \A s \in seen : s.set = E.set =>
            /\ s.avk = E.avk /\ s.total = E.total                      \* function of the set only
            /\ (s.slots = "n/a" \/ E.slots = "n/a" \/ s.slots = E.slots)
    /\ \A s \in seen : s.set # E.set => s.avk # E.avk                  \* injective
    /\ seen' = seen \cup {[set |-> E.set, avk |-> E.avk, total |-> E.total, slots |-> E.slots]}

MatchesKnown(e, k) == \A f \in DOMAIN k.match : f \in DOMAIN e /\ e[f] = k.match[f]
TKnown ==
    /\ l <= Len(Rec) /\ Rec[l].seq = l
    /\ \E i \in DOMAIN Known :
          /\ MatchesKnown(Rec[l], Known[i])
          /\ PrintT(<<"KNOWN-USED", ToJson([id |-> Known[i].id, seq |-> l])>>)
    /\ l' = l + 1 /\ UNCHANGED seen

(* a set on which one path fails must fail on every path (the result is a function of the set) *)
TAvkError ==
    /\ IsEvent("AvkError")
    /\ \A s \in seen : s.set = E.set => s.avk = "error"
    /\ seen' = seen \cup {[set |-> E.set, avk |-> "error", total |-> "error", slots |-> "n/a"]}

(* the signer node and the aggregator node derived the same commitment: a registered party's own signature *)
(* (made over ITS derivation) is accepted by the aggregator's multi-signer; "no-win": nothing to compare   *)
TSignerView ==
    /\ IsEvent("SignerView")
    /\ E.accepted \in {"yes", "no-win"}
    /\ UNCHANGED seen

TPredicted == IsEvent("Predicted") /\ UNCHANGED seen      \* model prediction, informational
TraceNext == TAvk \/ TAvkError \/ TSignerView \/ TPredicted \/ TKnown
TraceSpec == TraceInit /\ [][TraceNext]_tvars
TraceAccepted ==
    LET d == TLCGet("stats").diameter - 1 IN
    /\ PrintT(<<"TRACE-RESULT",
                ToJson([matched |-> d, total |-> Len(Rec),
                        first_unmatched |-> IF d < Len(Rec) THEN Rec[d + 1] ELSE [ev |-> "none"]])>>)
    /\ d = Len(Rec)
=============================================================================
