------------------------------ MODULE MC_KeyReg ------------------------------
EXTENDS KeyReg, Json
CONSTANTS k1, k2, k3
KeyOrdDef == (k1 :> 1 @@ k2 :> 2 @@ k3 :> 3)
InjectiveOnce == (\A n \in Node : entries[n] = {}) => Injective   \* evaluated in initial states only
GenPrint ==
    (\A n \in Node : closed[n].done /\ closed[n].total > 0) =>
        PrintT(<<"CASE", ToJson([target |-> [k \in DOMAIN target |-> target[k]],
                                 orders |-> order,
                                 slots |-> [k \in DOMAIN target |-> Slot(closed[CHOOSE n \in Node : TRUE], k) - 1],
                                 total |-> closed[CHOOSE n \in Node : TRUE].total])>>)
=============================================================================
