CONSTANTS
    k1 = k1
    k2 = k2
    k3 = k3
    Key = {k1, k2, k3}
    KeyOrd <- KeyOrdDef
    StakeVals = {0, 1, 2}
    Node = {signer, aggregator}
SPECIFICATION Spec
INVARIANTS Agreement CommitsToSet InjectiveOnce
CHECK_DEADLOCK FALSE
