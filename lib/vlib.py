"""Common plumbing for /verif/bin/check: BUILD -> MC -> GEN -> RUN -> VAL -> evidence.

Exit codes used by every check:
  0  property held on everything explored (KNOWN-FINDING lines may be printed)
  1  violation (a line `VIOLATION property=<id> replay=<path>` is printed)
  2  tool error / timeout / vacuity -- never reported as a violation
"""
import json
import os
import re
import shutil
import subprocess
import sys
import time

VERIF = os.path.dirname(os.path.dirname(os.path.abspath(__file__)))
SPEC = os.path.join(VERIF, "spec")
HARNESS = os.path.join(VERIF, "harness")
WORK = os.path.join(VERIF, "work")
EVIDENCE = os.path.join(VERIF, "evidence")
REPLAYS = os.path.join(VERIF, "replays")
KNOWN_FILE = os.path.join(VERIF, "KNOWN_FINDINGS.jsonl")
REPO = os.environ.get("VERIF_REPO", "/repo")

TLC_CP = "/opt/veriftools/tla/tla2tools.jar:/opt/veriftools/tla/CommunityModules-deps.jar"


class ToolError(Exception):
    pass


def log(msg):
    print(msg, flush=True)


# ----------------------------------------------------------------------------------------
# known findings
# ----------------------------------------------------------------------------------------
def known_findings(prop=None, status="known"):
    out = []
    if os.path.exists(KNOWN_FILE):
        for line in open(KNOWN_FILE):
            line = line.strip()
            if not line:
                continue
            rec = json.loads(line)
            if prop is not None and rec.get("property") != prop:
                continue
            if status is not None and rec.get("status") != status:
                continue
            out.append(rec)
    return out


def write_known_for_tlc(prop, path):
    """The `match` records of the status:"known" findings of `prop`, one per line, for the
    trace spec's KnownDeviation action (read with ndJsonDeserialize). A sentinel first line keeps
    the file non-empty and the sequence well-typed."""
    with open(path, "w") as f:
        f.write(json.dumps({"id": "_none_", "match": {"ev": "_none_"}}) + "\n")
        for rec in known_findings(prop):
            f.write(json.dumps({"id": rec["id"], "match": rec["match"]}) + "\n")


# ----------------------------------------------------------------------------------------
# cargo
# ----------------------------------------------------------------------------------------
def cargo_build(package, bins=None, timeout=3600):
    """Build harness package (path deps on /repo => rebuilds from the current working tree)."""
    lock_src = os.path.join(REPO, "Cargo.lock")
    lock_dst = os.path.join(HARNESS, "Cargo.lock")
    # cargo prunes the copied lock file; re-copy so that every needed entry is present
    shutil.copyfile(lock_src, lock_dst)
    cmd = ["cargo", "build", "--offline", "-p", package]
    for b in bins or []:
        cmd += ["--bin", b]
    env = dict(os.environ)
    env["CARGO_NET_OFFLINE"] = "true"
    env.pop("RUSTFLAGS", None)
    t0 = time.time()
    p = subprocess.run(cmd, cwd=HARNESS, env=env, stdout=subprocess.PIPE,
                       stderr=subprocess.STDOUT, text=True, timeout=timeout)
    if p.returncode != 0:
        sys.stdout.write(p.stdout[-6000:])
        raise ToolError(f"cargo build -p {package} failed")
    return time.time() - t0


def harness_bin(name):
    return os.path.join(HARNESS, "target", "debug", name)


def run_harness(name, args, timeout=3600, env_extra=None, stdin=None):
    env = dict(os.environ)
    env["RUST_BACKTRACE"] = "0"
    if env_extra:
        env.update(env_extra)
    cmd = [harness_bin(name)] + [str(a) for a in args]
    p = subprocess.run(cmd, env=env, stdout=subprocess.PIPE, stderr=subprocess.STDOUT,
                       text=True, timeout=timeout, input=stdin)
    if p.returncode != 0:
        sys.stdout.write(p.stdout[-6000:])
        raise ToolError(f"harness {name} exited {p.returncode}")
    return p.stdout


# ----------------------------------------------------------------------------------------
# TLC
# ----------------------------------------------------------------------------------------
class TlcResult:
    def __init__(self):
        self.ok = False
        self.generated = 0
        self.distinct = 0
        self.depth = 0
        self.violated = None      # name of violated invariant / property
        self.error = None         # other TLC error text
        self.out = ""
        self.printed = []         # PrintT outputs (raw lines)
        self.action_counts = {}   # action name -> (distinct, total) from -coverage
        self.wall = 0.0


_RE_STATES = re.compile(r"(\d+) states generated, (\d+) distinct states found")
_RE_DEPTH = re.compile(r"The depth of the complete state graph search is (\d+)")
_RE_COVER_ACTION = re.compile(r"^<(\w+) line \d+, col \d+ to line \d+, col \d+ of module (\w+)(?: \([\d ]+\))?>: (\d+):(\d+)")


def tlc(spec_dir, module, cfg, workers=8, timeout=900, env_extra=None, coverage=True,
        simulate=None, depth=None, seed=None, java_opts=None, heap="8g", metaname=None,
        deadlock_off=True, extra=None):
    """Run TLC. `simulate` = number of behaviours (simulation mode)."""
    meta = os.path.join(WORK, "tlc_" + (metaname or module))
    shutil.rmtree(meta, ignore_errors=True)
    os.makedirs(meta, exist_ok=True)
    jopts = ["-XX:+UseParallelGC", f"-Xmx{heap}"] + (java_opts or [])
    cmd = ["java"] + jopts + ["-cp", TLC_CP, "tlc2.TLC",
                              "-workers", str(workers), "-metadir", meta, "-cleanup",
                              "-noGenerateSpecTE", "-config", cfg]
    if coverage and not simulate:
        cmd += ["-coverage", "1"]
    if simulate:
        cmd += ["-simulate", f"num={simulate}"]
    if depth:
        cmd += ["-depth", str(depth)]
    if seed is not None:
        cmd += ["-seed", str(seed)]
    if extra:
        cmd += extra
    cmd += [module + ".tla"]
    env = dict(os.environ)
    if env_extra:
        env.update({k: str(v) for k, v in env_extra.items()})
    t0 = time.time()
    res = TlcResult()
    try:
        p = subprocess.run(cmd, cwd=os.path.join(SPEC, spec_dir), env=env,
                           stdout=subprocess.PIPE, stderr=subprocess.STDOUT, text=True,
                           timeout=timeout)
    except subprocess.TimeoutExpired as e:
        res.wall = time.time() - t0
        res.error = f"TLC timeout after {timeout}s"
        res.out = (e.stdout or b"").decode() if isinstance(e.stdout, bytes) else (e.stdout or "")
        shutil.rmtree(meta, ignore_errors=True)
        return res
    res.wall = time.time() - t0
    res.out = p.stdout
    shutil.rmtree(meta, ignore_errors=True)
    for line in p.stdout.splitlines():
        m = _RE_STATES.search(line)
        if m:
            res.generated, res.distinct = int(m.group(1)), int(m.group(2))
        m = _RE_DEPTH.search(line)
        if m:
            res.depth = int(m.group(1))
        m = _RE_COVER_ACTION.match(line)
        if m:
            name = m.group(1)
            d, t = int(m.group(3)), int(m.group(4))
            od, ot = res.action_counts.get(name, (0, 0))
            res.action_counts[name] = (od + d, ot + t)
        if line.startswith("Error: Invariant ") and "is violated" in line:
            res.violated = line.split("Invariant ", 1)[1].split(" is violated")[0]
        elif line.startswith("Error: Action property ") and "is violated" in line:
            res.violated = line.split("Action property ", 1)[1].split(" is violated")[0]
        elif line.startswith("Error: Temporal properties were violated"):
            res.violated = "temporal"
        elif line.startswith("Error:") and res.violated is None and res.error is None \
                and "The behavior up to this point" not in line:
            res.error = line
        if line.startswith('"') or line.startswith("<<") or line.startswith("{") or line.startswith("["):
            res.printed.append(line)
    if simulate and res.generated == 0:
        # simulation mode prints a different summary
        m = re.search(r"The number of states generated: (\d+)", p.stdout)
        if m:
            res.generated = int(m.group(1))
            res.distinct = res.generated
    res.ok = (res.violated is None and res.error is None and
              ("No error has been found" in p.stdout or simulate is not None))
    return res


def require_mc_ok(res, what, vacuity_actions=None):
    """MC on the implementation-shaped spec must pass (known deviations are excused inside the
    invariants). Anything else is a tool error here: an MC counterexample alone is never reported
    as a violation (DESIGN 3.6) -- the conformance stages decide."""
    if res.error:
        sys.stdout.write(res.out[-4000:])
        raise ToolError(f"{what}: TLC error: {res.error}")
    if vacuity_actions:
        for a in vacuity_actions:
            if res.action_counts.get(a, (0, 0))[1] == 0:
                raise ToolError(f"{what}: vacuity -- action {a} never taken")
    return res


def _tla_unescape(raw):
    # TLC prints strings with \" and \\ escapes (left-to-right)
    out = []
    i = 0
    while i < len(raw):
        c = raw[i]
        if c == "\\" and i + 1 < len(raw):
            n = raw[i + 1]
            if n == "t":
                out.append("\t")
            elif n == "n":
                out.append("\n")
            else:
                out.append(n)
            i += 2
        else:
            out.append(c)
            i += 1
    return "".join(out)


def printed_json(res, tag):
    """Extract JSON payloads printed by TLC as  <<"TAG", "json-string">>  lines."""
    out = []
    prefix = f'<<"{tag}", "'
    for line in res.printed:
        if line.startswith(prefix) and line.endswith('">>'):
            raw = line[len(prefix):-3]
            out.append(json.loads(_tla_unescape(raw)))
    return out


TRACE_JAVA_OPTS = ["-Xss1g", "-Dtlc2.tool.queue.IStateQueue=StateDeque"]


def validate_trace(spec_dir, module, cfg, trace_path, prop, known_path=None, timeout=1800,
                   env_extra=None, heap="4g"):
    """Impl -> spec: TLC checks the recorded ndjson trace against the contract trace spec.
    Returns dict(accepted, matched, total, first_unmatched, known_used, states)."""
    env = {"TRACE": trace_path}
    if known_path is None:
        known_path = os.path.join(WORK, f"known_{prop}.ndjson")
        write_known_for_tlc(prop, known_path)
    env["KNOWN"] = known_path
    if env_extra:
        env.update(env_extra)
    res = tlc(spec_dir, module, cfg, workers=1, timeout=timeout, env_extra=env, coverage=False,
              java_opts=TRACE_JAVA_OPTS, heap=heap, metaname=module + "_" + prop)
    out = {"accepted": False, "matched": 0, "total": 0, "first_unmatched": None,
           "known_used": [], "states": res.distinct, "generated": res.generated,
           "wall": res.wall, "tlc_out": res.out}
    if res.error and "Postcondition" not in res.error and "postcondition" not in res.error \
            and "TraceAccepted" not in (res.error or ""):
        if res.violated is None:
            sys.stdout.write(res.out[-4000:])
            raise ToolError(f"trace validation {module}: TLC error: {res.error}")
    for rec in printed_json(res, "TRACE-RESULT"):
        out["matched"] = rec.get("matched", 0)
        out["total"] = rec.get("total", 0)
        out["first_unmatched"] = rec.get("first_unmatched")
    seen = set()
    for rec in printed_json(res, "KNOWN-USED"):
        key = rec.get("id")
        if key not in seen:
            seen.add(key)
            out["known_used"].append(key)
    if out["total"] == 0 and not printed_json(res, "TRACE-RESULT"):
        sys.stdout.write(res.out[-4000:])
        raise ToolError(f"trace validation {module}: no TRACE-RESULT printed")
    out["accepted"] = (out["matched"] == out["total"]) and res.violated is None
    if res.violated is not None:
        out["invariant_violated"] = res.violated
    return out


# ----------------------------------------------------------------------------------------
# evidence / reporting
# ----------------------------------------------------------------------------------------
def write_evidence(prop, tier, seed, level, coverage, assumptions, wall, violations):
    os.makedirs(EVIDENCE, exist_ok=True)
    ev = {
        "property_id": prop,
        "tier": tier,
        "seed": int(seed),
        "level": level,
        "coverage": coverage,
        "assumptions": assumptions,
        "wall_s": round(wall, 2),
        "violations": violations,
    }
    path = os.path.join(EVIDENCE, f"{prop}.json")
    tmp = path + ".tmp"
    with open(tmp, "w") as f:
        json.dump(ev, f, indent=1, sort_keys=True)
        f.write("\n")
    os.replace(tmp, path)
    return path


def save_replay(prop, name, src_path=None, content=None):
    os.makedirs(REPLAYS, exist_ok=True)
    dst = os.path.join(REPLAYS, f"{prop}_{name}")
    if src_path:
        shutil.copyfile(src_path, dst)
    else:
        with open(dst, "w") as f:
            f.write(content)
    return dst


def report_known(prop, ids):
    by_id = {r["id"]: r for r in known_findings(prop)}
    for i in ids:
        r = by_id.get(i)
        if r:
            log(f"KNOWN-FINDING: property={prop} {r['what']} [{i}]")


def workdir(prop):
    d = os.path.join(WORK, prop)
    shutil.rmtree(d, ignore_errors=True)
    os.makedirs(d, exist_ok=True)
    return d


def read_ndjson(path):
    return [json.loads(l) for l in open(path) if l.strip()]


def write_ndjson(path, recs):
    with open(path, "w") as f:
        for r in recs:
            f.write(json.dumps(r) + "\n")
