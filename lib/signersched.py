"""Convert behaviours of spec/signer (sequences of `last` records printed by TLC) into harness schedules.

The model decomposes a signer cycle at its persistence steps (Tick, then Internal steps) and lets the process stop
between any two of them (Restart with at != "idle") and the chain epoch turn between the epoch settings and the second
read of the time point (EpochUp with during = TRUE).  The real signer has no stop points: a cycle is one call.  A stop
inside a cycle is therefore realised as the aggregator fault that leaves exactly the same persisted state on both sides,
followed by a restart:
    stop after the epoch settings were fetched        -> cycle with the aggregator unavailable, restart
    stop after the stake distribution was stored      -> cycle whose registration fails (nothing recorded), restart
    stop after the aggregator recorded the key        -> cycle whose registration is recorded but answered with an error, restart
    stop after the aggregator recorded the signature  -> cycle whose publication is recorded but answered with an error, restart
and an epoch turn inside a cycle as a cycle during which the aggregator double moves the chain right after it served
the epoch settings.  `flip` on an epoch change: the configuration the aggregator creates when it enters the epoch (for
the keys registered during it) gets the OTHER generation of protocol parameters."""

OTHER = {"o1": 1, "o2": 2}


def tick(fault, turn, flip=False):
    return {"a": "Tick", "fault": fault, "turn": bool(turn), "flip": bool(turn and flip)}


def convert(steps):
    out = []
    i = 0
    n = len(steps)
    while i < n:
        s = steps[i]
        a = s["a"]
        if a == "Tick":
            fault = s.get("fault", "none")
            turn = False
            flip = False
            crash = None
            j = i + 1
            while j < n:
                t = steps[j]
                if t["a"] == "Internal":
                    j += 1
                elif t["a"] == "EpochUp" and t.get("during"):
                    turn = True
                    flip = bool(t.get("flip"))
                    j += 1
                elif t["a"] == "Restart" and t.get("at", "idle") != "idle":
                    crash = t["at"]
                    j += 1
                    break
                else:
                    break
            if crash is None:
                out.append(tick(fault, turn, flip))
            else:
                if crash == "fetched":
                    out.append(tick("unavailable", False))
                    if turn:
                        out.append({"a": "EpochUp", "flip": flip})
                elif crash == "staked":
                    out.append(tick("reg_fail", turn, flip))
                elif crash == "registered":
                    out.append(tick("reg_half", turn, flip))
                elif crash == "published":
                    out.append(tick("pub_half", False))
                else:
                    raise ValueError(f"unknown stop point {crash}")
                out.append({"a": "Restart"})
            i = j
            continue
        if a == "EpochUp":
            out.append({"a": "EpochUp", "flip": bool(s.get("flip"))})
        elif a == "ImmUp":
            out.append({"a": "ImmUp"})
        elif a == "Others":
            out.append({"a": "Others", "who": sorted(OTHER[p] for p in s["who"])})
        elif a == "Restart":
            out.append({"a": "Restart"})
        elif a in ("Internal", "Init"):
            pass
        else:
            raise ValueError(f"unknown model action {a}")
        i += 1
    return out


def entity_name(en):
    if en[0] == "MSD":
        return f"MSD:{en[1]}"
    return f"CDB:{en[1]}/{en[2]}"


STATE = {"init": "Init", "unreg": "Unregistered", "ready": "ReadyToSign", "nosign": "RegisteredNotAbleToSign"}


def expectation(exp):
    """the model's final abstract state in the vocabulary of the harness projection"""
    return {
        "state": STATE[exp["state"]], "state_epoch": exp["state_epoch"], "data_epoch": exp["data_epoch"],
        "epoch": exp["epoch"], "imm": exp["imm"],
        "signed": sorted(entity_name(e) for e in exp["signed"]),
        "published": sorted(entity_name(e) for e in exp["published"]),
        "inits": sorted(exp["inits"]), "regs": sorted(exp["regs"]), "stakes": sorted(exp["stakes"]),
        "init_gens": sorted([r, g] for r, g in exp["init_gens"]),
        "agg_gens": sorted([r, g] for r, g in exp["agg_gens"]),
    }


def projection(obs):
    """the same view of a real observation"""
    return {
        "state": obs["state"], "state_epoch": obs["state_epoch"], "data_epoch": obs["data_epoch"],
        "epoch": obs["epoch"], "imm": obs["imm"],
        "signed": sorted(b["entity"] for b in obs["signed"]),
        "published": sorted({s["entity"] for s in obs["sigs"]}),
        "inits": sorted(i["epoch"] for i in obs["inits"]), "regs": sorted(r["epoch"] for r in obs["regs"]),
        "stakes": sorted(s["epoch"] for s in obs["stakes"]),
        "init_gens": sorted([i["epoch"], i["gen"]] for i in obs["inits"]),
        "agg_gens": sorted([p["epoch"], p["gen"]] for p in obs["params"]),
    }
