"""Convert behaviours of spec/aggregator (sequences of `last` records printed by TLC) into harness schedules."""

PARTY = {"p1": 0, "p2": 1, "p3": 2, "p4": 3}


def batched(out):
    """Consecutive submissions are delivered as ONE consumed batch through the message-queue processor
    (SequentialSignatureProcessor) when the run holds a refused submission (bad / re-labelled) followed by an
    honest one, and for every other remaining run of two or more; the rest goes one by one through the certifier."""
    res = []
    i = 0
    nth = 0
    while i < len(out):
        if out[i]["a"] != "Sign":
            res.append(out[i])
            i += 1
            continue
        j = i
        while j < len(out) and out[j]["a"] == "Sign":
            j += 1
        run = out[i:j]
        refused_first = any((x.get("variant") == "bad" or x["who"] != x["label"]) and
                            any(y.get("variant", "ok") == "ok" and y["who"] == y["label"] for y in run[k + 1:])
                            for k, x in enumerate(run))
        if len(run) >= 2 and (refused_first or nth % 2 == 0):
            res.append({"a": "SignBatch", "via": "dmq",
                        "items": [{k: v for k, v in x.items() if k != "a"} for x in run]})
        else:
            res.extend(run)
        if len(run) >= 2:
            nth += 1
        i = j
    return res


def convert(steps, batch=True):
    out = _convert(steps)
    out = batched(out) if batch else out
    # single submissions alternate between the certifier service called directly (flag set by the harness, as the
    # message-queue consumer does) and the steps of the HTTP route with the real authenticator
    k = 0
    for a in out:
        if a["a"] == "Sign":
            if k % 2 == 1:
                a["via"] = "http"
            k += 1
    return out


def _convert(steps):
    out = []
    i = 0
    n = len(steps)
    while i < n:
        s = steps[i]
        a = s["a"]
        if a == "Tick" and s.get("step") == "insert":
            # the real cycle performs insert + mark + artifact in one call; look ahead for a stop in between
            j = i + 1
            deferred = []
            crash_at = None
            done = False
            while j < n and not done:
                t = steps[j]
                if t["a"] == "Internal":
                    if t.get("step") == "artifact":
                        done = True
                    j += 1
                elif t["a"] == "Crash":
                    crash_at = t.get("at")
                    j += 1
                    done = True
                elif t["a"] == "Tick":
                    done = True      # (cannot happen while sealing is in progress)
                else:
                    deferred.append(t)   # environment steps interleaved by the model: run them afterwards
                    j += 1
            if crash_at == "inserted":
                out.append({"a": "Crash", "at": "certifier.after_cert_insert"})
            elif crash_at == "marked":
                out.append({"a": "Crash", "at": "artifact.after_compute"})
            else:
                out.append({"a": "Tick"})
            for t in deferred:
                out.extend(_convert([t]))
            i = j
            continue
        if a == "Tick":
            out.append({"a": "Tick"})
        elif a == "Internal":
            pass
        elif a == "EpochUp":
            out.append({"a": "EpochUp", "n": s.get("n", 1)})
        elif a == "ImmUp":
            out.append({"a": "ImmUp"})
        elif a == "Register":
            out.append({"a": "Register", "who": sorted(PARTY[p] for p in s["who"])})
        elif a == "Sign":
            out.append({"a": "Sign", "entity": s["entity"][0], "who": PARTY[s["who"]], "label": PARTY[s["label"]],
                        "variant": s.get("variant", "ok")})
        elif a == "Expire":
            out.append({"a": "Expire", "entity": s["entity"][0]})
        elif a == "Crash" and s.get("at") == "before_insert":
            out.append({"a": "Crash", "at": "certifier.before_cert_insert"})
        elif a in ("Restart", "Crash"):
            out.append({"a": "Restart"})
        i += 1
    return out
