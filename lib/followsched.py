"""Convert behaviours of spec/aggregator/Follower.tla (sequences of `last` records printed by TLC) into schedules
of the c14_follower harness, and pick a covering subset of behaviours."""
import json


def convert(steps):
    out = []
    i = 0
    n = len(steps)
    while i < n:
        s = steps[i]
        a = s["a"]
        if a == "Tick" and s.get("step") == "store":
            # the real cycle stores the certificates and the open message in one call: look ahead for a stop between
            # the two persistence steps; what the model interleaves in between runs afterwards
            j = i + 1
            deferred = []
            crashed = None
            done = False
            while j < n and not done:
                t = steps[j]
                if t["a"] == "Internal":
                    done = True
                    j += 1
                elif t["a"] == "Crash":
                    # "stored": certificates written, open message not (code order);
                    # "opened": open message written, certificates not (the order of the proposed repair)
                    crashed = "sync.before_store" if t.get("at") == "opened" else "sync.after_store"
                    done = True
                    j += 1
                elif t["a"] == "Tick" and t.get("node") == "F":
                    done = True          # (cannot happen while the synchroniser is between its steps)
                else:
                    deferred.append(t)
                    j += 1
            if crashed:
                out.append({"a": "Crash", "node": "F", "at": crashed})
            else:
                out.append({"a": "Tick", "node": "F"})
            out.extend(convert(deferred))
            i = j
            continue
        if a == "Tick" and s.get("step") == "seal":
            # the quorum of signatures arrives, then the cycle seals
            out.append({"a": "Sign", "node": "F", "entity": s["entity"], "who": 0, "all": True})
            out.append({"a": "Tick", "node": "F"})
        elif a == "Tick":
            out.append({"a": "Tick", "node": "F"})
        elif a == "Internal" or a == "Init":
            pass
        elif a == "LCertify":
            out.append({"a": "LCertify", "entity": s["entity"]})
        elif a == "LExpire":
            pass    # the LCertify macro of the harness lets the rounds that precede the wanted one expire
        elif a == "LRegenesis":
            out.append({"a": "Regenesis"})
        elif a == "LEpochUp":
            out.append({"a": "LEpochUp"})
        elif a in ("LeaderDown", "LeaderUp"):
            out.append({"a": a})
        elif a == "EpochUp":
            out.append({"a": "EpochUp", "node": "F", "n": s.get("n", 1)})
        elif a == "Sign":
            out.append({"a": "Sign", "node": "F", "entity": s["entity"], "who": 0, "all": True})
        elif a in ("Restart", "Crash"):
            out.append({"a": "Restart", "node": "F"})
        else:
            raise ValueError(f"unknown model action {a}")
        i += 1
    return out


def ends_inside_sync(steps):
    """The behaviour was cut between the synchroniser's two persistence steps (the replay completes that cycle: the
    final stores are not comparable)."""
    for t in reversed(steps):
        if t["a"] == "Tick" and t.get("step") == "store":
            return True
        if t["a"] in ("Internal", "Crash") or (t["a"] == "Tick" and t.get("node") == "F"):
            return False
    return False


def features(b):
    """What a behaviour exercises: used to pick a covering subset for replay."""
    f = set()
    steps = b["steps"]
    own = 0
    synced = 0
    for i, s in enumerate(steps):
        a = s["a"]
        if a == "Tick" and s.get("step") == "store":
            f.add(("sync", s["how"], "own_before" if own else "no_own"))
            synced += 1
            nxt = [t for t in steps[i + 1:] if t["a"] in ("Internal", "Crash")][:1]
            if nxt and nxt[0]["a"] == "Crash":
                f.add(("stop_in_sync", s["how"]))
            if nxt and nxt[0]["a"] == "Internal" and nxt[0].get("skipped"):
                f.add(("open_message_skipped",))
        elif a == "Tick" and s.get("step") in ("skip_sync", "sync_gap", "stall"):
            f.add((s["step"], "after_sync" if synced else "before_sync"))
        elif a == "Tick" and s.get("step") == "seal":
            own += 1
            f.add(("seal", "after_sync" if synced else "before_sync", min(own, 3)))
        elif a == "Sign":
            f.add(("sign", s["entity"], "late" if s.get("late") else "open"))
        elif a == "LCertify":
            f.add(("lcertify", s["entity"]))
        elif a == "LExpire":
            f.add(("lexpire",))
        elif a == "LRegenesis":
            f.add(("regenesis", "own_before" if own else "no_own"))
        elif a == "EpochUp":
            f.add(("fepoch", s.get("n", 1)))
        elif a in ("LeaderDown", "Restart"):
            f.add((a,))
    for cause in b.get("dupcauses", []):
        f.add(("model_double_certification", cause))
    f.add(("warm", bool(b.get("warm"))))
    return f


def cover(behaviours, budget):
    """Greedy: behaviours that together exhibit every feature seen, richest first."""
    feats = [(features(b), b) for b in behaviours]
    todo = set().union(*[f for f, _ in feats]) if feats else set()
    out = []
    while todo and len(out) < budget:
        f, b = max(feats, key=lambda fb: (len(fb[0] & todo), fb[1]["nown"] + fb[1]["nsync"], -len(fb[1]["steps"])))
        if not f & todo:
            break
        out.append(b)
        todo -= f
    return out, todo


def drop_prefixes(behaviours):
    """GEN prints a behaviour at several depths: keep the longest of each family (and one of identical ones)."""
    lens = sorted({len(b["steps"]) for b in behaviours})
    kept = []
    prefixes = set()
    for b in sorted(behaviours, key=lambda b: -len(b["steps"])):
        key = json.dumps(b["steps"], sort_keys=True)
        if key in prefixes:
            continue
        kept.append(b)
        for d in lens:
            if d <= len(b["steps"]):
                prefixes.add(json.dumps(b["steps"][:d], sort_keys=True))
    return kept
