"""Turn a TLC state-graph dump (-dump dot,actionlabels) into schedules covering every edge.

The spec carries a variable  last = [p |-> <proc>, a |-> "<Action>"]  naming the thread that moved
and the action it took; an edge s -> t is labelled with t.last.  Each schedule is a path from the
initial state; together the schedules traverse every edge of the graph at least once."""
import collections
import re

_NODE = re.compile(r'^(-?\d+) \[label="((?:[^"\\]|\\.)*)"')
_EDGE = re.compile(r'^(-?\d+) -> (-?\d+) \[')


def _unescape(s):
    return s.replace('\\n', '\n').replace('\\"', '"').replace('\\\\', '\\')


def parse_dot(path):
    nodes = {}
    edges = collections.defaultdict(list)
    init = None
    nedges = 0
    seen_edges = set()
    with open(path) as f:
        for line in f:
            m = _EDGE.match(line)
            if m:
                e = (int(m.group(1)), int(m.group(2)))
                if e not in seen_edges:
                    seen_edges.add(e)
                    edges[e[0]].append(e[1])
                    nedges += 1
                continue
            m = _NODE.match(line)
            if m:
                nid = int(m.group(1))
                if nid not in nodes:
                    nodes[nid] = _unescape(m.group(2))
                if init is None and "style = filled" in line:
                    init = nid
    return nodes, edges, init, nedges


def field(label, name):
    """text of the conjunct `/\\ name = ...` (possibly spanning lines)"""
    m = re.search(r'/\\ ' + re.escape(name) + r' = (.*?)(?=\n/\\ |\Z)', label, re.S)
    return m.group(1).strip() if m else None


def parse_fun(text):
    """(a :> "x" @@ "rf" :> "y") -> {a: x, rf: y} for string-valued functions"""
    out = {}
    for k, v in re.findall(r'"?(\w+)"? :> "(\w+)"', text):
        out[k] = v
    return out


def parse_last(text):
    m = re.search(r'p \|-> "?(\w+)"?, a \|-> "(\w+)"', text)
    return m.group(1), m.group(2)


def edge_cover(edges, init, max_len=60, hop_limit=12):
    """Greedy edge cover by paths from init. Returns list of node-id paths."""
    uncovered = {(s, t) for s, ts in edges.items() for t in ts}
    total = len(uncovered)
    # shortest path tree from init (to start a path at the nearest uncovered edge)
    parent = {init: None}
    depth = {init: 0}
    order = collections.deque([init])
    while order:
        u = order.popleft()
        for v in edges.get(u, []):
            if v not in parent:
                parent[v] = u
                depth[v] = depth[u] + 1
                order.append(v)

    def path_from_init(n):
        p = []
        while n is not None:
            p.append(n)
            n = parent[n]
        return p[::-1]

    def has_uncovered(n):
        return any((n, t) in uncovered for t in edges.get(n, []))

    def bfs_to_uncovered(src, limit):
        if has_uncovered(src):
            return [src]
        prev = {src: None}
        dq = collections.deque([(src, 0)])
        while dq:
            u, d = dq.popleft()
            if d >= limit:
                continue
            for v in edges.get(u, []):
                if v not in prev:
                    prev[v] = u
                    if has_uncovered(v):
                        p = [v]
                        while prev[p[-1]] is not None:
                            p.append(prev[p[-1]])
                        return p[::-1]
                    dq.append((v, d + 1))
        return None

    paths = []
    # nodes with uncovered out-edges, nearest first
    while uncovered:
        # pick the uncovered edge whose source is closest to init
        s0 = min((s for (s, _) in uncovered), key=lambda n: depth[n])
        path = path_from_init(s0)
        for a, b in zip(path, path[1:]):
            uncovered.discard((a, b))
        cur = s0
        while len(path) - 1 < max_len:
            nxt = [t for t in edges.get(cur, []) if (cur, t) in uncovered]
            if nxt:
                t = nxt[0]
                uncovered.discard((cur, t))
                path.append(t)
                cur = t
                continue
            hop = bfs_to_uncovered(cur, hop_limit)
            if hop is None or len(path) - 1 + len(hop) > max_len:
                break
            for a, b in zip(hop, hop[1:]):
                uncovered.discard((a, b))
                path.append(b)
            cur = path[-1]
        paths.append(path)
    return paths, total
